#!/bin/bash
# store_seed.sh <ID> <slot> "<demo command>" "<needs>" "<caught-by>"
ID=$1; SLOT=$2; DEMO=$3; NEEDS=$4; CAUGHT=$5; OUT=${SEED_WT:-/tmp/wt-$ID}/OUT; D=/verif/seeded/$SLOT
mkdir -p $D; cp $OUT/patch.diff $OUT/demo.diff $OUT/NOTES.md $D/
python3 - "$ID" "$SLOT" "$DEMO" "$NEEDS" "$CAUGHT" <<'PY'
import json,sys,re
ID,SLOT,DEMO,NEEDS,CAUGHT=sys.argv[1:6]
import os; out=os.environ.get('SEED_WT','/tmp/wt-%s'%ID)+'/OUT/'
def rd(f):
    try: return open(out+f).read()
    except Exception: return ''
chk=rd('verify_check.txt')
meta={"breaks_property":ID,"slot":SLOT,
 "needs_to_manifest":NEEDS,
 "demo_command":DEMO,
 "verified":{
   "suite_with_change":[l for l in rd('verify_suite.txt').splitlines()],
   "demo_with_change":[l for l in rd('verify_demo_with.txt').splitlines() if l.startswith('test result') or l.startswith('exit=')],
   "demo_without_change":[l for l in rd('verify_demo_without.txt').splitlines() if l.startswith('test result') or l.startswith('exit=')],
   "my_check_cmd":"git -C /repo apply patch.diff && ./check %s quick ; git -C /repo checkout -- ."%ID,
   "my_check_exit":[l for l in chk.splitlines() if l.startswith('check exit=')],
   "my_check_first_lines":[l[:240] for l in chk.splitlines() if l.startswith('  [')][:3]},
 "caught_by":CAUGHT}
json.dump(meta,open('/verif/seeded/%s/meta.json'%SLOT,'w'),indent=1)
print(json.dumps(meta['verified']['my_check_exit']))
PY
