#!/bin/bash
# run_seeds.sh [slot ...] : for every stored seeded change, apply it to /repo, run the
# property's quick check (must exit 1 with a VIOLATION line), restore /repo.  Prints one line
# per seed; exits 1 if any seed is missed.  /repo is always restored (trap).
cd /verif || exit 2
trap 'git -C /repo checkout -- . 2>/dev/null' EXIT
if [ -n "$(git -C /repo status --short | grep -v '^??')" ]; then echo "/repo working tree is not clean"; exit 2; fi
SLOTS=${@:-$(ls seeded)}
miss=0
for s in $SLOTS; do
  id=${s%%-*}
  git -C /repo apply /verif/seeded/$s/patch.diff 2>/dev/null || { echo "$s: patch does not apply"; miss=1; continue; }
  out=$(./check $id quick 2>&1); rc=$?
  git -C /repo checkout -- .
  if [ $rc -eq 1 ] && echo "$out" | grep -q "^VIOLATION property=$id"; then
    echo "$s: caught ($(echo "$out" | grep -m1 '^  \[' | cut -c1-140))"
  else
    echo "$s: MISSED (exit $rc)"; miss=1
  fi
done
# leave evidence as of the unchanged tree
exit $miss
