#!/bin/bash
# verify_seed.sh <ID> "<demo command>"   (worktree /tmp/wt-<ID> with OUT/patch.diff, OUT/demo.diff)
# 1. clean checkout + patch  -> the repository's own suite must pass
# 2. + demo                  -> the demo must FAIL
# 3. demo without the patch  -> the demo must PASS
# 4. patch applied to /repo  -> ./check <ID> quick must exit 1 with a VIOLATION line; /repo restored
ID=$1; DEMO=$2; WT=${SEED_WT:-/tmp/wt-$ID}; OUT=$WT/OUT
STEPS=${STEPS:-1234}
cd $WT || exit 2
if [[ $STEPS == *1* ]]; then
git checkout -q -- . ; git clean -qfd crates 2>/dev/null
git apply OUT/patch.diff || { echo "PATCH DOES NOT APPLY"; exit 2; }
echo "== suite with the change"
cargo test --workspace --no-fail-fast --offline 2>&1 | grep -E "^test result: (ok|FAILED)\. [1-9]|^error" | tee $OUT/verify_suite.txt
git apply OUT/demo.diff || { echo "DEMO DOES NOT APPLY ON TOP OF PATCH"; }
echo "== demo with the change (must fail)"
( eval "$DEMO" ) > $OUT/verify_demo_with.txt 2>&1; echo "exit=$?" | tee -a $OUT/verify_demo_with.txt; grep -E "^test result|panicked" $OUT/verify_demo_with.txt | head -5
git apply -R OUT/patch.diff
echo "== demo without the change (must pass)"
( eval "$DEMO" ) > $OUT/verify_demo_without.txt 2>&1; echo "exit=$?" | tee -a $OUT/verify_demo_without.txt; grep -E "^test result" $OUT/verify_demo_without.txt | head -5
git checkout -q -- . ; git clean -qfd crates 2>/dev/null
fi
[[ $STEPS == *4* ]] || exit 0
echo "== my check with the change applied to /repo"
cd /repo && git status --short | grep -v '^??' | head -3
git -C /repo apply $OUT/patch.diff || { echo "PATCH DOES NOT APPLY TO /repo"; exit 2; }
cd /verif && ./check $ID quick > $OUT/verify_check.txt 2>&1; echo "check exit=$?" | tee -a $OUT/verify_check.txt
git -C /repo checkout -- . ; git -C /repo status --short | grep -v '^??' | head -3
grep -E "^  \[|^VIOLATION|^OK|MACHINERY" $OUT/verify_check.txt | cut -c1-300 | head -8
