#!/usr/bin/env python3
"""Regenerates the table of seeded changes in DESIGN.md (between the SEEDS markers)
from seeded/*/meta.json."""
import json, glob, os, re
rows = []
for d in sorted(glob.glob('/verif/seeded/*/')):
    m = json.load(open(d + 'meta.json'))
    head = open(d + 'NOTES.md').readline().strip().lstrip('# ').strip()
    head = re.sub(r'^C\d\d\s+(seed(ed)?|planted)\s*(defect|change)?\s*:?\s*', '', head, flags=re.I).strip() or m.get('what', '')
    if not head or head.lower() in ('planted defect', 'seeded change'):
        head = m.get('what', '')
    f = [l[6:].strip() for l in open(d + 'patch.diff') if l.startswith('+++ b/')]
    rows.append((m['slot'], head or '(see NOTES.md)', ', '.join(x.replace('crates/erbium-core/src/', '').replace('crates/', '') for x in f), m['needs_to_manifest'], m['caught_by'], m['verified']['my_check_exit']))
out = ['| seed | change (file) | needs, to manifest | caught by |', '|---|---|---|---|']
for s, h, f, n, c, e in rows:
    out.append('| %s | %s (`%s`) | %s | %s |' % (s, h.replace('|', '/'), f, n.replace('|', '/'), c.replace('|', '/')))
txt = '\n'.join(out)
p = '/verif/DESIGN.md'
s = open(p).read()
a, b = '<!-- SEEDS-BEGIN -->', '<!-- SEEDS-END -->'
if a in s:
    s = s[:s.index(a) + len(a)] + '\n' + txt + '\n' + s[s.index(b):]
    open(p, 'w').write(s)
    print('DESIGN.md table updated: %d seeds' % len(rows))
else:
    print(txt)
