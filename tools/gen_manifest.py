#!/usr/bin/env python3
"""Regenerates /verif/MANIFEST.json from the table below (single source of truth)."""
import json, os, subprocess
ROOT = os.path.dirname(os.path.dirname(os.path.abspath(__file__)))

def hook_commits():
    try:
        out = subprocess.check_output(["git", "-C", "/repo", "log", "--format=%H %s"], text=True)
        return [l.split()[0] for l in out.splitlines() if " verif hook" in l]
    except Exception:
        return []

CHECKS = {
 "C01": dict(level="model_checking", engine="E-HIST", design="5/C01",
   technique="explicit-state BFS over the real dhcp::handle_pkt + SQLite store (exact-state dedup) from 5 root stores, oracle on every transition; plus every history of length 3 (thorough 4) on one never-reopened Pool (no dedup); plus a consequence search wherever the store diverges from what the clients were told; plus narrow-deep histories (one pool, 2 clients, depth 7/9), histories on stores upgraded from the previous release's format by the real Pool, and a store-locked deviation (SQLITE_BUSY during any one message)",
   text="Every history over the message/config/clock alphabet up to the completed depth is executed on the real handler and real SQLite store; the double-lease oracle is evaluated on every transition, each on a freshly opened store (restart between any two messages).",
   note="Bounds: <=3 clients, <=8 configurations with 1-2 address pools, depth as reported, from 9 roots (the empty store and 8 stores that long histories reach: 24 h leases mid-life and expired, two clients, empty / 255-octet identities, one client with six leases, foreign holders, rows expired for weeks and months; the 8 enter the search one level late). Every store is created from the SQL the real Pool writes on a fresh file. Trusted: SQLite, the clock interposition, time-shift invariance of pool.rs (argued in DESIGN.md 2)."),
 "C09": dict(level="model_checking", engine="E-HIST", design="5/C09",
   technique="explicit-state BFS over the real dhcp::handle_pkt + SQLite store, keep-your-address and exhaustion oracles on every transition; long-lived histories on one Pool; told-record consequence search (reply-level clauses judged against what clients were told when the store mis-records it); alphabet includes REQUESTs selecting this server (option 50 / ciaddr) and a foreign server; narrow-deep and upgraded-store histories as for C01",
   text="Same search as C01; on every transition the reply (or refusal) is compared with the set of unexpired leases the client holds inside the pool it is served from, the pool being stated independently by the harness per configuration.",
   note="Pool membership per (config, interface, client) is hand-stated in the harness for the alphabet configurations (K1-K8); general policy evaluation is C02/C11's subject."),
 "C10": dict(level="model_checking", engine="E-HIST", design="5/C10",
   technique="explicit-state BFS over the real dhcp::handle_pkt + SQLite store with renewal-rhythm clock steps and configurations whose policies try to set option 51/54 (K6/K7), lease-time oracle on every reply; long-lived histories on one Pool; client-requested lease times (option 51 below / inside / above the bounds); store-locked deviation: every message on every kept state while a second connection holds a write / exclusive lock on the (file-backed) store, oracle record-missing",
   text="Every OFFER/ACK produced anywhere in the explored history space is checked for option 51, its bounds and its agreement with the recorded row.",
   note="Bounds 300..86400 are the defaults; no configuration key reaches minlease/maxlease in this tree. The 24 h cap is only reachable after ~9 doublings, so the search also starts from stores holding long leases (deep roots) and has 30000 s / 100000 s clock steps."),
 "C13": dict(level="model_checking", engine="E-HIST", design="5/C13",
   technique="explicit-state BFS plus an exhaustive probe set (all 256 message types x server-id shapes x interfaces x clients, header variants, ciaddr set/unset for the types that read it) applied to every reachable state up to the probe depth; roots include rows expired for weeks and months (only a new lease on the same address may touch a row)",
   text="Every reachable store up to the probe depth is hit with every message-type value, malformed type options and server-id shapes; replies only for DISCOVER/REQUEST-for-us, unchanged store otherwise, echo fields and server identifier on every reply.",
   note="A server-identifier option whose length is not 4 is treated as don't-care (the statement does not define it)."),
 "C12": dict(level="exploration", engine="E-ENUM + E-WIRE", design="5/C12",
   technique="bounded-exhaustive enumeration: all 65536 flag values, all payload lengths 0..1472, checksum word sweeps (all 65536 values of a payload word / address half), option-length/header products, against independent RFC 2131/3396 and Ethernet/IPv4/UDP decoders; plus E-WIRE: every 2-message (thorough 3) history of real client frames against the real DhcpService on a veth pair, reply frames captured and dissected",
   text="The flag predicate is decided for every 16-bit value; frame construction for every payload length; encode/decode for the full product of boundary header/field lengths and all option sets of size <=3 over boundary value lengths (0..1500), each encoding also read by an independent decoder, plus hand-encoded repeated/zero-length/padded option wire images.",
   note="The destination choice and framing call inline in DhcpService::recvdhcp are executed by the wire part (real frames on a veth pair); relayed replies (giaddr) and fragmented frames are not. A transmitted UDP checksum 0 is accepted."),
 "C14": dict(level="exploration", engine="E-ENUM", design="5/C14",
   technique="bounded-exhaustive enumeration of structured messages (name-sharing patterns, every first-written offset around 0x4000 and 0xffxx) and single-octet-exhaustive mutations of their encodings, through the real parser/serialiser and an independent strict decoder; families: single, multi, rdata-ref, chain (pointer chains 1..127), octets (every octet value 0..255 in names up to 255 wire octets), boundary, header, wire-shapes (several OPT records)",
   text="Every structured message of the grammar and every accepted mutated byte string is encoded by the real serialiser, decoded by the real parser (must equal) and by an independent strict decoder (counts, no trailing octets, pointers strictly backwards and < 0x4000, RDLENGTH = typed rdata).",
   note="Names over 3 labels {a,b,63x'x'} up to depth 3, plus one-octet-label chains and names of a single repeated octet value; messages up to 65535 octets only in the boundary family; the 255-octet name limit is recorded, not judged."),
 "C04": dict(level="exploration", engine="E-ENUM + E-NET", design="5/C04",
   technique="bounded-exhaustive enumeration of (size limit x full-size delta x message family) through the real serialise_with_size, judged by an independent strict decoder; end to end against the live service (advertised sizes x reply sizes x UDP/TCP); upstream-TCP episodes (truncated UDP answer, TCP retry answered late or closed after D s, then the same question over TCP): every NOERROR reply that fits is complete and not marked truncated",
   text="serialise_with_size is executed for every limit 512..4096 (and 8 larger limits up to 65535) with the full message sized limit+delta for every delta around the limit, over 6 message families; each output is decoded strictly (counts = contents, no trailing octets), must be <= limit, a record-prefix of the full message, TC iff a record is missing, complete when it fits.",
   note="Two parts: function level (serialise_with_size) and end to end against the live service (E-NET: advertised sizes x reply sizes x UDP/TCP x 3 answer shapes). OPT-only omission is don't-care."),
 "C05": dict(level="exploration", engine="E-ENUM", design="5/C05",
   technique="bounded-exhaustive byte-string enumeration (all strings <=3 octets; seeds x every offset x all 256 values; all marked-field pairs x boundary values; every truncation) through the real decoders and receive-path code, panic hook + overflow checks on; live service: hostile datagrams with a valid query queued right behind, and upstream-TCP episodes (well-formed answers at a hostile time: late by D s, or the connection closed) followed by further queries that must be answered",
   text="Every network-facing decoder plus the code its receive path runs on the decoded value (handle_pkt, option logging, reply framing; DNS accessors used by listener, cache and upstream-result paths; LLDP TLV logging) is run on the whole enumerated input set; any panic/overflow/out-of-bounds is a violation; afterwards each handler must still answer a valid request.",
   note="Runs in a supervised child process: an abort (stack overflow) or a hang (120 s per input) is reported as a violation naming the input. The LLDP 14-octet frame skip and socket loops are not executed. Log statements are formatted (trace logger installed)."),
 "C17": dict(level="exploration", engine="E-ENUM + E-WIRE", design="5/C17",
   technique="bounded-exhaustive enumeration of interface configurations (full product inside each option group x top-level defaults x 3 base contexts) through the real YAML loader, builder and serialiser, decoded by an independent RFC 4861/8106/8781/8910 decoder and compared with expected(config); plus E-WIRE: the real RaAdvService on a veth pair under three default-route environments, solicited with real RS frames, advertisements captured on the wire and judged by the same decoder; and run-time address histories: every sequence of ip addr add/del events (depth 2, thorough 4) on the advertising interface while the service runs x 3 configurations, a solicitation answered after every event ($self6 and implied prefixes must follow the interface as it is now)",
   text="Every configuration of the grammar is loaded by the real loader, built and serialised by the real code and decoded by an independent decoder that enforces 8-octet alignment, zero reserved fields and zero prefix bits beyond the length; decoded values must equal what the configuration means, unrepresentable values may only be rejected or clamped.",
   note="Function part: the hook verif_build repeats the two small matches of build_announcement that pick mtu/lifetime from netinfo; the wire part executes the real build_announcement, handle_solicit and raw transmit. Unsolicited (timer-driven) advertisements are not exercised. Default RDNSS/DNSSL lifetimes are don't-care."),
 "C03": dict(level="exploration", engine="E-NET", design="5/C03",
   technique="exhaustive enumeration of fault-free (query shape x upstream reply shape) exchanges executed against the live in-process DnsService on loopback under a paused clock, judged by an independent DNS decoder; pairs of exchanges differing in one question component; refill histories with changing TTLs; response-code family (0..23 + boundaries of the extended bits, thorough all 4096) x client EDNS none/plain/DO",
   text="Each execution starts a fresh real DnsService, sends one real query over UDP or TCP, lets a scripted upstream answer with an independently encoded reply and compares what the client receives, record for record and section for section, with what the upstream sent.",
   note="One to three exchanges per execution, no faults (faults are C07's). A relayed REFUSED over UDP that the REFUSED limiter suppresses is not judged here (C16). [::1] listener and client."),
 "C07": dict(level="model_checking", engine="E-NET", design="5/C07",
   technique="deviation-bounded exhaustive exploration (stateless DFS with prefix replay, iterated bounds) of environment event schedules against the live in-process DnsService under a paused clock; choice points: client sends, upstream deliveries and fault variants, ticks, upstream query id and retry jitter (hooks); plus scripted families: listener x client address families, big answers (UDP size > datagram), uptime (0..110 h of silence), upstream-TCP episodes (answer late by 0..118 s or connection closed, then follow-ups)",
   text="For 11 scenarios (1-6 queries in flight, UDP/TCP/UDP-pushed-to-TCP, same and different names) every schedule with at most the stated number of deviations (drop, hold until retransmission, duplicate, foreign id, TC, non-FIFO, TCP frame in two parts, two TCP replies coalesced in one write, upstream close, id collision, max jitter, delay) is executed to a 130 s virtual horizon; each query must get exactly one reply from the address it was sent to, carrying the answer scripted for its own question, SERVFAIL only when the environment really lost its replies. Plus all listener families x client families x transports, and the pure in_addr conversion over 625 addresses.",
   note="Await-granularity schedules on one worker thread; <=6 queries in flight (deviation bound lower for the largest scenarios); 100 ms tick quantum. Harness-side exchange bookkeeping decides when SERVFAIL is acceptable."),
 "C15": dict(level="exploration", engine="E-NET", design="5/C15",
   technique="exhaustive enumeration of written route tables (suffix subsets x partitions into routes x types x every route order x every suffix order) each served by a live in-process DnsService with one scripted upstream per forward route, queried with a fixed name set x RD; octet folding (a suffix containing octet c asked with partner octets d: forwarded iff equal up to ASCII letter case); histories in which an earlier NXDOMAIN / answer of one route must not decide a later question of another route",
   text="For every written table the rcode seen by the client and which upstream (if any) received the query are compared with an independent longest-whole-label-suffix, ASCII-case-insensitive reference; since every permutation of the same table is generated, permutation invariance is decided too.",
   note="TCP clients (REFUSED over UDP is the limiter's subject). The same suffix in two routes is don't-care and not generated."),
 "C08": dict(level="exploration", engine="E-ENUM + E-NET", design="5/C08",
   technique="bounded-exhaustive enumeration of ACL rule lists (through the real YAML loader) x clients x operations against an independent first-match reference; Prefix::contains for every prefix length against bit arithmetic; plus the live DNS service (RD set and clear) and live HTTP API under 12 rule lists, HTTP keep-alive sequences (every ordered pair of paths on one connection)",
   text="require_permission is decided for every rule list of length <=3 over a 180-rule alphabet (lengths 4-6 over a sub-alphabet) x 25 clients x 4 operations; the entry points are exercised for real: DNS over TCP from 4 source addresses (refused => upstream saw nothing, cached answer not served) and HTTP over v4, v6, v4-mapped and unix-socket clients x 4 paths.",
   note="A plain IPv4 client against an IPv6 prefix that merely covers ::ffff:0:0/96 (e.g. ::/0) is don't-care. Unknown HTTP paths may answer 403 or 404."),
 "C16": dict(level="model_checking", engine="E-HIST-style + E-NET", design="5/C16",
   technique="exhaustive enumeration of arrival/advance histories on the real IpRateLimiter under the virtual clock (volume-bound and idle-grant oracles on every history), plus the live service: every arrival/advance history of length <=3 (thorough 4) over three reply sizes x EDNS with REFUSED datagrams counted and sized at the client and every window judged in octets, three long volume patterns, the full cookie matrix, forged cookies, a new source port per query; and overlapping checks: K tasks (1, 2, 16; thorough 3, 8) call the real IpRateLimiter::check for one source and yield between check and charge (tokio cooperative budget), every history of 3 (thorough 4) rounds x cost x gap, window bound with the overdraft term",
   text="Every history up to the stated depth over an alphabet derived from the limiter's own constants is executed on the real limiter; on the live service REFUSED datagrams are counted and sized at the client, and a server cookie is presented under every combination of client cookie, source address, server address, 0/1/2 key rotations and cookie length with the source's bucket emptied first, so only an exemption can produce a reply.",
   note="The read-lock/write-lock window between check and deplete is opened at await granularity only (one thread); overlapping grants overdraw a bucket by (K-1) x cost, which is owed afterwards: the bound of that part carries the term. Rotation is lazy; a silent gap over several periods is don't-care."),
 "C06": dict(level="model_checking", engine="E-ENUM (paused clock) + E-NET", design="5/C06",
   technique="exhaustive enumeration of (TTL vector x elapsed time x probe key) through the real cache functions under tokio's paused clock, plus explicit event sequences (ask, advance, ask) on the live service with upstream queries counted; response codes NOERROR/SERVFAIL/NXDOMAIN/REFUSED; negative answers with SOA records (MINIMUM below/at/above the TTL); re-insertion histories (two insertions under one key)",
   text="For every TTL vector of the grammar the real calculate_expiry/insert/get_entry/expire are driven at 8 instants around the expiry with 7 probe keys, before and after an expiry sweep: a hit requires the same key and elapsed <= min TTL, served TTLs = original - floor(elapsed), no wrap (overflow checks on). The live part asks the same question at +0, +1.5 s and just past expiry over UDP and TCP, class IN and CH, and varies each key component.",
   note="The hook's insert is unconditional like the private function; the 'only cache when lifetime > 0' rule is decided by the live part. Case variants of a name and the query's AD bit are don't-care."),
 "C18": dict(level="fault_enumeration", engine="E-HIST (history mode) + E-CRASH", design="5/C18",
   technique="exhaustive kill-point enumeration (a child process dies before every write-class libc call SQLite issues, by symbol interposition) plus exhaustive history enumeration with a reopen-differential at every step (file-backed, and in memory over a wider alphabet), plus enumeration of v0/newer-version databases; narrow-deep restart histories (4 operations, depth 8/10); final live-vs-reopened comparison after every history",
   text="Every write-class syscall of each history (set-up of a fresh store, upgrade of a v0 store, 1-4 colliding allocations) is a kill point; after each kill the file must reopen, hold exactly the state after j or j+1 acknowledged operations, and continue like the uninterrupted run. Restart equivalence is decided by comparing, at every message of every history, the long-lived store with a store reopened on a copy of its file.",
   note="Process kill, not power loss (the page cache survives). _exit before the call stands in for SIGKILL. Scratch files live in /dev/shm (tmpfs) and are removed."),
 "C20": dict(level="model_checking", engine="E-HIST + HTTP rig", design="5/C20",
   technique="explicit-state BFS over handle_pkt to enumerate reachable lease stores, each read at boundary clocks through the real /metrics endpoint; plus exhaustive enumeration of host-name / client-identifier octets through real DISCOVERs and the real lease listing, parsed by a strict JSON parser; the first scrape after a store change made under the held pool mutex; a store upgraded from the previous format; leases carrying every other option code x lengths 0..4/255",
   text="Gauges are compared with the store for every reachable store of the search and every clock value at each row's expiry -1/+0/+1 (and the empty store after non-empty ones); the listing is requested from the real HTTP API over the unix control socket for stores holding one lease per enumerated host-name/identifier value and compared entry by entry with the rows.",
   note="The boundary instant is judged exactly as stated (expiry <= now is expired). The DhcpService is built by the verif_new hook (ephemeral UDP port instead of 67)."),
 "C02": dict(level="exploration", engine="E-ENUM + drain histories", design="5/C02",
   technique="bounded-exhaustive enumeration of configurations (every prefix length x server/reserved address placement; policy trees over a 16-address universe) through the real YAML loader; every history of length 3 (thorough 4) across pool changes / interfaces / a reservation on one never-reopened Pool judged by the outside-pool oracle; pools observed by build_default_config and by draining the real handle_pkt with fresh clients until exhaustion, compared with an independent reference of the documented sets; every tree drained with and without an outer pool (top-level addresses); several address sources in one policy in every key order",
   text="For the addresses form the computed pool must equal hosts - server - reserved for every prefix length; for policy trees every (tree, hardware address) pool is drained through the real handler and the set of addresses handed out must equal the documented pool (own addresses minus everything added by sub-policies, first matching sibling, condition-less policies apply iff a sub-policy does).",
   note="Don't-care: overlapping pools of sibling policies, the server's own address inside an explicit pool. Prefixes shorter than /10 are not materialised (resource use)."),
 "C19": dict(level="exploration", engine="E-ENUM", design="5/C19",
   technique="bounded-exhaustive structural and byte-level enumeration of configuration texts derived from the shipped examples and a full-grammar skeleton, through the real loader (panic hook, overflow checks, watchdog); every accepted text is then served by the real handlers (DHCP, ACL, RA builder/serialiser, live DNS service for EVERY distinct route table the texts produce); name/text shapes at the wire limits for every scalar; pairs of huge durations",
   text="Every node of every skeleton document is replaced by 21 wrong-type/boundary values, every scalar by 12 duration shapes and case/spelling variants, every prefix-shaped scalar by every prefix length x 6 address forms, every entry removed or its key misspelt; every offset of the shipped texts is deleted or overwritten with each structural octet. The loader must return Ok or a non-empty Err; each accepted configuration is served (DISCOVER+REQUEST from 4 receiving addresses x 3 clients, 20 ACL decisions, RA per interface, one query per changed DNS route on the live service) without a panic.",
   note="Texts implying an IPv4 pool over 2^20 addresses at load time are not loaded and pools over 2^20 are not served (memory exhaustion aborts, not claimed). A 300 s watchdog reports non-termination; aborts are reported as violations by the supervisor. The live DNS pass runs in its own network namespace."),
 "C11": dict(level="exploration", engine="E-ENUM", design="5/C11",
   technique="bounded-exhaustive enumeration of policy trees (all trees of depth <=2 / width <=2, depth-3 chains, width-3 sibling lists over a 7-condition alphabet; override chains over a 7-value apply alphabet) x requests, through the real YAML loader and the real handle_pkt, compared with an independent model of erbium.conf(5); other spellings of the top-level address list; option catalogue: every option a policy can name (65 names, codes 1..252) x 5 parameter request lists, value = RFC 2132/3397/3442 encoding iff requested",
   text="Each configuration is loaded by the real loader and asked with every request of the request alphabet (receiving address x hardware address x host name x parameter list x interface mtu/router); the reply's option map must equal the model's (first applying sibling, AND of conditions, condition-less policy applies iff a sub-policy does, outer then inner, null unsets, parameter-list gating, top-level and interface defaults with $self4).",
   note="Marker options per depth make the applied node observable. Options 53/54/51, an empty search list sent empty vs absent, and netmask/broadcast under two different match-subnets are don't-care. One known finding (apply-routes is not RFC 3442; see known_findings.json and DESIGN.md section 6): printed as KNOWN-FINDING, exit 0."),
}

NOT_YET = {
}

def main():
    props = [json.loads(l) for l in open(os.path.join(ROOT, "properties.jsonl"))]
    checks, na = [], []
    for p in props:
        pid = p["id"]
        if pid in CHECKS:
            c = CHECKS[pid]
            checks.append({
                "property_id": pid,
                "quick_cmd": f"./check {pid} quick",
                "thorough_cmd": f"./check {pid} thorough",
                "evidence_file": f"/verif/evidence/{pid}.json",
                "replay_cmd_template": f"./check {pid} --replay {{path}}",
                "engine": c["engine"],
                "level_claimed": {"category": c["level"], "text": c["text"], "design_ref": "DESIGN.md section " + c["design"]},
                "level_note": c["note"],
                "technique": c["technique"],
            })
        else:
            na.append({"property_id": pid, "reason": NOT_YET.get(pid, "check not built yet in this round; planned engine in DESIGN.md section 5")})
    m = {
        "version": 1,
        "setup_cmd": "./setup.sh",
        "hooks": {
            "guard": "cargo feature `verif` of crate erbium-core",
            "enable": "the harness depends on /repo/crates/erbium-core with features=[\"verif\"] (path dependency; every build re-fingerprints /repo's working tree)",
            "baseline_off_cmd": "cd /repo && cargo test --workspace --no-fail-fast --offline",
            "source_commits": hook_commits(),
            "add_only": True,
        },
        "engines": [
            {"name": "E-HIST", "path": "harness/src/ehist.rs", "serves_properties": ["C01", "C02", "C09", "C10", "C13", "C18", "C20"], "kind_free_text": "explicit-state BFS; transitions are calls of the real handler on the real SQLite store; long-lived path enumeration, upgraded stores, store-locked deviation"},
            {"name": "E-NET", "path": "harness/src/enet.rs", "serves_properties": ["C03", "C04", "C06", "C07", "C08", "C15", "C16"], "kind_free_text": "event-order exploration of the in-process DNS service on loopback under a paused tokio clock (deviation-bounded DFS for C07; scripted exhaustive families and upstream-TCP episodes for the others)"},
            {"name": "E-CRASH", "path": "harness/src/ecrash.rs", "serves_properties": ["C18"], "kind_free_text": "kill-point enumeration at every SQLite write-class syscall"},
            {"name": "E-WIRE", "path": "harness/src/ewire.rs", "serves_properties": ["C12", "C17"], "kind_free_text": "the real DHCP and RA services on one end of a veth pair in a private network namespace, driven with real Ethernet frames from the other end; reply frames / advertisements captured and dissected"},
            {"name": "E-ENUM", "path": "harness/src/checks", "serves_properties": ["C02", "C05", "C08", "C11", "C12", "C14", "C17", "C19"], "kind_free_text": "bounded-exhaustive input/configuration enumeration against independent reference decoders/models"},
        ],
        "checks": checks,
        "not_applicable": na,
        "notes": "One binary (harness/target/release/erbium-verif) with a sub-command per property; ./check rebuilds it against /repo's working tree first. Exit 2 = machinery failure, never a verdict. known_findings.json lists the 42 repaired defects (status fixed: suppress nothing) and one recorded defect (status known, C11 apply-routes).",
    }
    json.dump(m, open(os.path.join(ROOT, "MANIFEST.json"), "w"), indent=1)
    print("checks:", [c["property_id"] for c in checks], "not_applicable:", len(na))

main()
