#!/bin/sh
# Build the harness (offline) against /repo's working tree with the `verif` feature on.
cd "$(dirname "$0")/harness" || exit 2
export CARGO_NET_OFFLINE=true
exec cargo build --release --offline
