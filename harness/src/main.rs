//! erbium-verif: bounded-exhaustive exploration of the real isomer/erbium code.
//! Usage: erbium-verif <PROPERTY> <quick|thorough>   or   erbium-verif <PROPERTY> --replay <file>
mod checks;
mod common;
mod ecrash;
mod ehist;
mod enet;
mod ewire;
mod httprig;
mod netrun;
mod refdns;

fn main() {
    common::panics::install();
    // glibc malloc: without this, 16 worker threads opening/closing in-memory SQLite databases
    // spend most of their time in mprotect/trim on their arenas.
    unsafe {
        libc::mallopt(libc::M_TRIM_THRESHOLD, 1 << 30);
        libc::mallopt(libc::M_TOP_PAD, 64 << 20);
        libc::mallopt(libc::M_MMAP_THRESHOLD, 1 << 30);
    }
    let args: Vec<String> = std::env::args().collect();
    if args.len() < 3 {
        eprintln!("usage: {} <PROPERTY> <quick|thorough> | <PROPERTY> --replay <file>", args[0]);
        std::process::exit(2);
    }
    // SQLite keeps allocation statistics under one global mutex by default; with 16 explorer
    // threads that mutex serialises everything.  Must be set before the first connection.
    unsafe {
        use erbium::dhcp::pool::rusqlite::ffi;
        let rc = ffi::sqlite3_config(ffi::SQLITE_CONFIG_MEMSTATUS, 0 as std::os::raw::c_int);
        if rc != ffi::SQLITE_OK {
            eprintln!("note: sqlite3_config(MEMSTATUS, 0) = {rc}");
        }
    }
    if let Err(e) = common::clock::self_test() {
        eprintln!("MACHINERY-ERROR {e}");
        std::process::exit(2);
    }
    let prop = args[1].as_str();
    let (tier, replay) = if args[2] == "--replay" {
        if args.len() < 4 {
            eprintln!("--replay needs a file");
            std::process::exit(2);
        }
        let text = std::fs::read_to_string(&args[3]).unwrap_or_else(|e| {
            eprintln!("MACHINERY-ERROR cannot read {}: {e}", args[3]);
            std::process::exit(2)
        });
        let v: serde_json::Value = serde_json::from_str(&text).unwrap_or_else(|e| {
            eprintln!("MACHINERY-ERROR bad replay file: {e}");
            std::process::exit(2)
        });
        ("replay".to_string(), Some(v))
    } else {
        (args[2].clone(), None)
    };
    if prop == "C18" && tier == "crash-child" {
        checks::c18::crash_child(args[3].parse().unwrap(), args[4].parse().unwrap(), &args[5]);
    }
    if tier == "worker" {
        // erbium-verif <PROP> worker <tier> <shard> <nshards>
        common::logsink::install(log::LevelFilter::Trace);
        let t = args[3].as_str();
        let shard: usize = args[4].parse().unwrap();
        let n: usize = args[5].parse().unwrap();
        match prop {
            "C03" => netrun::worker(prop, t, shard, n, checks::c03::cases, checks::c03::run_case),
            "C07" => netrun::worker(prop, t, shard, n, checks::c07::cases, checks::c07::run_case),
            "C15" => netrun::worker(prop, t, shard, n, checks::c15::cases, checks::c15::run_case),
            "C16" => netrun::worker(prop, t, shard, n, checks::c16::cases, checks::c16::run_case),
            "C06" => netrun::worker(prop, t, shard, n, checks::c06::cases, checks::c06::run_case),
            "C05" => netrun::worker(prop, t, shard, n, checks::c05::cases, checks::c05::run_case),
            "C08" => netrun::worker(prop, t, shard, n, checks::c08::cases, checks::c08::run_case),
            "C04" => netrun::worker(prop, t, shard, n, checks::c04::cases, checks::c04::run_case),
            "C17" => netrun::worker(prop, t, shard, n, checks::c17::wire_cases, checks::c17::wire_run_case),
            "C12" => netrun::worker(prop, t, shard, n, checks::c12::wire_cases, checks::c12::wire_run_case),
            "C13" => netrun::worker(prop, t, shard, n, checks::c13wire::cases, checks::c13wire::run_case),
            _ => std::process::exit(2),
        }
    }
    if replay.is_none() && tier != "quick" && tier != "thorough" {
        eprintln!("tier must be quick or thorough");
        std::process::exit(2);
    }
    common::logsink::install(log::LevelFilter::Trace);
    let threads = std::env::var("VERIF_THREADS").ok().and_then(|s| s.parse().ok()).unwrap_or(16usize);
    rayon::ThreadPoolBuilder::new().num_threads(threads).stack_size(16 << 20).build_global().unwrap();
    match prop {
        "C01" | "C09" | "C10" | "C13" => checks::dhcp_hist::run(prop, &tier, replay),
        "C12" => checks::c12::run(&tier, replay),
        "C14" => checks::c14::run(&tier, replay),
        "C03" => checks::c03::run(&tier, replay),
        "C07" => checks::c07::run(&tier, replay),
        "C15" => checks::c15::run(&tier, replay),
        "C16" => checks::c16::run(&tier, replay),
        "C18" => checks::c18::run(&tier, replay),
        "C11" => checks::c11::run(&tier, replay),
        "C19" => checks::c19::run(&tier, replay),
        "C02" => checks::c02::run(&tier, replay),
        "C20" => checks::c20::run(&tier, replay),
        "C06" => checks::c06::run(&tier, replay),
        "C08" => checks::c08::run(&tier, replay),
        "C17" => checks::c17::run(&tier, replay),
        "C05" => checks::c05::run(&tier, replay),
        "C04" => checks::c04::run(&tier, replay),
        _ => {
            eprintln!("unknown property {prop}");
            std::process::exit(2);
        }
    }
}
