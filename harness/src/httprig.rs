//! The real HTTP API (`erbium::http::run`) on a hook-constructed `DhcpService`, in-process on a
//! current-thread runtime with a paused clock.  Same discipline as E-NET: the harness uses std
//! non-blocking sockets and never awaits I/O.
use crate::common::{clock, panics};
use erbium::dhcp::pool;
use std::io::{ErrorKind, Read, Write};
use std::net::{IpAddr, SocketAddr, TcpStream};
use std::os::unix::net::UnixStream;
use std::sync::atomic::{AtomicU32, Ordering};

static SEQ: AtomicU32 = AtomicU32::new(0);

pub struct HttpRig {
    pub rt: tokio::runtime::Runtime,
    pub conf: erbium::config::SharedConfig,
    pub dhcp: std::sync::Arc<erbium::dhcp::DhcpService>,
    pub port4: u16,
    pub port6: u16,
    pub port_any: u16,
    pub unix_path: String,
    pub dir: String,
}

#[derive(Clone, Copy, Debug, PartialEq, Eq)]
pub enum Via {
    V4(std::net::Ipv4Addr), // client source address, to the 127.0.0.1 listener
    V6,                     // ::1 -> [::1] listener
    Mapped(std::net::Ipv4Addr), // v4 client to the [::] listener (seen as ::ffff:a.b.c.d)
    Unix,
}

fn free_port(shard: u32, ip: &str) -> Result<u16, String> {
    for _ in 0..500 {
        let p = (30000 + (shard % 20) * 1000 + SEQ.fetch_add(1, Ordering::SeqCst) % 1000) as u16;
        if std::net::TcpListener::bind((ip, p)).is_ok() {
            return Ok(p);
        }
    }
    Err("no free http port".into())
}

impl HttpRig {
    /// `yaml_rest` is appended to the api-listeners line (acls etc).
    pub fn start(shard: u32, yaml_rest: &str, pool: pool::Pool) -> Result<HttpRig, String> {
        let _ = panics::take_all();
        let port4 = free_port(shard, "127.0.0.1")?;
        let port6 = free_port(shard, "::1")?;
        let port_any = free_port(shard, "::")?;
        let dir = format!("/tmp/erbium-verif-http-{}-{}", std::process::id(), SEQ.fetch_add(1, Ordering::SeqCst));
        std::fs::create_dir_all(&dir).map_err(|e| e.to_string())?;
        let unix_path = format!("{dir}/control");
        let yaml = format!("---\napi-listeners: ['127.0.0.1:{port4}', '[::1]:{port6}', '[::]:{port_any}', '{unix_path}']\n{yaml_rest}");
        let conf = erbium::config::verif_load_config_from_string(&yaml).map_err(|e| format!("http rig config rejected: {e}\n{yaml}"))?;
        let rt = tokio::runtime::Builder::new_current_thread().enable_all().start_paused(true).build().map_err(|e| e.to_string())?;
        if clock::get_nanos().is_none() {
            clock::set_secs(crate::ehist::NOW0 as u64);
        }
        let conf2 = conf.clone();
        let dhcp = rt.block_on(async move {
            let netinfo = erbium_net::netinfo::SharedNetInfo::new().await;
            let dhcp = erbium::dhcp::DhcpService::verif_new(netinfo, conf2.clone(), pool).await?;
            let dhcp = std::sync::Arc::new(dhcp);
            erbium::http::run(dhcp.clone(), conf2).await.map_err(|e| format!("http::run: {e}"))?;
            Ok::<_, String>(dhcp)
        })?;
        let mut rig = HttpRig { rt, conf, dhcp, port4, port6, port_any, unix_path, dir };
        rig.pump(4);
        Ok(rig)
    }

    pub fn pump(&mut self, n: usize) {
        self.rt.block_on(async {
            for _ in 0..n {
                crate::enet::fence();
                tokio::task::yield_now().await;
            }
        });
        crate::enet::fence();
    }

    /// GET `path`; returns (status, headers, body).  Err = no complete response (caller decides).
    pub fn get(&mut self, via: Via, path: &str) -> Result<(u16, String, Vec<u8>), String> {
        self.get_hooked(via, path, &mut |_| {})
    }

    /// As `get`; `hook(round)` is called before every pump round, so that the harness can act as a
    /// concurrent party (e.g. release a lock it holds) while the request is in flight.
    pub fn get_hooked(&mut self, via: Via, path: &str, hook: &mut dyn FnMut(usize)) -> Result<(u16, String, Vec<u8>), String> {
        let req = format!("GET {path} HTTP/1.1\r\nHost: erbium\r\nConnection: close\r\n\r\n");
        enum S {
            T(TcpStream),
            U(UnixStream),
        }
        let mut s = match via {
            Via::V4(src) => S::T(crate::enet::connect_from(IpAddr::V4(src), SocketAddr::new("127.0.0.1".parse().unwrap(), self.port4))?),
            Via::V6 => S::T(TcpStream::connect(("::1", self.port6)).map_err(|e| e.to_string())?),
            Via::Mapped(src) => S::T(crate::enet::connect_from(IpAddr::V4(src), SocketAddr::new("127.0.0.1".parse().unwrap(), self.port_any))?),
            Via::Unix => S::U(UnixStream::connect(&self.unix_path).map_err(|e| format!("unix connect: {e}"))?),
        };
        let reg_fd = match &s {
            S::T(t) => {
                t.set_nodelay(true).ok();
                let fd = std::os::fd::AsRawFd::as_raw_fd(t);
                crate::enet::register_tcp(fd);
                Some(fd)
            }
            _ => None,
        };
        struct Unreg(Option<i32>);
        impl Drop for Unreg {
            fn drop(&mut self) {
                if let Some(fd) = self.0 {
                    crate::enet::unregister_tcp(fd);
                }
            }
        }
        let _unreg = Unreg(reg_fd);
        match &mut s {
            S::T(t) => {
                t.write_all(req.as_bytes()).map_err(|e| e.to_string())?;
                t.set_nonblocking(true).ok();
            }
            S::U(u) => {
                u.write_all(req.as_bytes()).map_err(|e| e.to_string())?;
                u.set_nonblocking(true).ok();
            }
        }
        let mut buf: Vec<u8> = vec![];
        let mut tmp = vec![0u8; 1 << 16];
        let mut eof = false;
        for round in 0..200000 {
            hook(round);
            self.pump(3);
            loop {
                let r = match &mut s {
                    S::T(t) => t.read(&mut tmp),
                    S::U(u) => u.read(&mut tmp),
                };
                match r {
                    Ok(0) => {
                        eof = true;
                        break;
                    }
                    Ok(n) => buf.extend_from_slice(&tmp[..n]),
                    Err(e) if e.kind() == ErrorKind::WouldBlock => break,
                    Err(e) if e.kind() == ErrorKind::Interrupted => continue,
                    Err(_) => {
                        eof = true;
                        break;
                    }
                }
            }
            if eof {
                break;
            }
            if round > 400 && buf.is_empty() {
                break;
            }
            if complete(&buf) {
                break;
            }
        }
        parse_response(&buf).ok_or_else(|| format!("no complete HTTP response ({} octets received, eof={eof})", buf.len()))
    }

    /// Several GETs on ONE connection (HTTP/1.1 keep-alive); returns the status of each response
    /// received (fewer than asked if the server closed the connection early).
    pub fn get_seq(&mut self, via: Via, paths: &[&str]) -> Result<Vec<u16>, String> {
        enum S {
            T(TcpStream),
            U(UnixStream),
        }
        let mut s = match via {
            Via::V4(src) => S::T(crate::enet::connect_from(IpAddr::V4(src), SocketAddr::new("127.0.0.1".parse().unwrap(), self.port4))?),
            Via::V6 => S::T(TcpStream::connect(("::1", self.port6)).map_err(|e| e.to_string())?),
            Via::Mapped(src) => S::T(crate::enet::connect_from(IpAddr::V4(src), SocketAddr::new("127.0.0.1".parse().unwrap(), self.port_any))?),
            Via::Unix => S::U(UnixStream::connect(&self.unix_path).map_err(|e| format!("unix connect: {e}"))?),
        };
        let reg_fd = match &s {
            S::T(t) => {
                t.set_nodelay(true).ok();
                t.set_nonblocking(true).ok();
                let fd = std::os::fd::AsRawFd::as_raw_fd(t);
                crate::enet::register_tcp(fd);
                Some(fd)
            }
            S::U(u) => {
                u.set_nonblocking(true).ok();
                None
            }
        };
        struct Unreg(Option<i32>);
        impl Drop for Unreg {
            fn drop(&mut self) {
                if let Some(fd) = self.0 {
                    crate::enet::unregister_tcp(fd);
                }
            }
        }
        let _unreg = Unreg(reg_fd);
        let mut out = vec![];
        let mut buf: Vec<u8> = vec![];
        let mut tmp = vec![0u8; 1 << 16];
        for path in paths {
            let req = format!("GET {path} HTTP/1.1\r\nHost: erbium\r\n\r\n");
            let mut sent = 0;
            let rb = req.as_bytes();
            let mut spins = 0;
            while sent < rb.len() {
                let r = match &mut s {
                    S::T(t) => t.write(&rb[sent..]),
                    S::U(u) => u.write(&rb[sent..]),
                };
                match r {
                    Ok(n) => sent += n,
                    Err(e) if e.kind() == ErrorKind::WouldBlock || e.kind() == ErrorKind::Interrupted => {
                        self.pump(2);
                        spins += 1;
                        if spins > 2000 {
                            return Err("request could not be written".into());
                        }
                    }
                    Err(_) => return Ok(out), // connection closed by the server
                }
            }
            let mut eof = false;
            let mut got = false;
            for round in 0..200000 {
                self.pump(3);
                loop {
                    let r = match &mut s {
                        S::T(t) => t.read(&mut tmp),
                        S::U(u) => u.read(&mut tmp),
                    };
                    match r {
                        Ok(0) => {
                            eof = true;
                            break;
                        }
                        Ok(n) => buf.extend_from_slice(&tmp[..n]),
                        Err(e) if e.kind() == ErrorKind::WouldBlock => break,
                        Err(e) if e.kind() == ErrorKind::Interrupted => continue,
                        Err(_) => {
                            eof = true;
                            break;
                        }
                    }
                }
                if let Some(len) = complete_len(&buf) {
                    if let Some((status, _, _)) = parse_response(&buf[..len]) {
                        out.push(status);
                        got = true;
                    }
                    buf.drain(..len);
                    break;
                }
                if eof || (round > 400 && buf.is_empty()) {
                    break;
                }
            }
            if !got {
                break;
            }
        }
        Ok(out)
    }

    pub fn stop(self) -> Vec<panics::PanicInfo> {
        let dir = self.dir.clone();
        drop(self.dhcp);
        drop(self.rt);
        let _ = std::fs::remove_dir_all(dir);
        panics::take_all()
    }
}

fn complete(buf: &[u8]) -> bool {
    if let Some(p) = find(buf, b"\r\n\r\n") {
        let head = String::from_utf8_lossy(&buf[..p]).to_ascii_lowercase();
        if let Some(i) = head.find("content-length:") {
            let n: usize = head[i + 15..].lines().next().unwrap_or("").trim().parse().unwrap_or(usize::MAX);
            return buf.len() >= p + 4 + n;
        }
    }
    false
}

/// Length of the first complete response in `buf` (Content-Length or chunked framing).
fn complete_len(buf: &[u8]) -> Option<usize> {
    let p = find(buf, b"\r\n\r\n")?;
    let head = String::from_utf8_lossy(&buf[..p]).to_ascii_lowercase();
    if let Some(i) = head.find("content-length:") {
        let n: usize = head[i + 15..].lines().next().unwrap_or("").trim().parse().ok()?;
        return if buf.len() >= p + 4 + n { Some(p + 4 + n) } else { None };
    }
    if head.contains("transfer-encoding: chunked") {
        let mut i = p + 4;
        loop {
            let e = find(&buf[i..], b"\r\n")? + i;
            let sz = usize::from_str_radix(String::from_utf8_lossy(&buf[i..e]).trim(), 16).ok()?;
            if sz == 0 {
                return if buf.len() >= e + 4 { Some(e + 4) } else { None };
            }
            i = e + 2 + sz + 2;
            if i > buf.len() {
                return None;
            }
        }
    }
    None
}

fn find(h: &[u8], n: &[u8]) -> Option<usize> {
    h.windows(n.len()).position(|w| w == n)
}

fn parse_response(buf: &[u8]) -> Option<(u16, String, Vec<u8>)> {
    let p = find(buf, b"\r\n\r\n")?;
    let head = String::from_utf8_lossy(&buf[..p]).to_string();
    let status: u16 = head.split_whitespace().nth(1)?.parse().ok()?;
    let mut body = buf[p + 4..].to_vec();
    let lower = head.to_ascii_lowercase();
    if let Some(i) = lower.find("content-length:") {
        let n: usize = lower[i + 15..].lines().next().unwrap_or("").trim().parse().ok()?;
        if body.len() < n {
            return None;
        }
        body.truncate(n);
    } else if lower.contains("transfer-encoding: chunked") {
        // de-chunk
        let mut out = vec![];
        let mut i = 0;
        loop {
            let e = find(&body[i..], b"\r\n")? + i;
            let sz = usize::from_str_radix(String::from_utf8_lossy(&body[i..e]).trim(), 16).ok()?;
            if sz == 0 {
                break;
            }
            out.extend_from_slice(body.get(e + 2..e + 2 + sz)?);
            i = e + 2 + sz + 2;
        }
        body = out;
    }
    Some((status, head, body))
}
