//! Plumbing shared by every engine: virtual clock, panic capture, evidence,
//! known-findings matching, replay artefacts, the per-check runner.
pub mod clock;
pub mod logsink;
pub mod panics;
pub mod report;
pub mod util;
pub mod supervise;
