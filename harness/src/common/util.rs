pub fn hex(b: &[u8]) -> String {
    let mut s = String::with_capacity(b.len() * 2);
    for x in b {
        s.push_str(&format!("{:02x}", x));
    }
    s
}
pub fn unhex(s: &str) -> Vec<u8> {
    let s: Vec<u8> = s.bytes().filter(|c| !c.is_ascii_whitespace()).collect();
    assert!(s.len() % 2 == 0, "odd hex length");
    s.chunks(2)
        .map(|c| u8::from_str_radix(std::str::from_utf8(c).unwrap(), 16).expect("bad hex"))
        .collect()
}
pub fn fnv64(data: &[u8]) -> u64 {
    let mut h: u64 = 0xcbf29ce484222325;
    for b in data {
        h ^= *b as u64;
        h = h.wrapping_mul(0x100000001b3);
    }
    h
}
