//! Violations, known-findings matching, evidence and exit codes.
//!
//! Exit codes: 0 = property held on everything explored (KNOWN-FINDING lines
//! possible), 1 = at least one violation not listed in known_findings.json
//! (VIOLATION lines printed), 2 = machinery failure (never a verdict).
use serde_json::{Map, Value, json};
use std::collections::BTreeMap;
use std::time::Instant;

pub fn verif_root() -> String {
    std::env::var("VERIF_ROOT").unwrap_or_else(|_| "/verif".into())
}

#[derive(Clone, Debug)]
pub struct Violation {
    pub oracle: String,
    /// Signature fields: predicates over the failing case, used to match known findings.
    pub sig: BTreeMap<String, String>,
    /// One line: what was expected, what was observed.
    pub what: String,
    /// The replayable case.
    pub case: Value,
}

impl Violation {
    pub fn new(oracle: &str, what: impl Into<String>, case: Value) -> Self {
        let mut what: String = what.into();
        if what.len() > 600 {
            let mut cut = 600;
            while !what.is_char_boundary(cut) {
                cut -= 1;
            }
            what.truncate(cut);
            what.push_str("...");
        }
        Violation { oracle: oracle.into(), sig: BTreeMap::new(), what, case }
    }
    pub fn sig(mut self, k: &str, v: impl ToString) -> Self {
        self.sig.insert(k.into(), v.to_string());
        self
    }
}

#[derive(Clone, Debug)]
pub struct KnownFinding {
    pub status: String,
    pub property: String,
    pub oracle: Option<String>,
    pub matcher: BTreeMap<String, String>,
    pub what: String,
}

pub fn load_known_findings() -> Result<Vec<KnownFinding>, String> {
    let path = format!("{}/known_findings.json", verif_root());
    let text = match std::fs::read_to_string(&path) {
        Ok(t) => t,
        Err(e) if e.kind() == std::io::ErrorKind::NotFound => return Ok(vec![]),
        Err(e) => return Err(format!("{path}: {e}")),
    };
    let v: Value = serde_json::from_str(&text).map_err(|e| format!("{path}: {e}"))?;
    let mut out = vec![];
    for f in v["findings"].as_array().cloned().unwrap_or_default() {
        let mut matcher = BTreeMap::new();
        if let Some(m) = f["match"].as_object() {
            for (k, v) in m {
                matcher.insert(k.clone(), v.as_str().map(|s| s.to_string()).unwrap_or_else(|| v.to_string()));
            }
        }
        out.push(KnownFinding {
            status: f["status"].as_str().unwrap_or("").to_string(),
            property: f["property"].as_str().unwrap_or("").to_string(),
            oracle: f["oracle"].as_str().map(|s| s.to_string()),
            matcher,
            what: f["what"].as_str().unwrap_or("").to_string(),
        });
    }
    Ok(out)
}

impl KnownFinding {
    /// Only `status: known` entries suppress; `fixed` entries never do.
    fn matches(&self, property: &str, v: &Violation) -> bool {
        if self.status != "known" || self.property != property {
            return false;
        }
        if let Some(o) = &self.oracle {
            if *o != v.oracle {
                return false;
            }
        }
        // An entry with neither oracle nor match fields would match everything: refuse.
        if self.oracle.is_none() && self.matcher.is_empty() {
            return false;
        }
        self.matcher.iter().all(|(k, want)| v.sig.get(k).map(|g| g == want).unwrap_or(false))
    }
}

pub struct Report {
    pub property: String,
    pub tier: String,
    pub seed: i64,
    pub level: String,
    start: Instant,
    pub violations: Vec<Violation>,
    pub violations_total: u64,
    pub coverage: Map<String, Value>,
    pub assumptions: Vec<String>,
    pub machinery: Vec<String>,
    pub replay_mode: bool,
    /// a worker process that dies (abort, stack overflow) while running a case is a verdict for
    /// this property (C05) rather than a machinery failure
    pub worker_death_is_violation: bool,
}

const MAX_STORED_VIOLATIONS: usize = 5000;

impl Report {
    pub fn new(property: &str, tier: &str, level: &str) -> Self {
        let seed = std::env::var("VERIF_SEED").ok().and_then(|s| s.parse().ok()).unwrap_or(0);
        Report {
            property: property.into(),
            tier: tier.into(),
            seed,
            level: level.into(),
            start: Instant::now(),
            violations: vec![],
            violations_total: 0,
            coverage: Map::new(),
            assumptions: vec![],
            machinery: vec![],
            replay_mode: false,
            worker_death_is_violation: false,
        }
    }
    pub fn violation(&mut self, v: Violation) {
        self.violations_total += 1;
        if self.violations.len() < MAX_STORED_VIOLATIONS {
            self.violations.push(v);
        }
    }
    pub fn violations_from(&mut self, vs: impl IntoIterator<Item = Violation>) {
        for v in vs {
            self.violation(v);
        }
    }
    pub fn cov(&mut self, k: &str, v: impl Into<Value>) {
        self.coverage.insert(k.into(), v.into());
    }
    pub fn cov_add(&mut self, k: &str, n: u64) {
        let cur = self.coverage.get(k).and_then(|v| v.as_u64()).unwrap_or(0);
        self.coverage.insert(k.into(), json!(cur + n));
    }
    pub fn assume(&mut self, s: &str) {
        self.assumptions.push(s.into());
    }
    pub fn machinery_error(&mut self, s: impl Into<String>) {
        self.machinery.push(s.into());
    }
    pub fn elapsed(&self) -> f64 {
        self.start.elapsed().as_secs_f64()
    }

    /// Classify, write evidence and replay artefacts, print verdict lines, exit.
    pub fn finish(mut self) -> ! {
        let root = verif_root();
        if !self.machinery.is_empty() {
            for m in &self.machinery {
                eprintln!("MACHINERY-ERROR property={} {}", self.property, m);
            }
            std::process::exit(2);
        }
        let known = match load_known_findings() {
            Ok(k) => k,
            Err(e) => {
                eprintln!("MACHINERY-ERROR property={} known_findings: {}", self.property, e);
                std::process::exit(2);
            }
        };
        let mut known_hits: BTreeMap<usize, u64> = BTreeMap::new();
        let mut unknown: Vec<&Violation> = vec![];
        for v in &self.violations {
            match known.iter().position(|k| k.matches(&self.property, v)) {
                Some(i) => *known_hits.entry(i).or_insert(0) += 1,
                None => unknown.push(v),
            }
        }
        for (i, n) in &known_hits {
            println!("KNOWN-FINDING: property={} {} [{} case(s) this run]", self.property, known[*i].what, n);
        }
        // Group unknown violations by (oracle, sig) so that one defect gives one replay file.
        let mut groups: BTreeMap<String, (&Violation, u64)> = BTreeMap::new();
        for v in &unknown {
            let key = format!("{}|{:?}", v.oracle, v.sig);
            groups.entry(key).and_modify(|e| e.1 += 1).or_insert((v, 1));
        }
        let mut lines = vec![];
        for (_k, (v, n)) in groups.iter().take(20) {
            let artefact = json!({
                "property": self.property,
                "oracle": v.oracle,
                "sig": v.sig,
                "what": v.what,
                "cases_in_group": n,
                "case": v.case,
            });
            let text = serde_json::to_string_pretty(&artefact).unwrap();
            let h = crate::common::util::fnv64(text.as_bytes());
            let dir = format!("{}/replays/{}", root, self.property);
            let _ = std::fs::create_dir_all(&dir);
            let path = format!("{}/{:016x}.json", dir, h);
            if let Err(e) = std::fs::write(&path, text) {
                eprintln!("MACHINERY-ERROR cannot write replay {path}: {e}");
                std::process::exit(2);
            }
            lines.push(format!("VIOLATION property={} replay={}", self.property, path));
            eprintln!("  [{}] x{}: {}", v.oracle, n, v.what);
        }
        if !self.replay_mode {
            let unknown_n = unknown.len() as u64
                + self.violations_total.saturating_sub(self.violations.len() as u64);
            self.coverage.insert("violation_groups_unlisted".into(), json!(groups.len()));
            self.coverage.insert("known_finding_cases".into(), json!(known_hits.values().sum::<u64>()));
            let ev = json!({
                "property_id": self.property,
                "tier": self.tier,
                "seed": self.seed,
                "level": self.level,
                "coverage": Value::Object(self.coverage.clone()),
                "assumptions": self.assumptions,
                "wall_s": self.start.elapsed().as_secs_f64(),
                "violations": unknown_n,
            });
            let dir = format!("{}/evidence", root);
            let _ = std::fs::create_dir_all(&dir);
            let path = format!("{}/{}.json", dir, self.property);
            if let Err(e) = std::fs::write(&path, serde_json::to_string_pretty(&ev).unwrap() + "\n") {
                eprintln!("MACHINERY-ERROR cannot write evidence {path}: {e}");
                std::process::exit(2);
            }
        }
        if lines.is_empty() {
            println!(
                "OK property={} tier={} wall={:.1}s {}",
                self.property,
                self.tier,
                self.start.elapsed().as_secs_f64(),
                summarize(&self.coverage)
            );
            std::process::exit(0);
        }
        for l in lines {
            println!("{l}");
        }
        std::process::exit(1);
    }
}

fn summarize(c: &Map<String, Value>) -> String {
    let mut s = vec![];
    for k in ["states", "transitions", "evaluations", "distinct_nontrivial", "exhaustive", "depth_completed"] {
        if let Some(v) = c.get(k) {
            s.push(format!("{k}={v}"));
        }
    }
    s.join(" ")
}

/// Keep at most `n` samples, rotated by the seed (nothing else is ever sampled).
pub fn pick_samples(all: &[Value], n: usize, seed: i64) -> Vec<Value> {
    if all.is_empty() {
        return vec![];
    }
    let step = std::cmp::max(1, all.len() / n);
    let off = (seed.unsigned_abs() as usize) % step.max(1);
    all.iter().skip(off).step_by(step).take(n).cloned().collect()
}
