//! Aborts and hangs.  A stack overflow or `abort()` cannot be caught in-process, and an unbounded
//! loop never returns; for the properties whose subject is exactly that (C05, C19) the check runs
//! in a supervised child process.  Every thread publishes the input it is working on in a slot; a
//! SIGABRT handler (on the alternate signal stack, async-signal-safe writes only) and a watchdog
//! thread write the offending input to a file and leave with a distinctive exit status, which the
//! supervising parent turns into a violation with a replayable input.
use crate::common::report::{Report, Violation};
use serde_json::Value;
use std::sync::atomic::{AtomicI32, AtomicU64, AtomicUsize, Ordering};

const NSLOTS: usize = 256;
struct Slot {
    ptr: AtomicUsize,
    len: AtomicUsize,
    tag: AtomicUsize,
    since_ms: AtomicU64,
}
#[allow(clippy::declare_interior_mutable_const)]
const SLOT0: Slot = Slot { ptr: AtomicUsize::new(0), len: AtomicUsize::new(0), tag: AtomicUsize::new(0), since_ms: AtomicU64::new(0) };
static SLOTS: [Slot; NSLOTS] = [SLOT0; NSLOTS];
static NEXT_SLOT: AtomicUsize = AtomicUsize::new(0);
static ABORT_FD: AtomicI32 = AtomicI32::new(-1);
thread_local! {
    static MY_SLOT: std::cell::Cell<usize> = const { std::cell::Cell::new(usize::MAX) };
}
pub const EXIT_ABORT: i32 = 86;
pub const EXIT_HANG: i32 = 87;

fn my_slot() -> usize {
    MY_SLOT.with(|c| {
        if c.get() == usize::MAX {
            c.set(NEXT_SLOT.fetch_add(1, Ordering::SeqCst) % NSLOTS);
        }
        c.get()
    })
}

fn mono_ms() -> u64 {
    let mut ts: libc::timespec = unsafe { std::mem::zeroed() };
    unsafe { libc::syscall(libc::SYS_clock_gettime, libc::CLOCK_MONOTONIC, &mut ts) };
    ts.tv_sec as u64 * 1000 + ts.tv_nsec as u64 / 1_000_000
}

pub struct Published<'a> {
    slot: usize,
    _data: std::marker::PhantomData<&'a [u8]>,
}

/// Publish the input this thread is about to work on (cleared when the guard drops).
pub fn publish<'a>(tag: usize, data: &'a [u8]) -> Published<'a> {
    let i = my_slot();
    let s = &SLOTS[i];
    s.tag.store(tag, Ordering::SeqCst);
    s.len.store(data.len(), Ordering::SeqCst);
    s.ptr.store(data.as_ptr() as usize, Ordering::SeqCst);
    s.since_ms.store(mono_ms().max(1), Ordering::SeqCst);
    Published { slot: i, _data: std::marker::PhantomData }
}

impl Drop for Published<'_> {
    fn drop(&mut self) {
        let s = &SLOTS[self.slot];
        s.since_ms.store(0, Ordering::SeqCst);
        s.ptr.store(0, Ordering::SeqCst);
    }
}

/// async-signal-safe: kind (1 octet), tag (1 octet), then the input of `slot`
unsafe fn dump_slot(slot: usize, kind: u8) {
    let fd = ABORT_FD.load(Ordering::SeqCst);
    if fd < 0 {
        return;
    }
    let s = &SLOTS[slot];
    let hdr = [kind, s.tag.load(Ordering::SeqCst) as u8];
    unsafe {
        libc::write(fd, hdr.as_ptr() as *const libc::c_void, 2);
        let (p, l) = (s.ptr.load(Ordering::SeqCst), s.len.load(Ordering::SeqCst));
        if p != 0 && l > 0 {
            libc::write(fd, p as *const libc::c_void, l);
        }
    }
}

extern "C" fn on_abort(_sig: libc::c_int) {
    let slot = MY_SLOT.with(|c| c.get());
    unsafe {
        if slot != usize::MAX {
            dump_slot(slot, b'A');
        }
        libc::_exit(EXIT_ABORT)
    }
}

/// Child side: `Some(())` if this process is the supervised child (capture installed).
pub fn install_if_child(env_var: &str, hang_secs: u64) -> bool {
    let Ok(path) = std::env::var(env_var) else { return false };
    let c = std::ffi::CString::new(path).unwrap();
    let fd = unsafe { libc::open(c.as_ptr(), libc::O_WRONLY | libc::O_CREAT | libc::O_TRUNC, 0o600) };
    ABORT_FD.store(fd, Ordering::SeqCst);
    unsafe {
        let mut sa: libc::sigaction = std::mem::zeroed();
        sa.sa_sigaction = on_abort as usize;
        sa.sa_flags = libc::SA_ONSTACK;
        libc::sigaction(libc::SIGABRT, &sa, std::ptr::null_mut());
    }
    std::thread::spawn(move || loop {
        std::thread::sleep(std::time::Duration::from_secs(2));
        let now = mono_ms();
        for (i, s) in SLOTS.iter().enumerate() {
            let t = s.since_ms.load(Ordering::SeqCst);
            if t != 0 && now.saturating_sub(t) > hang_secs * 1000 {
                unsafe {
                    dump_slot(i, b'H');
                    libc::_exit(EXIT_HANG)
                }
            }
        }
    });
    true
}

/// Parent side: run this very command line again as a supervised child; relay a normal verdict,
/// turn an abort or hang into a violation built by `describe(tag, input, how, is_hang)`.
pub fn supervise(property: &str, tier: &str, level: &str, replay: &Option<Value>, env_var: &str, hang_secs: u64, describe: &dyn Fn(usize, &[u8], &str, bool) -> Violation) -> ! {
    let exe = std::env::current_exe().expect("current_exe");
    let abort_file = format!("/dev/shm/erbium-verif-{}-{}.abort", property, std::process::id());
    let _ = std::fs::remove_file(&abort_file);
    let args: Vec<String> = std::env::args().skip(1).collect();
    let st = std::process::Command::new(&exe).args(&args).env(env_var, &abort_file).status();
    let dump = std::fs::read(&abort_file).unwrap_or_default();
    let _ = std::fs::remove_file(&abort_file);
    let code = match &st {
        Ok(s) => s.code(),
        Err(_) => None,
    };
    if let Some(c) = code {
        if c == 0 || c == 1 || c == 2 {
            std::process::exit(c);
        }
    }
    let mut rep = Report::new(property, if replay.is_some() { "quick" } else { tier }, level);
    rep.replay_mode = replay.is_some();
    let hang = code == Some(EXIT_HANG) || dump.first() == Some(&b'H');
    let how = if hang {
        format!("did not return within {hang_secs} s (unbounded loop)")
    } else if code == Some(EXIT_ABORT) {
        "aborted the process (stack overflow or abort(): not a catchable panic)".to_string()
    } else {
        format!("killed the process ({:?})", st)
    };
    if dump.len() >= 2 {
        rep.violation(describe(dump[1] as usize, &dump[2..], &how, hang));
    } else if let Some(case) = replay {
        let case = if case.get("case").is_some() { case["case"].clone() } else { case.clone() };
        rep.violation(Violation::new("abort", format!("the replayed input {how}"), case).sig("how", "abort"));
    } else {
        rep.machinery_error(format!("the check process ended abnormally without naming an input: {:?}", st));
    }
    rep.cov("evaluations", 0u64);
    rep.cov("distinct_nontrivial", 0u64);
    rep.cov("exhaustive", false);
    rep.cov("rule", "the run ended at the first input that aborted or hung the process; nothing after it was explored");
    rep.finish()
}
