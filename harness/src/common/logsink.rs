//! A `log` backend that formats every record (so that Display/Debug code inside erbium's log
//! statements really runs, as it does in production under env_logger) and throws the text away.
use std::fmt::Write as _;

struct Sink;

struct Null;
impl std::fmt::Write for Null {
    fn write_str(&mut self, _s: &str) -> std::fmt::Result {
        Ok(())
    }
}

impl log::Log for Sink {
    fn enabled(&self, _m: &log::Metadata) -> bool {
        true
    }
    fn log(&self, r: &log::Record) {
        if std::env::var_os("VERIF_LOG").is_some() {
            eprintln!("[{}] {}", r.level(), r.args());
        } else {
            let _ = write!(Null, "{}", r.args());
        }
    }
    fn flush(&self) {}
}

static SINK: Sink = Sink;

pub fn install(level: log::LevelFilter) {
    let _ = log::set_logger(&SINK);
    log::set_max_level(level);
}
