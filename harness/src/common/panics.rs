//! Global panic capture: panics inside erbium (including ones swallowed by
//! `tokio::spawn`) are recorded with message and location instead of printed.
use std::cell::RefCell;
use std::sync::Mutex;
use std::sync::atomic::{AtomicU64, Ordering};

#[derive(Clone, Debug)]
pub struct PanicInfo {
    pub msg: String,
    pub loc: String,
}

thread_local! {
    static LAST: RefCell<Vec<PanicInfo>> = const { RefCell::new(Vec::new()) };
}
static TOTAL: AtomicU64 = AtomicU64::new(0);
static ALL: Mutex<Vec<PanicInfo>> = Mutex::new(Vec::new());
static QUIET: std::sync::atomic::AtomicBool = std::sync::atomic::AtomicBool::new(true);

pub fn install() {
    std::panic::set_hook(Box::new(|info| {
        let msg = if let Some(s) = info.payload().downcast_ref::<&str>() {
            s.to_string()
        } else if let Some(s) = info.payload().downcast_ref::<String>() {
            s.clone()
        } else {
            "<non-string panic>".to_string()
        };
        let loc = info
            .location()
            .map(|l| format!("{}:{}", l.file(), l.line()))
            .unwrap_or_else(|| "<unknown>".into());
        if !QUIET.load(Ordering::Relaxed) || loc.contains("/verif/harness/") {
            eprintln!("panic at {loc}: {msg}");
        }
        let pi = PanicInfo { msg, loc };
        TOTAL.fetch_add(1, Ordering::SeqCst);
        let _ = LAST.try_with(|l| l.borrow_mut().push(pi.clone()));
        if let Ok(mut a) = ALL.lock() {
            if a.len() < 10_000 {
                a.push(pi);
            }
        }
    }));
}

pub fn set_quiet(q: bool) {
    QUIET.store(q, Ordering::Relaxed);
}

/// Panics recorded on this thread since the last `take()`.
pub fn take() -> Vec<PanicInfo> {
    LAST.with(|l| std::mem::take(&mut *l.borrow_mut()))
}

pub fn total() -> u64 {
    TOTAL.load(Ordering::SeqCst)
}

/// All panics recorded in the process since the last `take_all()` (any thread).
pub fn take_all() -> Vec<PanicInfo> {
    std::mem::take(&mut *ALL.lock().unwrap())
}

/// Run `f`, returning Err(panic) if it panicked.
pub fn catch<T>(f: impl FnOnce() -> T) -> Result<T, PanicInfo> {
    let _ = take();
    match std::panic::catch_unwind(std::panic::AssertUnwindSafe(f)) {
        Ok(v) => Ok(v),
        Err(_) => {
            let mut p = take();
            Err(p.pop().unwrap_or(PanicInfo { msg: "<panic without hook record>".into(), loc: "<unknown>".into() }))
        }
    }
}

/// Location relative to the repository (stable across checkouts).
pub fn short_loc(loc: &str) -> String {
    match loc.find("crates/") {
        Some(i) => loc[i..].to_string(),
        None => loc.to_string(),
    }
}
