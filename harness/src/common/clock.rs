//! CLOCK_REALTIME interposition.
//!
//! The harness executable defines `clock_gettime`; the dynamic linker resolves
//! libstd's (and libsqlite3's) calls to this definition.  CLOCK_REALTIME
//! returns a per-thread virtual value when one is set, every other clock (and
//! CLOCK_REALTIME when unset) is passed to the kernel by raw syscall.  This
//! virtualises `SystemTime::now()` in pool.rs and bucket.rs with no source
//! change in /repo.
use std::cell::Cell;

thread_local! {
    static VIRT_NS: Cell<i128> = const { Cell::new(-1) };
}

/// Set this thread's virtual wall clock (seconds since the epoch).
pub fn set_secs(s: u64) {
    VIRT_NS.with(|v| v.set(s as i128 * 1_000_000_000));
}
pub fn set_nanos(ns: u128) {
    VIRT_NS.with(|v| v.set(ns as i128));
}
pub fn get_nanos() -> Option<u128> {
    VIRT_NS.with(|v| if v.get() < 0 { None } else { Some(v.get() as u128) })
}
pub fn advance_nanos(ns: u128) {
    VIRT_NS.with(|v| {
        assert!(v.get() >= 0, "virtual clock not set");
        v.set(v.get() + ns as i128)
    });
}
pub fn unset() {
    VIRT_NS.with(|v| v.set(-1));
}

#[unsafe(no_mangle)]
pub unsafe extern "C" fn clock_gettime(clk: libc::clockid_t, ts: *mut libc::timespec) -> libc::c_int {
    if clk == libc::CLOCK_REALTIME {
        let v = VIRT_NS.try_with(|v| v.get()).unwrap_or(-1);
        if v >= 0 {
            unsafe {
                (*ts).tv_sec = (v / 1_000_000_000) as libc::time_t;
                (*ts).tv_nsec = (v % 1_000_000_000) as libc::c_long;
            }
            return 0;
        }
    }
    unsafe { libc::syscall(libc::SYS_clock_gettime, clk, ts) as libc::c_int }
}

/// Start-up self-test: the interposition must actually be in effect.
pub fn self_test() -> Result<(), String> {
    set_secs(1_234_567);
    let got = std::time::SystemTime::now()
        .duration_since(std::time::UNIX_EPOCH)
        .map_err(|e| e.to_string())?
        .as_secs();
    unset();
    if got != 1_234_567 {
        return Err(format!("clock interposition inactive: SystemTime::now() = {got}"));
    }
    let real = std::time::SystemTime::now().duration_since(std::time::UNIX_EPOCH).unwrap().as_secs();
    if real < 1_600_000_000 {
        return Err(format!("real clock passthrough broken: {real}"));
    }
    Ok(())
}
