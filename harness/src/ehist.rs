//! E-HIST: explicit-state breadth-first search over the real `dhcp::handle_pkt`
//! and the real SQLite lease store.
//!
//! State  = the rows of `leases` with start/expiry relative to the virtual now.
//! Step   = build a `Pool` (real `setup_db`) on a fresh in-memory SQLite holding
//!          exactly those rows, pin the wall clock, call `handle_pkt` with one
//!          message of the alphabet under one configuration of the alphabet (loaded
//!          by the real YAML loader), read the rows back with `Pool::get_leases`.
//! Every transition is an execution of the implementation; there is no model.
use crate::common::{clock, panics, report::Violation};
use erbium::dhcp::{self, dhcppkt, pool};
use rayon::prelude::*;
use serde_json::{Value, json};
use std::collections::{BTreeMap, BTreeSet, HashMap};
use std::net::Ipv4Addr;

pub const NOW0: i64 = 1_000_000_000;

#[derive(Clone, Debug, PartialEq, Eq, Hash, PartialOrd, Ord)]
pub struct Row {
    pub ip: Ipv4Addr,
    pub client: Vec<u8>,
    pub start: i64,  // relative to now
    pub expiry: i64, // relative to now
}

pub type State = Vec<Row>; // in rowid order (the order the store scans them), see read_state

pub fn state_json(s: &State) -> Value {
    Value::Array(
        s.iter()
            .map(|r| json!({"ip": r.ip.to_string(), "client": crate::common::util::hex(&r.client), "start_rel": r.start, "expiry_rel": r.expiry}))
            .collect(),
    )
}

// ---------------------------------------------------------------------------
// Alphabet
// ---------------------------------------------------------------------------

pub struct Cfg {
    pub name: &'static str,
    pub text: &'static str,
    pub conf: erbium::config::SharedConfig,
    /// Harness-side statement of which pool a (receiving address, chaddr) is served from.
    pub pool_for: fn(Ipv4Addr, &[u8]) -> Option<Vec<Ipv4Addr>>,
    pub ifaces: &'static [&'static str],
}

pub const MAC_A: [u8; 6] = [0x02, 0, 0, 0, 0, 0x0a];
pub const MAC_B: [u8; 6] = [0x02, 0, 0, 0, 0, 0x0b];
pub const IF1: &str = "192.0.2.1";
pub const IF2: &str = "198.51.100.1";
pub const IF3: &str = "203.0.113.1";

fn ip(s: &str) -> Ipv4Addr {
    s.parse().unwrap()
}

fn in1(a: Ipv4Addr) -> bool {
    a.octets()[..3] == [192, 0, 2]
}
fn in2(a: Ipv4Addr) -> bool {
    a.octets()[..3] == [198, 51, 100]
}

const K1_TEXT: &str = "---
dhcp-policies:
  - match-subnet: 192.0.2.0/24
    apply-range: {start: 192.0.2.9, end: 192.0.2.10}
";
const K2_TEXT: &str = "---
dhcp-policies:
  - match-subnet: 192.0.2.0/24
    apply-range: {start: 192.0.2.10, end: 192.0.2.11}
";
const K3_TEXT: &str = "---
dhcp-policies:
  - match-subnet: 192.0.2.0/24
    apply-range: {start: 192.0.2.9, end: 192.0.2.10}
  - match-subnet: 198.51.100.0/24
    apply-address: 198.51.100.10
";
const K4_TEXT: &str = "---
dhcp-policies:
  - match-subnet: 192.0.2.0/24
    apply-range: {start: 192.0.2.9, end: 192.0.2.10}
    policies:
      - match-hardware-address: 02:00:00:00:00:0a
        apply-address: 192.0.2.9
";
const K5_TEXT: &str = "---
dhcp-policies:
  - match-subnet: 192.0.2.0/24
    apply-address: 192.0.2.9
";

// K6/K7: K1's pool, plus a policy that tries to set the options the server itself must control
// (lease time 51, server identifier 54) -- to values out of bounds / foreign, and to null.
// erbium.conf(5) accepts apply-<any option>; the reply must still carry the pool's lease time and
// this server's identifier.
const K6_TEXT: &str = "---
dhcp-policies:
  - match-subnet: 192.0.2.0/24
    apply-range: {start: 192.0.2.9, end: 192.0.2.10}
    apply-lease-time: 7d
    apply-server-id: 203.0.113.7
";
const K7_TEXT: &str = "---
dhcp-policies:
  - match-subnet: 192.0.2.0/24
    apply-range: {start: 192.0.2.9, end: 192.0.2.10}
    policies:
      - match-hardware-address: 02:00:00:00:00:0a
        apply-lease-time: null
        apply-server-id: null
      - match-hardware-address: 02:00:00:00:00:0b
        apply-lease-time: 30s
";

// K8: a pool whose textual range encloses addresses that are not in it: every address 192.0.2.20
// to 192.0.2.29 sorts, as text, between "192.0.2.2" and "192.0.2.3".
const K8_TEXT: &str = "---
dhcp-policies:
  - match-subnet: 192.0.2.0/24
    apply-range: {start: 192.0.2.2, end: 192.0.2.3}
";
// K9: both ways of giving addresses at once -- a top-level `addresses` prefix covering the
// receiving address (its implied pool: the hosts of the prefix minus the server's own address
// minus every address a policy names) AND a written policy with its own address for one client.
// The written policy replaces the implied pool for that client, in DISCOVER and REQUEST alike.
const K9_TEXT: &str = "---
addresses: [192.0.2.0/29]
dhcp-policies:
  - match-hardware-address: 02:00:00:00:00:0a
    apply-address: 192.0.2.5
";
fn k9_pool(s: Ipv4Addr, c: &[u8]) -> Option<Vec<Ipv4Addr>> {
    if in1(s) {
        if c == MAC_A { Some(vec![ip("192.0.2.5")]) } else { Some([2u8, 3, 4, 6].iter().map(|x| Ipv4Addr::new(192, 0, 2, *x)).collect()) }
    } else {
        None
    }
}
fn k8_pool(s: Ipv4Addr, _c: &[u8]) -> Option<Vec<Ipv4Addr>> {
    if in1(s) { Some(vec![ip("192.0.2.2"), ip("192.0.2.3")]) } else { None }
}

fn k1_pool(s: Ipv4Addr, _c: &[u8]) -> Option<Vec<Ipv4Addr>> {
    if in1(s) { Some(vec![ip("192.0.2.9"), ip("192.0.2.10")]) } else { None }
}
fn k2_pool(s: Ipv4Addr, _c: &[u8]) -> Option<Vec<Ipv4Addr>> {
    if in1(s) { Some(vec![ip("192.0.2.10"), ip("192.0.2.11")]) } else { None }
}
fn k3_pool(s: Ipv4Addr, _c: &[u8]) -> Option<Vec<Ipv4Addr>> {
    if in1(s) {
        Some(vec![ip("192.0.2.9"), ip("192.0.2.10")])
    } else if in2(s) {
        Some(vec![ip("198.51.100.10")])
    } else {
        None
    }
}
fn k4_pool(s: Ipv4Addr, c: &[u8]) -> Option<Vec<Ipv4Addr>> {
    if in1(s) {
        if c == MAC_A { Some(vec![ip("192.0.2.9")]) } else { Some(vec![ip("192.0.2.10")]) }
    } else {
        None
    }
}
fn k5_pool(s: Ipv4Addr, _c: &[u8]) -> Option<Vec<Ipv4Addr>> {
    if in1(s) { Some(vec![ip("192.0.2.9")]) } else { None }
}

pub fn all_cfgs() -> Result<Vec<Cfg>, String> {
    let specs: Vec<(&'static str, &'static str, fn(Ipv4Addr, &[u8]) -> Option<Vec<Ipv4Addr>>, &'static [&'static str])> = vec![
        ("K1", K1_TEXT, k1_pool, &[IF1]),
        ("K2", K2_TEXT, k2_pool, &[IF1]),
        ("K3", K3_TEXT, k3_pool, &[IF1, IF2]),
        ("K4", K4_TEXT, k4_pool, &[IF1]),
        ("K5", K5_TEXT, k5_pool, &[IF1]),
        ("K6", K6_TEXT, k1_pool, &[IF1]),
        ("K7", K7_TEXT, k1_pool, &[IF1]),
        ("K8", K8_TEXT, k8_pool, &[IF1]),
        ("K9", K9_TEXT, k9_pool, &[IF1]),
    ];
    let mut out = vec![];
    for (name, text, pool_for, ifaces) in specs {
        let conf = erbium::config::verif_load_config_from_string(text).map_err(|e| format!("config {name} rejected by the loader: {e}"))?;
        out.push(Cfg { name, text, conf, pool_for, ifaces });
    }
    Ok(out)
}

#[derive(Clone, Debug, PartialEq, Eq, Hash)]
pub struct ClientSpec {
    pub name: &'static str,
    pub chaddr: [u8; 6],
    pub clientid: Option<&'static [u8]>,
}

pub const CLIENTS: [ClientSpec; 5] = [
    ClientSpec { name: "A", chaddr: MAC_A, clientid: None },
    ClientSpec { name: "B", chaddr: MAC_B, clientid: None },
    // Same hardware address as A but a client identifier: a different client.
    ClientSpec { name: "C", chaddr: MAC_A, clientid: Some(b"c") },
    // Two RFC 4361 identifiers (type 255, IAID, DUID) with the SAME DUID (a link-layer-plus-time
    // DUID) and different IAIDs -- two interfaces of one host, or two clones of one image: the
    // identifier option differs, so they are different clients.  (Only in the alphabet's extras.)
    ClientSpec { name: "D", chaddr: [0x02, 0, 0, 0, 0, 0x0d], clientid: Some(&[0xff, 0, 0, 0, 1, 0, 1, 0, 1, 0x2a, 0x2b, 0x2c, 0x2d, 0x02, 0, 0, 0, 0, 0x77]) },
    ClientSpec { name: "E", chaddr: [0x02, 0, 0, 0, 0, 0x0e], clientid: Some(&[0xff, 0, 0, 0, 2, 0, 1, 0, 1, 0x2a, 0x2b, 0x2c, 0x2d, 0x02, 0, 0, 0, 0, 0x77]) },
];

impl ClientSpec {
    /// Client identity as the property defines it (identifier if present else chaddr).
    pub fn identity(&self) -> Vec<u8> {
        match self.clientid {
            Some(c) => c.to_vec(),
            None => self.chaddr.to_vec(),
        }
    }
}

#[derive(Clone, Debug, PartialEq, Eq, Hash)]
pub enum Op {
    Tick(i64),
    Msg(MsgOp),
}

#[derive(Clone, Debug, PartialEq, Eq, Hash)]
pub struct MsgOp {
    pub cfg: usize,
    pub iface: Ipv4Addr,
    pub client: usize,
    pub mtype: u8, // 1 DISCOVER, 3 REQUEST, others for probes
    pub mtype_raw: Option<Vec<u8>>, // overrides option 53 bytes when set (None + mtype==0 => absent)
    pub req: Option<Ipv4Addr>,
    pub ciaddr: Option<Ipv4Addr>,
    pub serverid: Option<Vec<u8>>,
    pub xid: u32,
    pub flags: u16,
    pub giaddr: Ipv4Addr,
    /// option 51 in the request: the lease time the client would like
    pub lease_req: Option<u32>,
}

impl MsgOp {
    pub fn basic(cfg: usize, iface: Ipv4Addr, client: usize, mtype: u8) -> Self {
        MsgOp {
            cfg,
            iface,
            client,
            mtype,
            mtype_raw: None,
            req: None,
            ciaddr: None,
            serverid: None,
            xid: 0x1234_5678,
            flags: 0,
            giaddr: Ipv4Addr::UNSPECIFIED,
            lease_req: None,
        }
    }
    /// The address the message names (ciaddr wins for REQUEST, as in RFC 2131 renewals).
    pub fn named(&self) -> Option<Ipv4Addr> {
        if self.mtype == 3 {
            self.ciaddr.or(self.req)
        } else {
            self.req
        }
    }
}

pub fn op_json(op: &Op, cfgs: &[Cfg]) -> Value {
    match op {
        Op::Tick(s) => json!({"kind": "tick", "secs": s}),
        Op::Msg(m) => json!({
            "kind": "msg",
            "cfg": cfgs[m.cfg].name,
            "iface": m.iface.to_string(),
            "client": CLIENTS[m.client].name,
            "type": m.mtype,
            "type_raw": m.mtype_raw.as_ref().map(|r| crate::common::util::hex(r)),
            "req": m.req.map(|a| a.to_string()),
            "ciaddr": m.ciaddr.map(|a| a.to_string()),
            "serverid": m.serverid.as_ref().map(|r| crate::common::util::hex(r)),
            "xid": m.xid,
            "flags": m.flags,
            "giaddr": m.giaddr.to_string(),
            "lease_req": m.lease_req,
        }),
    }
}

pub fn op_from_json(v: &Value, cfgs: &[Cfg]) -> Result<Op, String> {
    match v["kind"].as_str() {
        Some("tick") => Ok(Op::Tick(v["secs"].as_i64().ok_or("secs")?)),
        Some("msg") => {
            let cfg = cfgs.iter().position(|c| Some(c.name) == v["cfg"].as_str()).ok_or("unknown cfg")?;
            let client = CLIENTS.iter().position(|c| Some(c.name) == v["client"].as_str()).ok_or("unknown client")?;
            let pa = |k: &str| -> Result<Option<Ipv4Addr>, String> {
                match v[k].as_str() {
                    None => Ok(None),
                    Some(s) => s.parse().map(Some).map_err(|e| format!("{k}: {e}")),
                }
            };
            Ok(Op::Msg(MsgOp {
                cfg,
                iface: v["iface"].as_str().ok_or("iface")?.parse().map_err(|e| format!("iface: {e}"))?,
                client,
                mtype: v["type"].as_u64().ok_or("type")? as u8,
                mtype_raw: v["type_raw"].as_str().map(crate::common::util::unhex),
                req: pa("req")?,
                ciaddr: pa("ciaddr")?,
                serverid: v["serverid"].as_str().map(crate::common::util::unhex),
                xid: v["xid"].as_u64().unwrap_or(0x1234_5678) as u32,
                flags: v["flags"].as_u64().unwrap_or(0) as u16,
                giaddr: v["giaddr"].as_str().unwrap_or("0.0.0.0").parse().map_err(|e| format!("giaddr: {e}"))?,
                lease_req: v["lease_req"].as_u64().map(|x| x as u32),
            }))
        }
        _ => Err("unknown op kind".into()),
    }
}

pub struct Alphabet {
    pub ops: Vec<Op>,
}

pub struct AlphabetSpec<'a> {
    /// also the two RFC 4361 clients (same DUID, different IAID), on the first configuration
    pub rfc4361_clients: bool,
    pub cfgs: &'a [&'a str],
    pub clients: usize,
    pub addrs: &'a [&'a str],
    pub ticks: &'a [i64],
}

pub fn build_alphabet(cfgs: &[Cfg], spec: &AlphabetSpec) -> Alphabet {
    let mut ops = vec![];
    // Simplest first: ticks last so that the first counterexample is message-only when possible.
    for (ci, cfg) in cfgs.iter().enumerate() {
        if !spec.cfgs.contains(&cfg.name) {
            continue;
        }
        for iface in cfg.ifaces {
            let iface = ip(iface);
            for client in 0..spec.clients {
                // DISCOVER
                ops.push(Op::Msg(MsgOp::basic(ci, iface, client, 1)));
                for a in spec.addrs {
                    let mut m = MsgOp::basic(ci, iface, client, 1);
                    m.req = Some(ip(a));
                    ops.push(Op::Msg(m));
                }
                // REQUEST
                ops.push(Op::Msg(MsgOp::basic(ci, iface, client, 3)));
                for a in spec.addrs {
                    let mut m = MsgOp::basic(ci, iface, client, 3);
                    m.req = Some(ip(a));
                    ops.push(Op::Msg(m));
                    let mut m = MsgOp::basic(ci, iface, client, 3);
                    m.ciaddr = Some(ip(a));
                    ops.push(Op::Msg(m));
                }
            }
        }
    }
    // Extras, on the first configuration of the spec only (they multiply nothing else):
    //  - the client asks for a lease time itself (option 51): below the minimum, inside, above the maximum
    //  - a REQUEST that selects ANOTHER server (foreign server identifier) and names an address:
    //    it must have no effect at all, also not on the lease somebody else holds on that address
    if let Some((ci, cfg)) = cfgs.iter().enumerate().find(|(_, c)| spec.cfgs.contains(&c.name)) {
        let iface = ip(cfg.ifaces[0]);
        for client in 0..spec.clients {
            for l in [1u32, 120, 299, 200_000] {
                for mt in [1u8, 3] {
                    let mut m = MsgOp::basic(ci, iface, client, mt);
                    m.lease_req = Some(l);
                    ops.push(Op::Msg(m));
                }
            }
            for a in spec.addrs.iter().take(2) {
                let mut m = MsgOp::basic(ci, iface, client, 3);
                m.req = Some(ip(a));
                m.serverid = Some(vec![10, 0, 0, 1]);
                ops.push(Op::Msg(m));
                // a REQUEST that selects THIS server (server identifier = the receiving address):
                // the SELECTING form (option 50) and a renewal that carries the identifier as well
                // (ciaddr set; some clients send it): both name an address
                let mut m = MsgOp::basic(ci, iface, client, 3);
                m.req = Some(ip(a));
                m.serverid = Some(iface.octets().to_vec());
                ops.push(Op::Msg(m));
                let mut m = MsgOp::basic(ci, iface, client, 3);
                m.ciaddr = Some(ip(a));
                m.serverid = Some(iface.octets().to_vec());
                ops.push(Op::Msg(m));
            }
        }
    }
    // the two RFC 4361 clients (same DUID, different IAID), on the first configuration
    if let Some((ci, cfg)) = cfgs.iter().enumerate().find(|(_, c)| spec.rfc4361_clients && spec.cfgs.contains(&c.name)) {
        let iface = ip(cfg.ifaces[0]);
        for client in 3..CLIENTS.len() {
            ops.push(Op::Msg(MsgOp::basic(ci, iface, client, 1)));
            ops.push(Op::Msg(MsgOp::basic(ci, iface, client, 3)));
            if let Some(a) = spec.addrs.first() {
                let mut m = MsgOp::basic(ci, iface, client, 1);
                m.req = Some(ip(a));
                ops.push(Op::Msg(m));
            }
        }
    }
    for t in spec.ticks {
        ops.push(Op::Tick(*t));
    }
    Alphabet { ops }
}

// ---------------------------------------------------------------------------
// One real step
// ---------------------------------------------------------------------------

#[derive(Clone, Debug)]
pub struct ReplyObs {
    pub yiaddr: Ipv4Addr,
    pub op_is_reply: bool,
    pub xid: u32,
    pub flags: u16,
    pub giaddr: Ipv4Addr,
    pub ciaddr: Ipv4Addr,
    pub chaddr: Vec<u8>,
    pub options: BTreeMap<u8, Vec<u8>>,
}

#[derive(Clone, Debug)]
pub enum StepResult {
    Reply(ReplyObs),
    Error(String),
    Panic(String, String),
}

pub fn build_request(m: &MsgOp) -> dhcp::DHCPRequest {
    let c = &CLIENTS[m.client];
    let mut other: HashMap<dhcppkt::DhcpOption, Vec<u8>> = HashMap::new();
    match &m.mtype_raw {
        Some(raw) => {
            other.insert(dhcppkt::OPTION_MSGTYPE, raw.clone());
        }
        None => {
            if m.mtype != 0 {
                other.insert(dhcppkt::OPTION_MSGTYPE, vec![m.mtype]);
            }
        }
    }
    if let Some(a) = m.req {
        other.insert(dhcppkt::OPTION_ADDRESSREQUEST, a.octets().to_vec());
    }
    if let Some(id) = c.clientid {
        other.insert(dhcppkt::OPTION_CLIENTID, id.to_vec());
    }
    if let Some(s) = &m.serverid {
        other.insert(dhcppkt::OPTION_SERVERID, s.clone());
    }
    if let Some(l) = m.lease_req {
        other.insert(dhcppkt::OPTION_LEASETIME, l.to_be_bytes().to_vec());
    }
    other.insert(dhcppkt::OPTION_PARAMLIST, vec![1, 3, 6, 51, 54]);
    dhcp::DHCPRequest {
        pkt: dhcppkt::Dhcp {
            op: dhcppkt::OP_BOOTREQUEST,
            htype: dhcppkt::HWTYPE_ETHERNET,
            hlen: 6,
            hops: 0,
            xid: m.xid,
            secs: 0,
            flags: m.flags,
            ciaddr: m.ciaddr.unwrap_or(Ipv4Addr::UNSPECIFIED),
            yiaddr: Ipv4Addr::UNSPECIFIED,
            siaddr: Ipv4Addr::UNSPECIFIED,
            giaddr: m.giaddr,
            chaddr: c.chaddr.to_vec(),
            sname: vec![],
            file: vec![],
            options: dhcppkt::DhcpOptions { other },
        },
        serverip: m.iface,
        ifindex: 1,
        if_mtu: None,
        if_router: None,
    }
}

const SCHEMA_V1: &str = "CREATE TABLE leases (
  address TEXT NOT NULL, chaddr BLOB, clientid BLOB,
  start INTEGER NOT NULL, expiry INTEGER NOT NULL, options BLOB,
  PRIMARY KEY (address));
 CREATE TABLE schema_version (key TEXT NOT NULL, version INTEGER NOT NULL, PRIMARY KEY (key));
 INSERT INTO schema_version (key, version) VALUES ('pool', 1);";

/// The lease store of the previous release (schema version 0: no options column, no version table).
const SCHEMA_V0: &str = "CREATE TABLE leases (address TEXT NOT NULL, chaddr BLOB, clientid BLOB, start INTEGER NOT NULL, expiry INTEGER NOT NULL, PRIMARY KEY (address));";

/// The schema exactly as the code under test creates it on a fresh store: a real Pool is opened
/// once on an empty scratch file, and the SQL text of every object it created (sqlite_master) plus
/// the rows of its version table are read back.  Every store the search builds is created from
/// this text, so a store "holding exactly these rows" is the store the real code would have made,
/// not the harness's idea of it.  Falls back to the harness's copy of the schema when the real
/// set-up fails (that failure is C18's subject, not this engine's).
fn real_schema() -> &'static str {
    static T: std::sync::OnceLock<String> = std::sync::OnceLock::new();
    T.get_or_init(|| {
        let path = format!("/dev/shm/erbium-verif-schema-{}.sqlite", std::process::id());
        let _ = std::fs::remove_file(&path);
        let made = (|| -> Result<String, String> {
            let conn = pool::rusqlite::Connection::open(&path).map_err(|e| e.to_string())?;
            let p = pool::Pool::verif_with_conn(conn).map_err(|e| e.to_string())?;
            drop(p);
            let conn = pool::rusqlite::Connection::open(&path).map_err(|e| e.to_string())?;
            let mut sql = String::new();
            {
                let mut st = conn.prepare("SELECT sql FROM sqlite_master WHERE sql IS NOT NULL ORDER BY rowid").map_err(|e| e.to_string())?;
                let rows = st.query_map([], |r| r.get::<_, String>(0)).map_err(|e| e.to_string())?;
                for r in rows {
                    sql.push_str(&r.map_err(|e| e.to_string())?);
                    sql.push_str(";\n");
                }
                let mut st = conn.prepare("SELECT key, version FROM schema_version").map_err(|e| e.to_string())?;
                let rows = st.query_map([], |r| Ok((r.get::<_, String>(0)?, r.get::<_, i64>(1)?))).map_err(|e| e.to_string())?;
                for r in rows {
                    let (k, v) = r.map_err(|e| e.to_string())?;
                    sql.push_str(&format!("INSERT INTO schema_version (key, version) VALUES ('{}', {v});\n", k.replace('\'', "''")));
                }
            }
            Ok(sql)
        })();
        for suffix in ["", "-journal", "-wal", "-shm"] {
            let _ = std::fs::remove_file(format!("{path}{suffix}"));
        }
        match made {
            Ok(sql) if sql.contains("leases") => sql,
            _ => SCHEMA_V1.to_string(),
        }
    })
}

pub fn real_schema_is_harness_copy() -> bool {
    // statement by statement, ignoring white space, letter case and the order of the statements
    let norm = |s: &str| {
        let mut v: Vec<String> = s
            .split(';')
            .map(|st| st.split_whitespace().collect::<Vec<_>>().join(" ").replace("( ", "(").replace(" )", ")").to_lowercase())
            .filter(|st| !st.is_empty())
            .collect();
        v.sort();
        v
    };
    norm(real_schema()) == norm(SCHEMA_V1)
}

fn insert_rows(conn: &pool::rusqlite::Connection, state: &State, now: i64, with_options: bool) -> Result<(), String> {
    let sql = if with_options {
        "INSERT INTO leases (address, clientid, start, expiry, options) VALUES (?1, ?2, ?3, ?4, x'ff')"
    } else {
        "INSERT INTO leases (address, clientid, start, expiry) VALUES (?1, ?2, ?3, ?4)"
    };
    let mut st = conn.prepare(sql).map_err(|e| e.to_string())?;
    for r in state {
        st.execute(pool::rusqlite::params![r.ip.to_string(), r.client, now + r.start, now + r.expiry]).map_err(|e| e.to_string())?;
    }
    Ok(())
}

/// Build a real Pool whose table holds exactly `state` (absolute times = now + rel).
pub fn pool_from_state(state: &State, now: i64) -> Result<pool::Pool, String> {
    let conn = pool::rusqlite::Connection::open_in_memory().map_err(|e| e.to_string())?;
    conn.execute_batch(real_schema()).map_err(|e| e.to_string())?;
    insert_rows(&conn, state, now, true)?;
    pool::Pool::verif_with_conn(conn).map_err(|e| e.to_string())
}

/// The same rows in a store written by the previous release, opened (and thereby upgraded) by the
/// code under test.
pub fn pool_from_state_v0(state: &State, now: i64) -> Result<pool::Pool, String> {
    let conn = pool::rusqlite::Connection::open_in_memory().map_err(|e| e.to_string())?;
    conn.execute_batch(SCHEMA_V0).map_err(|e| e.to_string())?;
    insert_rows(&conn, state, now, false)?;
    pool::Pool::verif_with_conn(conn).map_err(|e| e.to_string())
}

pub fn read_state(p: &mut pool::Pool, now: i64) -> Result<State, String> {
    let mut rows: State = p
        .get_leases()
        .map_err(|e| e.to_string())?
        .into_iter()
        .map(|l| Row { ip: l.ip, client: l.client_id, start: l.start as i64 - now, expiry: l.expire as i64 - now })
        .collect();
    // NOT sorted: get_leases scans the table in rowid order, and that order is part of the state.
    // select_address ranks a client's leases by (is-the-named-one, expiry) and leaves ties to the
    // scan order, so two stores with the same rows in a different physical order can answer
    // differently; a restart preserves the order, and so must the state (INSERT OR REPLACE gives
    // the row a new, highest rowid, so the order is "least recently written first";
    // pool_from_state inserts in this order and thereby reproduces it).
    let _ = &mut rows;
    Ok(rows)
}

pub fn server_ids() -> std::collections::HashSet<Ipv4Addr> {
    [ip(IF1), ip(IF2)].into_iter().collect()
}

/// Execute one message on a given pool (virtual clock must already be pinned).
pub fn run_msg(p: &mut pool::Pool, m: &MsgOp, cfgs: &[Cfg]) -> StepResult {
    let req = build_request(m);
    let guard = match cfgs[m.cfg].conf.try_read() {
        Ok(g) => g,
        Err(_) => return StepResult::Panic("config lock unavailable".into(), "harness".into()),
    };
    let ids = server_ids();
    match panics::catch(|| dhcp::handle_pkt(p, &req, ids, &guard)) {
        Err(pi) => StepResult::Panic(pi.msg, panics::short_loc(&pi.loc)),
        Ok(Err(e)) => StepResult::Error(format!("{:?}", e)),
        Ok(Ok(r)) => StepResult::Reply(ReplyObs {
            yiaddr: r.yiaddr,
            op_is_reply: r.op == dhcppkt::OP_BOOTREPLY,
            xid: r.xid,
            flags: r.flags,
            giaddr: r.giaddr,
            ciaddr: r.ciaddr,
            chaddr: r.chaddr.clone(),
            options: r
                .options
                .other
                .iter()
                .map(|(k, v)| {
                    let mut b = vec![];
                    use dhcppkt::Serialise as _;
                    k.serialise(&mut b);
                    (b[0], v.clone())
                })
                .collect(),
        }),
    }
}

/// One exact-state transition on a fresh store.
pub fn step(state: &State, op: &Op, cfgs: &[Cfg]) -> Result<(StepResult, State), String> {
    match op {
        Op::Tick(dt) => Ok((
            StepResult::Error("tick".into()),
            state.iter().map(|r| Row { start: r.start - dt, expiry: r.expiry - dt, ..r.clone() }).collect(),
        )),
        Op::Msg(m) => {
            clock::set_secs(NOW0 as u64);
            let mut p = pool_from_state(state, NOW0)?;
            let res = run_msg(&mut p, m, cfgs);
            let post = read_state(&mut p, NOW0)?;
            Ok((res, post))
        }
    }
}

/// One transition with an environment fault: the lease file is locked by somebody else (another
/// process holding a write transaction: a backup, an sqlite3 shell) for the whole of the message.
/// File-backed store in /dev/shm, busy time-out zero so that SQLITE_BUSY is returned at once
/// instead of after real seconds.  `exclusive` also blocks the reads.
pub fn step_busy(state: &State, m: &MsgOp, cfgs: &[Cfg], exclusive: bool) -> Result<(StepResult, State), String> {
    step_busy_reopen(state, m, cfgs, exclusive).map(|(r, post, _)| (r, post))
}

/// The same, and additionally what a server restarted afterwards finds in the file.
pub fn step_busy_reopen(state: &State, m: &MsgOp, cfgs: &[Cfg], exclusive: bool) -> Result<(StepResult, State, State), String> {
    use pool::rusqlite::Connection;
    clock::set_secs(NOW0 as u64);
    let path = format!("/dev/shm/erbium-verif-busy-{}-{}.sqlite", std::process::id(), unsafe { libc::gettid() });
    let cleanup = |path: &str| {
        for suffix in ["", "-journal", "-wal", "-shm"] {
            let _ = std::fs::remove_file(format!("{path}{suffix}"));
        }
    };
    cleanup(&path);
    let r = (|| -> Result<(StepResult, State, State), String> {
        {
            let conn = Connection::open(&path).map_err(|e| e.to_string())?;
            conn.execute_batch(real_schema()).map_err(|e| e.to_string())?;
            insert_rows(&conn, state, NOW0, true)?;
        }
        let conn = Connection::open(&path).map_err(|e| e.to_string())?;
        conn.busy_timeout(std::time::Duration::ZERO).map_err(|e| e.to_string())?;
        let mut p = pool::Pool::verif_with_conn(conn).map_err(|e| e.to_string())?;
        let blocker = Connection::open(&path).map_err(|e| e.to_string())?;
        blocker.execute_batch(if exclusive { "BEGIN EXCLUSIVE" } else { "BEGIN IMMEDIATE" }).map_err(|e| format!("blocker: {e}"))?;
        let res = run_msg(&mut p, m, cfgs);
        blocker.execute_batch("ROLLBACK").map_err(|e| format!("blocker: {e}"))?;
        drop(blocker);
        let post = read_state(&mut p, NOW0)?;
        drop(p);
        let conn = Connection::open(&path).map_err(|e| e.to_string())?;
        let mut p2 = pool::Pool::verif_with_conn(conn).map_err(|e| format!("reopen: {e}"))?;
        let post2 = read_state(&mut p2, NOW0)?;
        Ok((res, post, post2))
    })();
    cleanup(&path);
    r
}

/// Oracles that hold under a store fault: everything that constrains a reply that WAS sent and
/// the store it left behind.  Refusing service while the store is unusable is not judged.
pub fn judge_under_fault(pre: &State, m: &MsgOp, res: &StepResult, post: &State, cfgs: &[Cfg]) -> Vec<Judged> {
    judge(pre, m, res, post, cfgs).into_iter().filter(|jd| jd.oracle != "holder-refused" && jd.oracle != "refused-with-free-address").collect()
}

// ---------------------------------------------------------------------------
// Oracles (pre-state, op, result, post-state) -> violations, tagged by property
// ---------------------------------------------------------------------------

fn find<'a>(s: &'a State, a: Ipv4Addr) -> Option<&'a Row> {
    s.iter().find(|r| r.ip == a)
}

pub struct Judged {
    pub property: &'static str,
    pub oracle: &'static str,
    pub what: String,
    pub sig: Vec<(&'static str, String)>,
}

fn j(property: &'static str, oracle: &'static str, what: String) -> Judged {
    Judged { property, oracle, what, sig: vec![] }
}

pub const MIN_LEASE: i64 = 300;
pub const MAX_LEASE: i64 = 86400;

/// All transition-local oracles of C01, C09, C10, C13.  `now` is 0 in relative time.
pub fn judge(pre: &State, m: &MsgOp, res: &StepResult, post: &State, cfgs: &[Cfg]) -> Vec<Judged> {
    let mut out = vec![];
    let c = &CLIENTS[m.client];
    let me = c.identity();
    let pool = (cfgs[m.cfg].pool_for)(m.iface, &c.chaddr);
    let is_disc = m.mtype_raw.is_none() && m.mtype == 1;
    let is_req = m.mtype_raw.is_none() && m.mtype == 3;
    let sid_ok = match &m.serverid {
        None => true,
        Some(raw) => raw.len() == 4 && server_ids().contains(&Ipv4Addr::new(raw[0], raw[1], raw[2], raw[3])),
    };
    // A server-id option that does not decode as an address is "names no server" for the code;
    // the statement does not say how to treat it: don't-care.
    let sid_malformed = matches!(&m.serverid, Some(raw) if raw.len() != 4);
    match res {
        StepResult::Panic(msg, loc) => {
            // Panics are owned by C05/C19; here they only prevent the observation.
            let mut jd = j("C13", "handler-panic", format!("handle_pkt panicked: {msg} at {loc}"));
            jd.sig.push(("loc", loc.clone()));
            out.push(jd);
        }
        StepResult::Error(e) => {
            if post != pre {
                out.push(j("C13", "no-reply-state-unchanged", format!("no reply ({e}) but the lease store changed")));
            }
            // C09: a client holding an unexpired lease inside its pool must be served.
            if (is_disc || (is_req && sid_ok)) && !sid_malformed {
                if let Some(p) = &pool {
                    let held: Vec<Ipv4Addr> =
                        p.iter().copied().filter(|x| find(pre, *x).map(|r| r.client == me && r.expiry > 0).unwrap_or(false)).collect();
                    if !held.is_empty() {
                        let mut jd = j(
                            "C09",
                            "holder-refused",
                            format!("client {} holds unexpired {:?} inside its pool {:?} but got no reply ({e})", c.name, held, p),
                        );
                        jd.sig.push(("error", e.clone()));
                        out.push(jd);
                    } else if e.contains("NoAssignableAddress") {
                        // refused for lack of addresses only when every pool address is held by someone else
                        let free: Vec<Ipv4Addr> = p
                            .iter()
                            .copied()
                            .filter(|x| match find(pre, *x) {
                                None => true,
                                Some(r) => r.client == me || r.expiry < 0,
                            })
                            .collect();
                        if !free.is_empty() {
                            out.push(j(
                                "C09",
                                "refused-with-free-address",
                                format!("client {} refused (no address) although {:?} of pool {:?} is not held by another client", c.name, free, p),
                            ));
                        }
                    }
                }
            }
        }
        StepResult::Reply(r) => {
            let x = r.yiaddr;
            // ---- C13: only DISCOVER / REQUEST-for-us are answered
            if !(is_disc || is_req) {
                out.push(j("C13", "reply-to-other-type", format!("message type {:?}/{:?} was answered", m.mtype, m.mtype_raw)));
            }
            if is_req && !sid_ok && !sid_malformed {
                out.push(j("C13", "reply-to-other-server", format!("REQUEST naming server {:?} was answered", m.serverid)));
            }
            if pool.is_none() {
                out.push(j("C13", "reply-without-pool", "request matching no configured pool was answered".into()));
            }
            if r.xid != m.xid || r.flags != m.flags || r.giaddr != m.giaddr || r.chaddr != c.chaddr {
                out.push(j(
                    "C13",
                    "echo-fields",
                    format!("reply xid/flags/giaddr/chaddr = {:#x}/{:#x}/{}/{:02x?}, request had {:#x}/{:#x}/{}/{:02x?}", r.xid, r.flags, r.giaddr, r.chaddr, m.xid, m.flags, m.giaddr, c.chaddr),
                ));
            }
            if !r.op_is_reply {
                out.push(j("C13", "op-bootreply", "reply op is not BOOTREPLY".into()));
            }
            match r.options.get(&54) {
                Some(v) if v.len() == 4 => {
                    let a = Ipv4Addr::new(v[0], v[1], v[2], v[3]);
                    if a != m.iface && !server_ids().contains(&a) {
                        out.push(j("C13", "server-id", format!("reply server identifier {a} does not name this server")));
                    }
                }
                other => out.push(j("C13", "server-id", format!("reply server identifier missing/malformed: {:?}", other))),
            }
            let want_type = if is_disc { 2 } else { 5 };
            if (is_disc || is_req) && r.options.get(&53) != Some(&vec![want_type]) {
                out.push(j("C13", "reply-type", format!("reply message type {:?}, expected {}", r.options.get(&53), want_type)));
            }
            // rows other than yiaddr untouched
            for row in pre {
                if row.ip != x && find(post, row.ip) != Some(row) {
                    out.push(j("C13", "other-row-touched", format!("reply assigned {x} but row {} changed/vanished", row.ip)));
                }
            }
            for row in post {
                if row.ip != x && find(pre, row.ip).is_none() {
                    out.push(j("C13", "other-row-touched", format!("reply assigned {x} but row {} appeared", row.ip)));
                }
            }
            // ---- C01: never lease an address held by a different client
            // (a store may hold several rows for one address if its key is broken: look at all of them)
            if !post.iter().any(|pr| pr.ip == x && pr.client == me) {
                out.push(j("C01", "post-row-owner", format!("reply gave {x} to {} but the stored row is {:?}", c.name, find(post, x))));
            }
            if let Some(prev) = pre.iter().find(|r| r.ip == x && r.client != me && r.expiry > 0) {
                {
                    out.push(j(
                        "C01",
                        "double-lease",
                        format!("{x} is held by client {} for another {}s but was handed to {}", crate::common::util::hex(&prev.client), prev.expiry, c.name),
                    ));
                }
            }
            // ---- C02-lite: address must come from the pool this client is served from
            if let Some(p) = &pool {
                if !p.contains(&x) {
                    out.push(j("C02", "outside-pool", format!("yiaddr {x} is not in the pool {:?} configured for this client", p)));
                }
            }
            // ---- C09: keep your address
            if let Some(p) = &pool {
                let held: Vec<Ipv4Addr> =
                    p.iter().copied().filter(|a| find(pre, *a).map(|r| r.client == me && r.expiry > 0).unwrap_or(false)).collect();
                if !held.is_empty() {
                    if !held.contains(&x) {
                        out.push(j(
                            "C09",
                            "lost-address",
                            format!("client {} holds unexpired {:?} in pool {:?} but was given {x}", c.name, held, p),
                        ));
                    } else if let Some(n) = m.named() {
                        if held.contains(&n) && x != n {
                            out.push(j("C09", "named-held-address", format!("client {} named {n}, which it holds, but was given {x}", c.name)));
                        }
                    }
                }
            }
            // ---- C10: lease time bounded and consistent with the record
            match r.options.get(&51) {
                Some(v) if v.len() == 4 => {
                    let l = u32::from_be_bytes([v[0], v[1], v[2], v[3]]) as i64;
                    if !(MIN_LEASE..=MAX_LEASE).contains(&l) {
                        out.push(j("C10", "lease-bounds", format!("advertised lease {l}s outside [{MIN_LEASE},{MAX_LEASE}]")));
                    }
                    if !post.iter().any(|pr| pr.ip == x && pr.client == me) {
                        out.push(j("C10", "record-missing", format!("{} of {x} for {l}s, but the server has no record of that lease", if is_disc { "OFFER" } else { "ACK" })));
                    }
                    if let Some(pr) = find(post, x) {
                        if pr.start != 0 {
                            out.push(j("C10", "record-start", format!("recorded start is now{:+}s, expected now", pr.start)));
                        }
                        if pr.expiry - pr.start != l {
                            out.push(j("C10", "record-length", format!("recorded expiry-start = {} but advertised {l}", pr.expiry - pr.start)));
                        }
                        if pr.expiry < l {
                            out.push(j("C10", "record-expires-early", format!("record expires in {}s, lease advertised {l}s", pr.expiry)));
                        }
                    }
                }
                other => {
                    let mut jd = j(
                        "C10",
                        "lease-time-missing",
                        format!("{} carries no 4-octet IP-address-lease-time (option 51 = {:?})", if is_disc { "OFFER" } else { "ACK" }, other),
                    );
                    jd.sig.push(("reply", if is_disc { "OFFER".into() } else { "ACK".into() }));
                    out.push(jd);
                    // the record must still be sane
                    if let Some(pr) = find(post, x) {
                        let l = pr.expiry - pr.start;
                        if pr.start != 0 || !(MIN_LEASE..=MAX_LEASE).contains(&l) {
                            out.push(j("C10", "record-bounds", format!("recorded lease start now{:+}s length {l}s", pr.start)));
                        }
                    }
                }
            }
        }
    }
    out
}

// ---------------------------------------------------------------------------
// What the clients were told
// ---------------------------------------------------------------------------
// The oracles above read the lease store as the record of who holds what.  That is only as good as
// the store: C01 and C09 are statements about what clients were *told* (offered, acknowledged).
// `told_after` keeps that record independently -- the store as it would be if every reply were
// recorded exactly as sent.  On correct code it equals the store after every transition (that is
// what post-row-owner and the record-* oracles check).  Where it does not, the search follows the
// consequences: it continues for a few more steps from the real (diverged) store and judges the
// reply-level clauses against what the clients were told.

const TOLD_ORACLES: [&str; 5] = ["double-lease", "holder-refused", "refused-with-free-address", "lost-address", "named-held-address"];

pub fn told_after(pre_told: &State, m: &MsgOp, res: &StepResult) -> State {
    let mut t = pre_told.clone();
    if let StepResult::Reply(r) = res {
        let l = match r.options.get(&51) {
            Some(v) if v.len() == 4 => u32::from_be_bytes([v[0], v[1], v[2], v[3]]) as i64,
            _ => MIN_LEASE,
        };
        t.retain(|row| row.ip != r.yiaddr);
        t.push(Row { ip: r.yiaddr, client: CLIENTS[m.client].identity(), start: 0, expiry: l });
        t.sort();
    }
    t
}

/// who holds what, without the start column and without expired entries
fn holdings(s: &State) -> Vec<(Ipv4Addr, Vec<u8>, i64)> {
    let mut h: Vec<_> = s.iter().filter(|r| r.expiry > 0).map(|r| (r.ip, r.client.clone(), r.expiry)).collect();
    h.sort();
    h
}

fn shift(s: &State, dt: i64) -> State {
    s.iter().map(|r| Row { start: r.start - dt, expiry: r.expiry - dt, ..r.clone() }).collect()
}

/// Judge the reply-level clauses of C01/C09 against what the clients were told.
pub fn judge_told(told: &State, m: &MsgOp, res: &StepResult, post: &State, cfgs: &[Cfg]) -> Vec<Judged> {
    judge(told, m, res, post, cfgs)
        .into_iter()
        .filter(|jd| TOLD_ORACLES.contains(&jd.oracle))
        .map(|mut jd| {
            jd.what = format!("judged against what the clients were told (the store no longer records it): {}", jd.what);
            jd.sig.push(("basis", "told".into()));
            jd
        })
        .collect()
}

/// From a transition after which store and told-record differ, every continuation of <= `depth`
/// operations; returns (steps executed, findings as (ops appended, judged)).
pub fn consequences(real: &State, told: &State, cfgs: &[Cfg], alpha: &Alphabet, depth: u32) -> Result<(u64, Vec<(Vec<u32>, Judged)>), String> {
    let mut out = vec![];
    let mut n = 0u64;
    let mut stack: Vec<(State, State, Vec<u32>)> = vec![(real.clone(), told.clone(), vec![])];
    while let Some((real, told, path)) = stack.pop() {
        for (oi, op) in alpha.ops.iter().enumerate() {
            let (res, post) = step(&real, op, cfgs)?;
            n += 1;
            let mut p2 = path.clone();
            p2.push(oi as u32);
            let told2 = match op {
                Op::Tick(dt) => shift(&told, *dt),
                Op::Msg(m) => {
                    for jd in judge_told(&told, m, &res, &post, cfgs) {
                        if out.len() < 64 {
                            out.push((p2.clone(), jd));
                        }
                    }
                    told_after(&told, m, &res)
                }
            };
            if (p2.len() as u32) < depth {
                stack.push((post, told2, p2));
            }
        }
    }
    Ok((n, out))
}

// ---------------------------------------------------------------------------
// BFS
// ---------------------------------------------------------------------------

pub struct BfsStats {
    pub states: u64,
    pub transitions: u64,
    pub depth_completed: u32,
    pub capped: bool,
    pub outcome_classes: BTreeMap<String, u64>,
    pub states_per_depth: Vec<u64>,
    pub samples: Vec<Value>,
    /// states in BFS order with their depth, for users that probe reachable states
    pub reached: Vec<(State, u32)>,
    pub parents: Vec<(u32, u32)>,
    /// transitions after which the store differed from what the clients were told, and the steps
    /// spent following their consequences
    pub diverged_total: u64,
    pub consequence_steps: u64,
}

pub struct Found {
    pub property: &'static str,
    pub v: Violation,
}

fn key_of(s: &State) -> Vec<u8> {
    let mut k = Vec::with_capacity(s.len() * 32);
    for r in s {
        k.extend_from_slice(&r.ip.octets());
        k.push(r.client.len() as u8);
        k.extend_from_slice(&r.client);
        k.extend_from_slice(&r.start.to_le_bytes());
        k.extend_from_slice(&r.expiry.to_le_bytes());
    }
    k
}

fn outcome_class(m: &MsgOp, res: &StepResult, pre: &State, post: &State) -> String {
    let kind = match (m.mtype, &m.req, &m.ciaddr) {
        (1, None, _) => "DISCOVER",
        (1, Some(_), _) => "DISCOVER+req",
        (3, _, Some(_)) => "REQUEST+ciaddr",
        (3, Some(_), None) => "REQUEST+opt50",
        (3, None, None) => "REQUEST",
        _ => "other",
    };
    let out = match res {
        StepResult::Reply(r) => {
            let before = find(pre, r.yiaddr);
            let how = match before {
                None => "fresh-address",
                Some(b) if b.client == CLIENTS[m.client].identity() && b.expiry > 0 => "renew-own",
                Some(b) if b.client == CLIENTS[m.client].identity() => "revive-own-expired",
                Some(_) => "take-over-expired",
            };
            let named = match m.named() {
                Some(n) if n == r.yiaddr => "named-granted",
                Some(_) => "named-denied",
                None => "unnamed",
            };
            format!("reply/{how}/{named}")
        }
        StepResult::Error(e) => {
            let e = e.split('(').next().unwrap_or(e);
            format!("error/{e}")
        }
        StepResult::Panic(..) => "panic".into(),
    };
    let _ = post;
    format!("{kind}:{out}")
}

/// Path of operation indices from the root this state descends from (roots are their own parents).
pub fn path_to(parents: &[(u32, u32)], mut id: u32) -> Vec<u32> {
    let mut ops = vec![];
    while parents[id as usize].0 != id {
        let (p, o) = parents[id as usize];
        ops.push(o);
        id = p;
    }
    ops.reverse();
    ops
}

pub fn case_json(path_ops: &[&Op], cfgs: &[Cfg]) -> Value {
    case_json_from(&vec![], path_ops, cfgs)
}

pub fn case_json_from(initial: &State, path_ops: &[&Op], cfgs: &[Cfg]) -> Value {
    json!({"engine": "ehist", "initial_state": state_json(initial), "ops": path_ops.iter().map(|o| op_json(o, cfgs)).collect::<Vec<_>>()})
}

/// Level-synchronous parallel BFS from the empty store.
pub fn root_of(parents: &[(u32, u32)], mut id: u32) -> u32 {
    while parents[id as usize].0 != id {
        id = parents[id as usize].0;
    }
    id
}

/// Stores that long histories reach (a lease grown to the 24 h cap by repeated renewals, an old
/// long lease that has expired, ...).  The search starts from the empty store *and* from these:
/// most defects do not manifest from the initial state, and growing a lease to its cap takes more
/// steps than the depth bound allows.  Each satisfies the invariants C10 itself states
/// (300 <= expiry - start <= 86400).
pub fn deep_roots() -> Vec<State> {
    let a = MAC_A.to_vec();
    let b = MAC_B.to_vec();
    let r = |ipa: &str, c: &Vec<u8>, start: i64, len: i64| Row { ip: ip(ipa), client: c.clone(), start, expiry: start + len };
    vec![
        vec![],
        vec![r("192.0.2.9", &a, -40_000, 86_400)],
        vec![r("192.0.2.9", &a, -100_000, 86_400)],
        vec![r("192.0.2.9", &a, -30_000, 86_400), r("192.0.2.10", &b, -100, 300)],
        vec![r("192.0.2.10", &a, -50_000, 60_000), r("192.0.2.9", &b, -90_000, 86_400)],
        // a holder whose identity is the empty byte string (zero-length client identifier), and one
        // with a 255-octet identity
        vec![r("192.0.2.9", &vec![], -100, 400), r("192.0.2.11", &vec![0x7a; 255], -100, 400)],
        // a client that holds many leases at once (it roamed through several pools): its lease in the
        // pools of the alphabet expires FIRST, five others later
        vec![
            r("192.0.2.9", &a, -100, 400),
            r("192.0.2.40", &a, -100, 1000),
            r("192.0.2.41", &a, -100, 1100),
            r("192.0.2.42", &a, -100, 1200),
            r("192.0.2.43", &a, -100, 1300),
            r("192.0.2.44", &a, -100, 1400),
        ],
        // two clients outside the alphabet hold addresses that lie outside every pool of the
        // alphabet but, as text, inside the range of K8's pool
        vec![r("192.0.2.20", &vec![0xee; 6], -100, 400), r("192.0.2.21", &vec![0xef; 6], -100, 400)],
        // very old rows: leases that ran out five weeks and fourteen months ago (inside a pool of the
        // alphabet, and outside every pool); nothing but a new lease on the same address may touch them
        vec![r("192.0.2.10", &b, -3_100_000, 86_400), r("192.0.2.21", &vec![0xef; 6], -37_000_000, 3_600), r("192.0.2.11", &a, -34_000_000, 300)],
    ]
}

pub fn bfs(cfgs: &[Cfg], alpha: &Alphabet, max_depth: u32, budget_s: f64, state_cap: usize, keep_reached_depth: u32) -> Result<(BfsStats, Vec<Found>), String> {
    bfs_from(cfgs, alpha, &[vec![]], max_depth, budget_s, state_cap, keep_reached_depth)
}

pub fn bfs_from(cfgs: &[Cfg], alpha: &Alphabet, roots: &[State], max_depth: u32, budget_s: f64, state_cap: usize, keep_reached_depth: u32) -> Result<(BfsStats, Vec<Found>), String> {
    let t0 = std::time::Instant::now();
    let mut states: Vec<State> = vec![];
    let mut depth_of: Vec<u32> = vec![];
    let mut parents: Vec<(u32, u32)> = vec![];
    let mut index: HashMap<Vec<u8>, u32> = HashMap::new();
    let mut frontier: Vec<u32> = vec![];
    // The first root (the empty store) is explored to the full depth; the others -- stores that
    // long histories reach -- enter the search one level later (as if reached by one operation),
    // so they are explored to max_depth - 1.  The last level dominates the cost.
    let mut late_roots: Vec<u32> = vec![];
    for (ri, r) in roots.iter().enumerate() {
        let r = r.clone();
        let k = key_of(&r);
        if index.contains_key(&k) {
            continue;
        }
        let id = states.len() as u32;
        index.insert(k, id);
        states.push(r);
        depth_of.push(if ri == 0 { 0 } else { 1 });
        parents.push((id, 0));
        if ri == 0 {
            frontier.push(id);
        } else {
            late_roots.push(id);
        }
    }
    let mut transitions = 0u64;
    let mut outcome_classes: BTreeMap<String, u64> = BTreeMap::new();
    let mut found: Vec<Found> = vec![];
    let mut found_keys: BTreeSet<String> = BTreeSet::new();
    let mut samples: Vec<Value> = vec![];
    let mut states_per_depth = vec![frontier.len() as u64];
    let mut depth_completed = 0;
    let mut capped = false;
    // transitions after which the store differs from what the clients were told: (state, op, real post, told)
    let mut diverged: Vec<(u32, u32, State, State)> = vec![];
    let mut diverged_total = 0u64;

    for depth in 1..=max_depth {
        if depth == 2 {
            frontier.extend(late_roots.drain(..));
        }
        if frontier.is_empty() {
            depth_completed = depth - 1;
            break;
        }
        // Expand the frontier in chunks so the time budget can stop us between chunks;
        // a level is only counted as completed if every chunk ran.
        let mut next: Vec<u32> = vec![];
        let mut level_done = true;
        for chunk in frontier.chunks(2048) {
            if t0.elapsed().as_secs_f64() > budget_s || states.len() > state_cap {
                level_done = false;
                capped = true;
                break;
            }
            type Succ = (u32, u32, State, String, Vec<Judged>, Option<State>);
            let results: Vec<Result<Vec<Succ>, String>> = chunk
                .par_iter()
                .map(|&sid| {
                    let pre = &states[sid as usize];
                    let mut out = Vec::with_capacity(alpha.ops.len());
                    for (oi, op) in alpha.ops.iter().enumerate() {
                        let (res, post) = step(pre, op, cfgs)?;
                        let (cls, judged, told) = match op {
                            Op::Tick(_) => ("tick".to_string(), vec![], None),
                            Op::Msg(m) => {
                                let told = told_after(pre, m, &res);
                                // (also after a message that got no reply: it must not have changed who holds what)
                                let told = if holdings(&told) != holdings(&post) { Some(told) } else { None };
                                (outcome_class(m, &res, pre, &post), judge(pre, m, &res, &post, cfgs), told)
                            }
                        };
                        out.push((sid, oi as u32, post, cls, judged, told));
                    }
                    Ok(out)
                })
                .collect();
            for r in results {
                for (sid, oi, post, cls, judged, told) in r? {
                    transitions += 1;
                    *outcome_classes.entry(cls).or_insert(0) += 1;
                    if let Some(t) = told {
                        diverged_total += 1;
                        if diverged.len() < 48 {
                            diverged.push((sid, oi, post.clone(), t));
                        }
                    }
                    let k = key_of(&post);
                    let id = match index.get(&k) {
                        Some(id) => *id,
                        None => {
                            let id = states.len() as u32;
                            index.insert(k, id);
                            states.push(post);
                            depth_of.push(depth);
                            parents.push((sid, oi));
                            next.push(id);
                            id
                        }
                    };
                    let _ = id;
                    if !judged.is_empty() {
                        let mut p = path_to(&parents, sid);
                        p.push(oi);
                        let ops: Vec<&Op> = p.iter().map(|i| &alpha.ops[*i as usize]).collect();
                        for jd in judged {
                            // one stored violation per (property, oracle, sig, op shape): shortest path wins (BFS order)
                            let opk = match &alpha.ops[oi as usize] {
                                Op::Msg(m) => format!("{}:{}:{}:{:?}:{:?}", cfgs[m.cfg].name, m.iface, m.mtype, m.req.is_some(), m.ciaddr.is_some()),
                                _ => String::new(),
                            };
                            let fk = format!("{}|{}|{:?}|{}", jd.property, jd.oracle, jd.sig, opk);
                            if found_keys.contains(&fk) && found.len() > 200 {
                                continue;
                            }
                            found_keys.insert(fk);
                            let root = root_of(&parents, sid);
                            let mut v = Violation::new(jd.oracle, jd.what, case_json_from(&states[root as usize], &ops, cfgs));
                            for (k, val) in jd.sig {
                                v = v.sig(k, val);
                            }
                            if let Op::Msg(m) = &alpha.ops[oi as usize] {
                                v = v.sig("msg", if m.mtype == 1 { "DISCOVER" } else if m.mtype == 3 { "REQUEST" } else { "other" });
                            }
                            if found.len() < 20000 {
                                found.push(Found { property: jd.property, v });
                            }
                        }
                    }
                    if samples.len() < 6 && transitions % 9973 == 1 {
                        let mut p = path_to(&parents, sid);
                        p.push(oi);
                        let ops: Vec<&Op> = p.iter().map(|i| &alpha.ops[*i as usize]).collect();
                        samples.push(case_json_from(&states[root_of(&parents, sid) as usize], &ops, cfgs));
                    }
                }
            }
        }
        if !level_done {
            break;
        }
        depth_completed = depth;
        states_per_depth.push(next.len() as u64);
        frontier = next;
    }
    // follow the consequences of every recorded divergence (none on a tree whose store mirrors its replies)
    let cons: Vec<Result<(u64, Vec<(Vec<u32>, Judged)>), String>> = diverged.par_iter().map(|(_, _, real, told)| consequences(real, told, cfgs, alpha, 2)).collect();
    let mut consequence_steps = 0u64;
    for ((sid, oi, _, _), r) in diverged.iter().zip(cons) {
        let (n, fs) = r?;
        consequence_steps += n;
        for (extra, jd) in fs {
            let fk = format!("told|{}|{}", jd.property, jd.oracle);
            if found.iter().filter(|f| f.v.oracle == jd.oracle && f.v.sig.get("basis").is_some()).count() >= 3 {
                continue;
            }
            found_keys.insert(fk);
            let mut p = path_to(&parents, *sid);
            p.push(*oi);
            p.extend(extra);
            let ops: Vec<&Op> = p.iter().map(|i| &alpha.ops[*i as usize]).collect();
            let root = root_of(&parents, *sid);
            let mut v = Violation::new(jd.oracle, jd.what, case_json_from(&states[root as usize], &ops, cfgs));
            for (k, val) in jd.sig {
                v = v.sig(k, val);
            }
            found.push(Found { property: jd.property, v });
        }
    }
    let reached = states.iter().cloned().zip(depth_of.iter().copied()).filter(|(_, d)| *d <= keep_reached_depth).collect();
    Ok((
        BfsStats { states: states.len() as u64, transitions, depth_completed, capped, outcome_classes, states_per_depth, samples, reached, parents, diverged_total, consequence_steps },
        found,
    ))
}

// ---------------------------------------------------------------------------
// Long-lived histories: the same oracles on a Pool that is NOT reopened between messages
// ---------------------------------------------------------------------------
// The BFS above rebuilds the Pool from the stored rows at every transition (a restart between any
// two messages), which is what makes exact-state deduplication sound -- but it can never see state
// the Pool object itself carries from one message to the next (a memo, a cached statement result,
// a cursor).  This part runs whole histories on ONE Pool, path by path (no deduplication: the
// hidden state depends on the path), judges every step with the same oracles, and also compares
// every step with the same message on a Pool rebuilt from the rows (the restart differential,
// reported under C18).

pub struct LongStats {
    pub histories: u64,
    pub steps: u64,
    pub depth: u32,
    pub differential_mismatches: u64,
}

fn res_sig(r: &StepResult) -> String {
    match r {
        StepResult::Reply(o) => {
            let mut opts: Vec<_> = o.options.iter().collect();
            opts.sort();
            format!("reply yiaddr={} opts={:?}", o.yiaddr, opts)
        }
        StepResult::Error(e) => format!("error {e}"),
        StepResult::Panic(m, l) => format!("panic {m} at {l}"),
    }
}

/// Run one history on one long-lived Pool.  Returns (message steps executed, findings).
pub fn run_longlived(initial: &State, ops: &[&Op], cfgs: &[Cfg], differential: bool, verbose: bool) -> Result<(u64, Vec<Found>), String> {
    run_longlived_born(initial, ops, cfgs, differential, verbose, false)
}

/// `born_v0`: the store was written by the previous release and is upgraded when this history's
/// server opens it.
pub fn run_longlived_born(initial: &State, ops: &[&Op], cfgs: &[Cfg], differential: bool, verbose: bool, born_v0: bool) -> Result<(u64, Vec<Found>), String> {
    let mut now = NOW0;
    clock::set_secs(now as u64);
    let mut p = if born_v0 { pool_from_state_v0(initial, now)? } else { pool_from_state(initial, now)? };
    let mut out = vec![];
    let mut n = 0;
    for (k, op) in ops.iter().enumerate() {
        match op {
            Op::Tick(dt) => {
                now += dt;
                clock::set_secs(now as u64);
            }
            Op::Msg(m) => {
                n += 1;
                let pre = read_state(&mut p, now)?;
                let res = run_msg(&mut p, m, cfgs);
                let post = read_state(&mut p, now)?;
                if verbose {
                    eprintln!("  step {}\n    -> {:?}\n    rows {}", op_json(op, cfgs), res, state_json(&post));
                }
                let mk_case = || {
                    let mut c = case_json_from(initial, &ops[..=k], cfgs);
                    c["long_lived"] = json!(true);
                    c["differential"] = json!(differential);
                    if born_v0 {
                        c["born"] = json!("v0");
                    }
                    c
                };
                for jd in judge(&pre, m, &res, &post, cfgs) {
                    let mut v = Violation::new(jd.oracle, format!("on a long-lived store{}, step {k}: {}", if born_v0 { " upgraded from the previous release's format" } else { "" }, jd.what), mk_case());
                    for (kk, val) in jd.sig {
                        v = v.sig(kk, val);
                    }
                    v = v.sig("msg", if m.mtype == 1 { "DISCOVER" } else if m.mtype == 3 { "REQUEST" } else { "other" });
                    out.push(Found { property: jd.property, v });
                }
                if !differential {
                    continue;
                }
                // restart differential: the same message on a Pool rebuilt from the rows
                // (at the same absolute time, so no time-shift argument is needed here)
                // (rows that a keyed table cannot hold -- two for one address -- cannot be rebuilt: the
                // step oracles above are what judges such a store)
                let Ok(mut pf) = pool_from_state(&pre, now) else { continue };
                let res_f = run_msg(&mut pf, m, cfgs);
                let post_f = read_state(&mut pf, now)?;
                if res_sig(&res) != res_sig(&res_f) || post != post_f {
                    let v = Violation::new(
                        "long-lived-differs-from-restarted",
                        format!("step {k}: uninterrupted server: {} rows {}; server restarted just before this message: {} rows {}", res_sig(&res), state_json(&post), res_sig(&res_f), state_json(&post_f)),
                        mk_case(),
                    )
                    .sig("part", "restart");
                    out.push(Found { property: "C18", v });
                    // the two servers have parted ways; later steps would only repeat the difference
                    break;
                }
            }
        }
    }
    Ok((n, out))
}

/// Every history of exactly `depth` operations (so every shorter one as a prefix) from every root.
pub fn longlived_histories(cfgs: &[Cfg], alpha: &Alphabet, roots: &[State], depth: u32, differential: bool) -> Result<(LongStats, Vec<Found>), String> {
    longlived_histories_born(cfgs, alpha, roots, depth, differential, false)
}

pub fn longlived_histories_born(cfgs: &[Cfg], alpha: &Alphabet, roots: &[State], depth: u32, differential: bool, born_v0: bool) -> Result<(LongStats, Vec<Found>), String> {
    use rayon::prelude::*;
    let n = alpha.ops.len();
    // shard by (root, first op)
    let shards: Vec<(usize, usize)> = (0..roots.len()).flat_map(|r| (0..n).map(move |a| (r, a))).collect();
    let results: Vec<Result<(u64, u64, u64, Vec<Found>), String>> = shards
        .par_iter()
        .map(|(ri, first)| {
            let mut hist = vec![*first];
            let mut found: Vec<Found> = vec![];
            let (mut histories, mut steps, mut mism) = (0u64, 0u64, 0u64);
            // odometer over the remaining depth-1 positions
            let mut idx = vec![0usize; depth.saturating_sub(1) as usize];
            loop {
                hist.truncate(1);
                hist.extend(idx.iter().copied());
                let ops: Vec<&Op> = hist.iter().map(|i| &alpha.ops[*i]).collect();
                let (k, fs) = run_longlived_born(&roots[*ri], &ops, cfgs, differential, false, born_v0)?;
                histories += 1;
                steps += k;
                for f in fs {
                    if f.v.oracle == "long-lived-differs-from-restarted" {
                        mism += 1;
                    }
                    if found.iter().filter(|x| x.property == f.property && x.v.oracle == f.v.oracle).count() < 2 {
                        found.push(f);
                    }
                }
                // next
                let mut pos = idx.len();
                loop {
                    if pos == 0 {
                        return Ok((histories, steps, mism, found));
                    }
                    pos -= 1;
                    idx[pos] += 1;
                    if idx[pos] < n {
                        break;
                    }
                    idx[pos] = 0;
                }
            }
        })
        .collect();
    let mut st = LongStats { histories: 0, steps: 0, depth, differential_mismatches: 0 };
    let mut all = vec![];
    for r in results {
        let (h, s, m, f) = r?;
        st.histories += h;
        st.steps += s;
        st.differential_mismatches += m;
        all.extend(f);
    }
    clock::unset();
    Ok((st, all))
}

/// The alphabet of the long-lived part: pool changes (K1/K2), two interfaces (K3), a reservation
/// (K4), two clients, one named address, a tick past the minimum lease and a long one.
pub fn longlived_alphabet(cfgs: &[Cfg], thorough: bool) -> Alphabet {
    let ticks: &[i64] = if thorough { &[150, 301, 30000] } else { &[301, 30000] };
    build_alphabet(cfgs, &AlphabetSpec { rfc4361_clients: false, cfgs: &["K1", "K2", "K3", "K4"], clients: 2, addrs: &["192.0.2.9"], ticks })
}

/// Roots of the long-lived part: the empty store and the two-client deep root.
pub fn longlived_roots() -> Vec<State> {
    let d = deep_roots();
    vec![d[0].clone(), d[3].clone()]
}

/// Largest depth d with |alphabet|^d * d * roots <= budget (at least 2).
pub fn longlived_depth(alpha: &Alphabet, roots: usize, budget_steps: f64) -> u32 {
    let n = alpha.ops.len() as f64;
    let mut d = 2u32;
    while n.powi(d as i32 + 1) * (d as f64 + 1.0) * roots as f64 <= budget_steps {
        d += 1;
    }
    d
}

/// Replay one case (list of ops from the empty store); returns violations of every step.
pub fn replay_case(case: &Value, cfgs: &[Cfg]) -> Result<Vec<Found>, String> {
    let mut st: State = vec![];
    if let Some(rows) = case["initial_state"].as_array() {
        for r in rows {
            st.push(Row {
                ip: r["ip"].as_str().ok_or("ip")?.parse().map_err(|e| format!("ip: {e}"))?,
                client: crate::common::util::unhex(r["client"].as_str().ok_or("client")?),
                start: r["start_rel"].as_i64().ok_or("start_rel")?,
                expiry: r["expiry_rel"].as_i64().ok_or("expiry_rel")?,
            });
        }
    }
    let mut out = vec![];
    let ops = case["ops"].as_array().ok_or("case.ops missing")?;
    if case["long_lived"].as_bool() == Some(true) {
        let parsed: Vec<Op> = ops.iter().map(|o| op_from_json(o, cfgs)).collect::<Result<_, _>>()?;
        let refs: Vec<&Op> = parsed.iter().collect();
        // with the restart differential only if the run that found the case used it (it ends a history
        // at the first step where the uninterrupted and the restarted server part ways)
        let (_, found) = run_longlived_born(&st, &refs, cfgs, case["differential"].as_bool().unwrap_or(false), true, case["born"].as_str() == Some("v0"))?;
        clock::unset();
        return Ok(found);
    }
    if let Some(kind) = case["store_locked"].as_str() {
        let op = op_from_json(ops.first().ok_or("case.ops empty")?, cfgs)?;
        if let Op::Msg(m) = &op {
            let (res, post) = step_busy(&st, m, cfgs, kind == "exclusive")?;
            eprintln!("  step {} with the lease file locked ({kind})\n    -> {:?}\n    rows {}", op_json(&op, cfgs), res, state_json(&post));
            for jd in judge_under_fault(&st, m, &res, &post, cfgs) {
                let mut v = Violation::new(jd.oracle, jd.what, case.clone());
                for (k, val) in jd.sig {
                    v = v.sig(k, val);
                }
                out.push(Found { property: jd.property, v: v.sig("fault", "store-locked") });
            }
        }
        clock::unset();
        return Ok(out);
    }
    let mut done: Vec<Op> = vec![];
    let mut told = st.clone();
    for o in ops {
        let op = op_from_json(o, cfgs)?;
        let (res, post) = step(&st, &op, cfgs)?;
        done.push(op.clone());
        match &op {
            Op::Tick(dt) => told = shift(&told, *dt),
            Op::Msg(m) => {
                if holdings(&told) != holdings(&st) {
                    eprintln!("    (the clients were told {}, the store holds {})", state_json(&told), state_json(&st));
                    for jd in judge_told(&told, m, &res, &post, cfgs) {
                        let refs: Vec<&Op> = done.iter().collect();
                        let mut v = Violation::new(jd.oracle, jd.what, case_json(&refs, cfgs));
                        for (k, val) in jd.sig {
                            v = v.sig(k, val);
                        }
                        out.push(Found { property: jd.property, v });
                    }
                }
                told = told_after(&told, m, &res);
            }
        }
        if let Op::Msg(m) = &op {
            eprintln!("  step {:?}\n    -> {:?}\n    rows {}", op_json(&op, cfgs).to_string(), res, state_json(&post));
            for jd in judge(&st, m, &res, &post, cfgs) {
                let refs: Vec<&Op> = done.iter().collect();
                let mut v = Violation::new(jd.oracle, jd.what, case_json(&refs, cfgs));
                for (k, val) in jd.sig {
                    v = v.sig(k, val);
                }
                v = v.sig("msg", if m.mtype == 1 { "DISCOVER" } else if m.mtype == 3 { "REQUEST" } else { "other" });
                out.push(Found { property: jd.property, v });
            }
        }
        st = post;
    }
    Ok(out)
}

/// Determinism self-test: a fixed slice of transitions executed twice must agree exactly.
pub fn self_test(cfgs: &[Cfg], alpha: &Alphabet) -> Result<(), String> {
    let mut st: State = vec![];
    for round in 0..3 {
        for op in alpha.ops.iter() {
            let (r1, p1) = step(&st, op, cfgs)?;
            let (r2, p2) = step(&st, op, cfgs)?;
            if format!("{:?}", r1) != format!("{:?}", r2) || p1 != p2 {
                return Err(format!("non-deterministic transition for {:?}: {:?}/{:?} vs {:?}/{:?}", op, r1, p1, r2, p2));
            }
            if round == 0 && matches!(op, Op::Msg(_)) && st.is_empty() && !p1.is_empty() {
                st = p1;
            }
        }
        st = step(&st, &Op::Tick(150), cfgs)?.1;
    }
    Ok(())
}
