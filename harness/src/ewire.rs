//! E-WIRE: the real services on one end of a veth pair inside a private network namespace, the
//! harness on the other end speaking raw Ethernet frames (AF_PACKET).  This is the observation
//! point the properties themselves name for C12 and C17 ("raw frames captured on the client end of
//! a veth pair"): the receive path (`recvdhcp`, `handle_solicit`), the interface / route lookups
//! through the real netlink-fed `NetInfo`, the raw-socket transmit path and the frame builder are
//! all executed.  Same discipline as E-NET: current-thread tokio runtime with a paused clock, the
//! harness never awaits I/O, every yield round is fenced.
use crate::enet::fence;
use std::net::{Ipv4Addr, Ipv6Addr};

pub const SRV_IF: &str = "eth0";
pub const PEER_IF: &str = "up0";
pub const SRV_MAC: [u8; 6] = [2, 0, 0, 0, 0, 1];
pub const PEER_MAC: [u8; 6] = [2, 0, 0, 0, 2, 2];
pub const SRV_IP4: Ipv4Addr = Ipv4Addr::new(192, 0, 2, 1);
pub const SRV_GLOBAL6: &str = "2001:db8:0:1::1";

fn sh(cmd: &str) -> Result<(), String> {
    let o = std::process::Command::new("sh").arg("-c").arg(cmd).output().map_err(|e| format!("{cmd}: {e}"))?;
    if !o.status.success() {
        return Err(format!("{cmd}: {}", String::from_utf8_lossy(&o.stderr).trim()));
    }
    Ok(())
}

/// Which way the IPv6 default route points (it decides the router lifetime an interface without a
/// configured lifetime advertises).
#[derive(Clone, Copy, Debug, PartialEq)]
pub enum Route6 {
    None,
    ViaPeerSide,  // out of the advertising interface itself
    ViaElsewhere, // out of another interface
}

/// Build the veth pair in this (already private) network namespace.
pub fn setup_veth(route: Route6) -> Result<(), String> {
    sh(&format!("ip link add {SRV_IF} type veth peer name {PEER_IF}"))?;
    for i in [SRV_IF, PEER_IF] {
        let _ = std::fs::write(format!("/proc/sys/net/ipv6/conf/{i}/accept_dad"), "0");
        let _ = std::fs::write(format!("/proc/sys/net/ipv6/conf/{i}/accept_ra"), "0");
        let _ = std::fs::write(format!("/proc/sys/net/ipv4/conf/{i}/rp_filter"), "0");
        let _ = std::fs::write(format!("/proc/sys/net/ipv4/conf/{i}/promote_secondaries"), "0");
    }
    let _ = std::fs::write("/proc/sys/net/ipv4/conf/all/promote_secondaries", "0");
    let _ = std::fs::write("/proc/sys/net/ipv4/conf/all/rp_filter", "0");
    // a router: with forwarding on, the kernel joins all-routers (ff02::2) on every interface, which
    // is what lets solicitations reach the service's raw socket, as on a production router
    let _ = std::fs::write("/proc/sys/net/ipv6/conf/all/forwarding", "1");
    let mac = |m: &[u8; 6]| m.iter().map(|b| format!("{:02x}", b)).collect::<Vec<_>>().join(":");
    sh(&format!("ip link set {SRV_IF} address {} up", mac(&SRV_MAC)))?;
    sh(&format!("ip link set {PEER_IF} address {} up", mac(&PEER_MAC)))?;
    sh(&format!("ip addr add {SRV_IP4}/24 dev {SRV_IF}"))?;
    {
        // (see NlMonitor) the service must not start before the kernel has finished announcing
        // the interface's own addresses, or the announcement races with the service's initial dump
        let mut mon = NlMonitor::open()?;
        sh(&format!("ip -6 addr add {SRV_GLOBAL6}/64 dev {SRV_IF} nodad"))?;
        mon.wait_addr(true, SRV_GLOBAL6.parse().unwrap())?;
    }
    match route {
        Route6::None => {}
        Route6::ViaPeerSide => sh(&format!("ip -6 route add default via fe80::99 dev {SRV_IF}"))?,
        Route6::ViaElsewhere => {
            // a second, unrelated interface pair carries the default route
            sh("ip link add wan0 type veth peer name wan1")?;
            let _ = std::fs::write("/proc/sys/net/ipv6/conf/wan0/accept_dad", "0");
            sh("ip link set wan0 up")?;
            sh("ip link set wan1 up")?;
            sh("ip -6 route add default via fe80::99 dev wan0")?;
        }
    }
    Ok(())
}

/// A netlink listener of the harness's own, subscribed to the IPv6 address groups.  The kernel
/// announces a new IPv6 address from a work queue (the duplicate-address-detection worker, also with
/// `nodad`), i.e. some real time AFTER `ip addr add` has returned -- an arbitrary amount on a loaded
/// machine.  A notification is broadcast to all listeners in one pass, so once the harness has seen
/// it, and one more operation that needs the rtnl lock (which the worker holds while it notifies)
/// has completed, the service's listener has it queued too.  No wall-clock value enters a verdict:
/// the wait either ends with the notification or is a machinery error.
pub struct NlMonitor {
    fd: i32,
}

impl NlMonitor {
    pub fn open() -> Result<Self, String> {
        unsafe {
            let fd = libc::socket(libc::AF_NETLINK, libc::SOCK_RAW | libc::SOCK_CLOEXEC, libc::NETLINK_ROUTE);
            if fd < 0 {
                return Err(format!("netlink socket: {}", std::io::Error::last_os_error()));
            }
            let mut sa: libc::sockaddr_nl = std::mem::zeroed();
            sa.nl_family = libc::AF_NETLINK as u16;
            sa.nl_groups = 0x100; // RTMGRP_IPV6_IFADDR
            if libc::bind(fd, &sa as *const _ as *const libc::sockaddr, std::mem::size_of::<libc::sockaddr_nl>() as u32) != 0 {
                let e = std::io::Error::last_os_error();
                libc::close(fd);
                return Err(format!("netlink bind: {e}"));
            }
            Ok(NlMonitor { fd })
        }
    }

    /// Block until the kernel has announced that `addr` was added to (`added`) / removed from an
    /// interface, then pass once through the rtnl lock.
    pub fn wait_addr(&mut self, added: bool, addr: Ipv6Addr) -> Result<(), String> {
        let want_type: u16 = if added { 20 } else { 21 }; // RTM_NEWADDR / RTM_DELADDR
        let t0 = std::time::Instant::now();
        let mut buf = vec![0u8; 65536];
        loop {
            let mut pfd = libc::pollfd { fd: self.fd, events: libc::POLLIN, revents: 0 };
            let rc = unsafe { libc::poll(&mut pfd, 1, 1000) };
            if rc <= 0 {
                if t0.elapsed() > std::time::Duration::from_secs(60) {
                    return Err(format!("the kernel did not announce the address change of {addr} within 60 s"));
                }
                continue;
            }
            let n = unsafe { libc::recv(self.fd, buf.as_mut_ptr() as *mut libc::c_void, buf.len(), 0) };
            if n <= 0 {
                continue;
            }
            let b = &buf[..n as usize];
            let mut off = 0;
            let mut seen = false;
            while off + 16 <= b.len() {
                let len = u32::from_ne_bytes([b[off], b[off + 1], b[off + 2], b[off + 3]]) as usize;
                let ty = u16::from_ne_bytes([b[off + 4], b[off + 5]]);
                if len < 16 || off + len > b.len() {
                    break;
                }
                if ty == want_type && len >= 16 + 8 {
                    // ifaddrmsg (8 octets), then attributes
                    let mut a = off + 16 + 8;
                    while a + 4 <= off + len {
                        let alen = u16::from_ne_bytes([b[a], b[a + 1]]) as usize;
                        let aty = u16::from_ne_bytes([b[a + 2], b[a + 3]]);
                        if alen < 4 || a + alen > off + len {
                            break;
                        }
                        if (aty == 1 || aty == 2) && alen == 4 + 16 && b[a + 4..a + 20] == addr.octets() {
                            seen = true;
                        }
                        a += (alen + 3) & !3;
                    }
                }
                off += (len + 3) & !3;
            }
            if seen {
                break;
            }
        }
        // one operation under the rtnl lock: it cannot complete before the notifier has let go
        sh(&format!("ip link set {PEER_IF} up"))
    }
}

impl Drop for NlMonitor {
    fn drop(&mut self) {
        unsafe {
            libc::close(self.fd);
        }
    }
}

/// Run-time address changes on the advertising interface (the kernel notifies the service's
/// netlink listener, as when an address is renumbered, withdrawn or expires).  Returns once the
/// kernel has announced the change to every netlink listener.
pub fn addr6_add(mon: &mut NlMonitor, addr: &str, len: u8) -> Result<(), String> {
    sh(&format!("ip -6 addr add {addr}/{len} dev {SRV_IF} nodad"))?;
    mon.wait_addr(true, addr.parse().map_err(|e| format!("{addr}: {e}"))?)
}
pub fn addr6_del(mon: &mut NlMonitor, addr: &str, len: u8) -> Result<(), String> {
    sh(&format!("ip -6 addr del {addr}/{len} dev {SRV_IF}"))?;
    mon.wait_addr(false, addr.parse().map_err(|e| format!("{addr}: {e}"))?)
}

/// The IPv4 addresses the kernel itself lists for the advertising interface right now (ground truth
/// for "an address the interface has", independent of the service's view and of what the harness
/// thinks its events did -- removing a primary address may remove or promote its secondaries,
/// depending on a sysctl).
pub fn kernel_ipv4_addrs() -> Result<Vec<Ipv4Addr>, String> {
    let o = std::process::Command::new("ip").args(["-4", "-o", "addr", "show", "dev", SRV_IF]).output().map_err(|e| format!("ip addr show: {e}"))?;
    if !o.status.success() {
        return Err(format!("ip addr show: {}", String::from_utf8_lossy(&o.stderr).trim()));
    }
    let mut out = vec![];
    for line in String::from_utf8_lossy(&o.stdout).lines() {
        let mut it = line.split_whitespace();
        while let Some(w) = it.next() {
            if w == "inet" {
                if let Some(a) = it.next().and_then(|x| x.split('/').next()).and_then(|x| x.parse::<Ipv4Addr>().ok()) {
                    out.push(a);
                }
            }
        }
    }
    Ok(out)
}

/// The same for IPv6: (address, prefix length) pairs, link-local included, tentative ones left out.
pub fn kernel_ipv6_addrs() -> Result<Vec<(Ipv6Addr, u8)>, String> {
    let o = std::process::Command::new("ip").args(["-6", "-o", "addr", "show", "dev", SRV_IF]).output().map_err(|e| format!("ip addr show: {e}"))?;
    if !o.status.success() {
        return Err(format!("ip addr show: {}", String::from_utf8_lossy(&o.stderr).trim()));
    }
    let mut out = vec![];
    for line in String::from_utf8_lossy(&o.stdout).lines() {
        if line.contains("tentative") || line.contains("dadfailed") {
            continue;
        }
        let mut it = line.split_whitespace();
        while let Some(w) = it.next() {
            if w == "inet6" {
                if let Some(x) = it.next() {
                    let mut p = x.split('/');
                    if let (Some(a), Some(l)) = (p.next().and_then(|a| a.parse::<Ipv6Addr>().ok()), p.next().and_then(|l| l.parse::<u8>().ok())) {
                        out.push((a, l));
                    }
                }
            }
        }
    }
    Ok(out)
}

/// IPv4 address changes at run time (announced inside the `ip` command's own syscall; one pass
/// through the rtnl lock afterwards all the same).
pub fn addr4_add(addr: Ipv4Addr, len: u8) -> Result<(), String> {
    sh(&format!("ip addr add {addr}/{len} dev {SRV_IF}"))?;
    sh(&format!("ip link set {PEER_IF} up"))
}
pub fn addr4_del(addr: Ipv4Addr, len: u8) -> Result<(), String> {
    sh(&format!("ip addr del {addr}/{len} dev {SRV_IF}"))?;
    sh(&format!("ip link set {PEER_IF} up"))
}

pub fn teardown_veth() {
    let _ = sh(&format!("ip link del {SRV_IF}"));
    let _ = sh("ip link del wan0");
}

fn ifindex(name: &str) -> Result<i32, String> {
    let c = std::ffi::CString::new(name).unwrap();
    let i = unsafe { libc::if_nametoindex(c.as_ptr()) };
    if i == 0 {
        Err(format!("no interface {name}"))
    } else {
        Ok(i as i32)
    }
}

/// An AF_PACKET socket on the peer end of the pair.
pub struct Wire {
    fd: i32,
    ifindex: i32,
    pub rx: Vec<Vec<u8>>,
}

impl Wire {
    pub fn open() -> Result<Wire, String> {
        let idx = ifindex(PEER_IF)?;
        unsafe {
            let fd = libc::socket(libc::AF_PACKET, libc::SOCK_RAW | libc::SOCK_NONBLOCK, (libc::ETH_P_ALL as u16).to_be() as i32);
            if fd < 0 {
                return Err(format!("AF_PACKET socket: {}", std::io::Error::last_os_error()));
            }
            let mut sll: libc::sockaddr_ll = std::mem::zeroed();
            sll.sll_family = libc::AF_PACKET as u16;
            sll.sll_protocol = (libc::ETH_P_ALL as u16).to_be();
            sll.sll_ifindex = idx;
            if libc::bind(fd, &sll as *const _ as *const libc::sockaddr, std::mem::size_of::<libc::sockaddr_ll>() as u32) != 0 {
                let e = std::io::Error::last_os_error();
                libc::close(fd);
                return Err(format!("bind AF_PACKET: {e}"));
            }
            Ok(Wire { fd, ifindex: idx, rx: vec![] })
        }
    }

    pub fn send(&self, frame: &[u8]) -> Result<(), String> {
        unsafe {
            let mut sll: libc::sockaddr_ll = std::mem::zeroed();
            sll.sll_family = libc::AF_PACKET as u16;
            sll.sll_ifindex = self.ifindex;
            sll.sll_halen = 6;
            sll.sll_addr[..6].copy_from_slice(&frame[..6]);
            let r = libc::sendto(self.fd, frame.as_ptr() as *const libc::c_void, frame.len(), 0, &sll as *const _ as *const libc::sockaddr, std::mem::size_of::<libc::sockaddr_ll>() as u32);
            if r < 0 {
                return Err(format!("send frame: {}", std::io::Error::last_os_error()));
            }
        }
        Ok(())
    }

    /// Read every frame that has arrived; frames this socket sent itself are skipped.
    pub fn poll(&mut self) -> usize {
        let mut n = 0;
        let mut buf = vec![0u8; 70000];
        loop {
            let mut sll: libc::sockaddr_ll = unsafe { std::mem::zeroed() };
            let mut sl = std::mem::size_of::<libc::sockaddr_ll>() as u32;
            let r = unsafe { libc::recvfrom(self.fd, buf.as_mut_ptr() as *mut libc::c_void, buf.len(), 0, &mut sll as *mut _ as *mut libc::sockaddr, &mut sl) };
            if r < 0 {
                break;
            }
            if sll.sll_pkttype == libc::PACKET_OUTGOING as u8 {
                continue;
            }
            self.rx.push(buf[..r as usize].to_vec());
            n += 1;
        }
        n
    }
}

impl Drop for Wire {
    fn drop(&mut self) {
        unsafe { libc::close(self.fd) };
    }
}

// ---------------------------------------------------------------------------
// Frame construction (harness side) and dissection
// ---------------------------------------------------------------------------

fn ones_sum(chunks: &[&[u8]]) -> u16 {
    let mut sum: u32 = 0;
    let mut carry: Option<u8> = None;
    for c in chunks {
        for b in c.iter() {
            match carry.take() {
                None => carry = Some(*b),
                Some(h) => sum += ((h as u32) << 8) | *b as u32,
            }
        }
    }
    if let Some(h) = carry {
        sum += (h as u32) << 8;
    }
    while sum > 0xffff {
        sum = (sum & 0xffff) + (sum >> 16);
    }
    !(sum as u16)
}

/// Ethernet + IPv4 + UDP around `payload`.
pub fn udp4_frame(smac: &[u8; 6], dmac: &[u8; 6], src: (Ipv4Addr, u16), dst: (Ipv4Addr, u16), payload: &[u8]) -> Vec<u8> {
    let mut f = vec![];
    f.extend_from_slice(dmac);
    f.extend_from_slice(smac);
    f.extend_from_slice(&[0x08, 0x00]);
    let total = 20 + 8 + payload.len();
    let mut ip = vec![0x45, 0, (total >> 8) as u8, total as u8, 0, 0, 0, 0, 64, 17, 0, 0];
    ip.extend_from_slice(&src.0.octets());
    ip.extend_from_slice(&dst.0.octets());
    let ck = ones_sum(&[&ip]);
    ip[10] = (ck >> 8) as u8;
    ip[11] = ck as u8;
    let ulen = 8 + payload.len();
    let mut udp = vec![(src.1 >> 8) as u8, src.1 as u8, (dst.1 >> 8) as u8, dst.1 as u8, (ulen >> 8) as u8, ulen as u8, 0, 0];
    let pseudo = [&src.0.octets()[..], &dst.0.octets()[..], &[0, 17, (ulen >> 8) as u8, ulen as u8]].concat();
    let mut ck = ones_sum(&[&pseudo, &udp, payload]);
    if ck == 0 {
        ck = 0xffff;
    }
    udp[6] = (ck >> 8) as u8;
    udp[7] = ck as u8;
    f.extend_from_slice(&ip);
    f.extend_from_slice(&udp);
    f.extend_from_slice(payload);
    f
}

pub fn ll_of(mac: &[u8; 6]) -> Ipv6Addr {
    let o = [0xfe, 0x80, 0, 0, 0, 0, 0, 0, mac[0] ^ 2, mac[1], mac[2], 0xff, 0xfe, mac[3], mac[4], mac[5]];
    Ipv6Addr::from(o)
}

/// A router solicitation from the peer's link-local address to all-routers.
pub fn rs_frame(smac: &[u8; 6], with_slla: bool) -> Vec<u8> {
    let src = ll_of(smac);
    let dst: Ipv6Addr = "ff02::2".parse().unwrap();
    let mut icmp = vec![133u8, 0, 0, 0, 0, 0, 0, 0];
    if with_slla {
        icmp.extend_from_slice(&[1, 1]);
        icmp.extend_from_slice(smac);
    }
    let l = icmp.len() as u32;
    let pseudo = [&src.octets()[..], &dst.octets()[..], &l.to_be_bytes()[..], &[0, 0, 0, 58]].concat();
    let ck = ones_sum(&[&pseudo, &icmp]);
    icmp[2] = (ck >> 8) as u8;
    icmp[3] = ck as u8;
    let mut f = vec![0x33, 0x33, 0, 0, 0, 2];
    f.extend_from_slice(smac);
    f.extend_from_slice(&[0x86, 0xdd]);
    f.extend_from_slice(&[0x60, 0, 0, 0, (icmp.len() >> 8) as u8, icmp.len() as u8, 58, 255]);
    f.extend_from_slice(&src.octets());
    f.extend_from_slice(&dst.octets());
    f.extend_from_slice(&icmp);
    f
}

/// If `frame` is an ICMPv6 router advertisement: (source MAC, IPv6 source, IPv6 destination, hop
/// limit, ICMPv6 message, checksum verifies).
pub fn as_ra(frame: &[u8]) -> Option<([u8; 6], Ipv6Addr, Ipv6Addr, u8, Vec<u8>, bool)> {
    if frame.len() < 14 + 40 + 4 || frame[12..14] != [0x86, 0xdd] {
        return None;
    }
    let ip = &frame[14..];
    if ip[6] != 58 {
        return None;
    }
    let plen = u16::from_be_bytes([ip[4], ip[5]]) as usize;
    if ip.len() < 40 + plen {
        return None;
    }
    let icmp = &ip[40..40 + plen];
    if icmp.first() != Some(&134) {
        return None;
    }
    let src = Ipv6Addr::from(<[u8; 16]>::try_from(&ip[8..24]).ok()?);
    let dst = Ipv6Addr::from(<[u8; 16]>::try_from(&ip[24..40]).ok()?);
    let l = plen as u32;
    let pseudo = [&ip[8..24], &ip[24..40], &l.to_be_bytes()[..], &[0, 0, 0, 58]].concat();
    let ok = ones_sum(&[&pseudo, icmp]) == 0;
    Some((<[u8; 6]>::try_from(&frame[6..12]).ok()?, src, dst, ip[7], icmp.to_vec(), ok))
}

/// If `frame` is IPv4/UDP from port 67: the whole frame is returned for `c12::frame_check`, with
/// (dst mac, src ip, dst ip, dst port, payload).
pub fn as_dhcp_reply(frame: &[u8]) -> Option<([u8; 6], Ipv4Addr, Ipv4Addr, u16, Vec<u8>)> {
    if frame.len() < 14 + 20 + 8 || frame[12..14] != [0x08, 0x00] {
        return None;
    }
    let ip = &frame[14..];
    if ip[0] != 0x45 || ip[9] != 17 {
        return None;
    }
    let udp = &ip[20..];
    if u16::from_be_bytes([udp[0], udp[1]]) != 67 {
        return None;
    }
    let ulen = u16::from_be_bytes([udp[4], udp[5]]) as usize;
    if ulen < 8 || udp.len() < ulen {
        return None;
    }
    Some((
        <[u8; 6]>::try_from(&frame[0..6]).ok()?,
        Ipv4Addr::new(ip[12], ip[13], ip[14], ip[15]),
        Ipv4Addr::new(ip[16], ip[17], ip[18], ip[19]),
        u16::from_be_bytes([udp[2], udp[3]]),
        udp[8..ulen].to_vec(),
    ))
}

// ---------------------------------------------------------------------------
// Runtime
// ---------------------------------------------------------------------------

pub struct WireRt {
    pub rt: tokio::runtime::Runtime,
}

impl WireRt {
    pub fn new() -> Result<WireRt, String> {
        let rt = tokio::runtime::Builder::new_current_thread().enable_all().start_paused(true).build().map_err(|e| e.to_string())?;
        Ok(WireRt { rt })
    }
    pub fn pump(&mut self, n: usize) {
        self.rt.block_on(async {
            for _ in 0..n {
                fence();
                tokio::task::yield_now().await;
            }
        });
        fence();
    }
    /// Move the (paused) tokio clock: timers of the service fire, then a few fenced rounds.
    pub fn advance(&mut self, d: std::time::Duration) {
        self.rt.block_on(async {
            fence();
            tokio::time::advance(d).await;
            for _ in 0..4 {
                fence();
                tokio::task::yield_now().await;
            }
        });
        fence();
    }
}
