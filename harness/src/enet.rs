//! E-NET: the real `DnsService` in-process on loopback, on a current-thread tokio runtime with a
//! paused clock.  The harness owns every environment event: client datagrams / TCP frames,
//! upstream replies (and their faults), and the passage of time.
//!
//! Discipline (load-bearing): the harness never awaits I/O.  All harness sockets are plain std
//! non-blocking sockets polled between `yield_now()` rounds, so the runtime never parks idle and
//! the paused clock never auto-advances; time moves only through `Rig::advance`, which moves the
//! tokio clock and the interposed CLOCK_REALTIME together.
use crate::common::{clock, panics};
use std::io::{ErrorKind, Read, Write};
use std::net::{IpAddr, Ipv4Addr, SocketAddr, TcpListener, TcpStream, UdpSocket};
use std::sync::atomic::{AtomicU32, Ordering};
use std::time::Duration;

static EXEC_COUNTER: AtomicU32 = AtomicU32::new(0);
static SHARD: AtomicU32 = AtomicU32::new(0);
static NEXT_PORT: AtomicU32 = AtomicU32::new(0);

static SHARD_SET: std::sync::atomic::AtomicBool = std::sync::atomic::AtomicBool::new(false);

pub fn set_shard(s: u32) {
    SHARD.store(s, Ordering::SeqCst);
    SHARD_SET.store(true, Ordering::SeqCst);
}

// ---------------------------------------------------------------------------
// Kernel-side determinism: the loopback fence
// ---------------------------------------------------------------------------
// A packet sent over loopback is put on the sending CPU's backlog queue and delivered to the
// receiving socket by the NET_RX softirq.  Normally that runs before the send call returns, but
// on a loaded machine the kernel hands it to ksoftirqd and delivery lags by an arbitrary amount of
// real time -- which would make "nothing has arrived" depend on machine load.  The backlog queue
// is FIFO per CPU, and this thread (harness and service tasks alike) is pinned to one CPU, so a
// datagram the harness sends to itself arrives only after everything sent earlier from this
// thread has reached its socket.  Every pump round is bracketed by such a fence; packets the
// kernel generates while delivering (TCP SYN-ACK, ACK) are flushed by the following rounds' fences.
thread_local! {
    static FENCE: std::cell::RefCell<Option<(UdpSocket, u64)>> = const { std::cell::RefCell::new(None) };
}
static FENCES: std::sync::atomic::AtomicU64 = std::sync::atomic::AtomicU64::new(0);
static FENCE_WAITS: std::sync::atomic::AtomicU64 = std::sync::atomic::AtomicU64::new(0);
static PIN_FAILED: std::sync::atomic::AtomicBool = std::sync::atomic::AtomicBool::new(false);

/// (fences executed, fences that had to wait for deferred delivery, pinning failed)
pub fn fence_stats() -> (u64, u64, bool) {
    (FENCES.load(Ordering::Relaxed), FENCE_WAITS.load(Ordering::Relaxed), PIN_FAILED.load(Ordering::Relaxed))
}

/// Pin the calling thread to one of the CPUs it may run on.
pub fn pin_thread(hint: usize) {
    unsafe {
        // the mask may have been narrowed by an earlier pin (ours, or inherited from the parent
        // process): widen it to everything the cgroup allows before choosing
        let mut full: libc::cpu_set_t = std::mem::zeroed();
        for c in 0..libc::CPU_SETSIZE as usize {
            libc::CPU_SET(c, &mut full);
        }
        let _ = libc::sched_setaffinity(0, std::mem::size_of::<libc::cpu_set_t>(), &full);
        let mut set: libc::cpu_set_t = std::mem::zeroed();
        if libc::sched_getaffinity(0, std::mem::size_of::<libc::cpu_set_t>(), &mut set) != 0 {
            PIN_FAILED.store(true, Ordering::Relaxed);
            return;
        }
        let allowed: Vec<usize> = (0..libc::CPU_SETSIZE as usize).filter(|c| libc::CPU_ISSET(*c, &set)).collect();
        if allowed.is_empty() {
            PIN_FAILED.store(true, Ordering::Relaxed);
            return;
        }
        if allowed.len() == 1 {
            return;
        }
        // debugging knob: VERIF_PIN_CPU=<k> puts every thread of every worker on the k-th allowed
        // CPU (worst-case contention; used to test that verdicts do not depend on machine load)
        let hint = std::env::var("VERIF_PIN_CPU").ok().and_then(|v| v.parse::<usize>().ok()).unwrap_or(hint);
        let cpu = allowed[hint % allowed.len()];
        let mut one: libc::cpu_set_t = std::mem::zeroed();
        libc::CPU_SET(cpu, &mut one);
        if libc::sched_setaffinity(0, std::mem::size_of::<libc::cpu_set_t>(), &one) != 0 {
            PIN_FAILED.store(true, Ordering::Relaxed);
        }
    }
}

thread_local! {
    static TCP_FDS: std::cell::RefCell<Vec<i32>> = const { std::cell::RefCell::new(Vec::new()) };
}

/// Harness-side TCP sockets are registered here so that every fence can flush their pending
/// (delayed) ACKs.  The service's sockets run without TCP_NODELAY, so a second small write waits
/// (Nagle) for the ACK of the first; left to the kernel that ACK comes from a 40 ms *real-time*
/// timer.  Flushing it at every fence ties it to harness progress instead.
pub fn register_tcp(fd: i32) {
    TCP_FDS.with(|v| v.borrow_mut().push(fd));
}
pub fn unregister_tcp(fd: i32) {
    TCP_FDS.with(|v| v.borrow_mut().retain(|x| *x != fd));
}
fn flush_acks() {
    TCP_FDS.with(|v| {
        for fd in v.borrow().iter() {
            let one: libc::c_int = 1;
            unsafe {
                libc::setsockopt(*fd, libc::IPPROTO_TCP, libc::TCP_QUICKACK, &one as *const _ as *const libc::c_void, std::mem::size_of::<libc::c_int>() as libc::socklen_t);
            }
        }
    });
}

pub fn fence() {
    flush_acks();
    FENCE.with(|f| {
        let mut f = f.borrow_mut();
        if f.is_none() {
            // a worker process is single-threaded: spread workers by shard; otherwise by thread id
            let hint = if SHARD_SET.load(Ordering::SeqCst) { SHARD.load(Ordering::SeqCst) as usize } else { unsafe { libc::gettid() as usize } };
            pin_thread(hint);
            let s = UdpSocket::bind("127.0.0.1:0").expect("fence socket");
            let a = s.local_addr().expect("fence addr");
            s.connect(a).expect("fence connect");
            s.set_nonblocking(true).expect("fence nonblocking");
            *f = Some((s, 0));
        }
        let (s, seq) = f.as_mut().unwrap();
        *seq += 1;
        let want = *seq;
        FENCES.fetch_add(1, Ordering::Relaxed);
        loop {
            match s.send(&want.to_le_bytes()) {
                Ok(_) => break,
                Err(e) if e.kind() == ErrorKind::WouldBlock || e.kind() == ErrorKind::Interrupted => continue,
                Err(e) => panic!("fence send: {e}"),
            }
        }
        let mut buf = [0u8; 8];
        let mut waited = false;
        let t0 = std::time::Instant::now();
        loop {
            match s.recv(&mut buf) {
                Ok(8) if u64::from_le_bytes(buf) == want => break,
                Ok(_) => continue,
                Err(e) if e.kind() == ErrorKind::WouldBlock => {
                    if !waited {
                        waited = true;
                        FENCE_WAITS.fetch_add(1, Ordering::Relaxed);
                    }
                    // delivery was deferred to ksoftirqd: sleep until the datagram is there
                    let mut pfd = libc::pollfd { fd: std::os::fd::AsRawFd::as_raw_fd(s), events: libc::POLLIN, revents: 0 };
                    unsafe { libc::poll(&mut pfd, 1, 1000) };
                    if t0.elapsed() > Duration::from_secs(120) {
                        panic!("loopback fence datagram not delivered within 120 s");
                    }
                }
                Err(e) if e.kind() == ErrorKind::Interrupted => continue,
                Err(e) => panic!("fence recv: {e}"),
            }
        }
    });
}

/// Try to give this process its own network namespace (own loopback): perfect isolation between
/// worker processes.  Falls back to per-shard address/port ranges on the shared loopback.
pub static ISOLATED: std::sync::atomic::AtomicBool = std::sync::atomic::AtomicBool::new(false);

pub fn isolate_network() -> bool {
    let ok = isolate_network_inner();
    if ok {
        ISOLATED.store(true, Ordering::SeqCst);
    }
    ok
}

fn isolate_network_inner() -> bool {
    unsafe {
        if libc::unshare(libc::CLONE_NEWNET) != 0 {
            return false;
        }
        // bring lo up: SIOCSIFFLAGS
        let fd = libc::socket(libc::AF_INET, libc::SOCK_DGRAM, 0);
        if fd < 0 {
            return false;
        }
        let mut ifr: libc::ifreq = std::mem::zeroed();
        ifr.ifr_name[0] = b'l' as libc::c_char;
        ifr.ifr_name[1] = b'o' as libc::c_char;
        if libc::ioctl(fd, libc::SIOCGIFFLAGS, &mut ifr) != 0 {
            libc::close(fd);
            return false;
        }
        ifr.ifr_ifru.ifru_flags |= (libc::IFF_UP | libc::IFF_RUNNING) as libc::c_short;
        let rc = libc::ioctl(fd, libc::SIOCSIFFLAGS, &ifr);
        libc::close(fd);
        rc == 0
    }
}

fn fresh_upstream_addr() -> Ipv4Addr {
    let n = EXEC_COUNTER.fetch_add(1, Ordering::SeqCst);
    let shard = SHARD.load(Ordering::SeqCst);
    // 127.(64+shard).x.y, x.y never 0.0 / 255.255; 65k addresses per shard, then wraps (old sockets are closed by then)
    let k = n % 64000;
    Ipv4Addr::new(127, (64 + shard % 128) as u8, (k / 250) as u8, (k % 250 + 1) as u8)
}

fn fresh_port(ips: &[IpAddr]) -> Result<u16, String> {
    let shard = SHARD.load(Ordering::SeqCst);
    let base = 20000 + (shard % 20) * 2000;
    for _ in 0..2000 {
        let p = (base + NEXT_PORT.fetch_add(1, Ordering::SeqCst) % 2000) as u16;
        let ok = ips.iter().all(|ip| UdpSocket::bind(SocketAddr::new(*ip, p)).is_ok() && TcpListener::bind(SocketAddr::new(*ip, p)).is_ok());
        if ok {
            return Ok(p);
        }
    }
    Err("no free listener port".into())
}

pub struct Conn {
    pub stream: TcpStream,
    pub inbuf: Vec<u8>,
    pub eof: bool,
    pub frames_in: Vec<Vec<u8>>,
}

impl Conn {
    fn new(stream: TcpStream) -> Self {
        stream.set_nonblocking(true).ok();
        stream.set_nodelay(true).ok();
        register_tcp(std::os::fd::AsRawFd::as_raw_fd(&stream));
        Conn { stream, inbuf: vec![], eof: false, frames_in: vec![] }
    }
    /// Read whatever is available; split complete 2-octet-length frames off.
    pub fn poll(&mut self) -> bool {
        let mut got = false;
        let mut buf = [0u8; 65536];
        loop {
            match self.stream.read(&mut buf) {
                Ok(0) => {
                    if !self.eof {
                        got = true;
                    }
                    self.eof = true;
                    break;
                }
                Ok(n) => {
                    self.inbuf.extend_from_slice(&buf[..n]);
                    got = true;
                }
                Err(e) if e.kind() == ErrorKind::WouldBlock => break,
                Err(e) if e.kind() == ErrorKind::Interrupted => continue,
                Err(_) => {
                    if !self.eof {
                        got = true;
                    }
                    self.eof = true;
                    break;
                }
            }
        }
        while self.inbuf.len() >= 2 {
            let l = u16::from_be_bytes([self.inbuf[0], self.inbuf[1]]) as usize;
            if self.inbuf.len() < 2 + l {
                break;
            }
            self.frames_in.push(self.inbuf[2..2 + l].to_vec());
            self.inbuf.drain(..2 + l);
        }
        got
    }
    pub fn send_raw(&mut self, b: &[u8]) -> Result<(), String> {
        // loopback socket buffers are large; a short write here would be a machinery problem
        self.stream.set_nonblocking(false).ok();
        let r = self.stream.write_all(b).map_err(|e| e.to_string());
        self.stream.set_nonblocking(true).ok();
        r
    }
    pub fn send_frame(&mut self, msg: &[u8]) -> Result<(), String> {
        let mut b = (msg.len() as u16).to_be_bytes().to_vec();
        b.extend_from_slice(msg);
        self.send_raw(&b)
    }
}

impl Drop for Conn {
    fn drop(&mut self) {
        unregister_tcp(std::os::fd::AsRawFd::as_raw_fd(&self.stream));
    }
}

pub struct Upstream {
    pub addr: Ipv4Addr,
    udp: UdpSocket,
    tcp: TcpListener,
    pub conns: Vec<Conn>,
    /// datagrams received, in order: (bytes, source)
    pub udp_rx: Vec<(Vec<u8>, SocketAddr)>,
    pub udp_taken: usize,
}

impl Upstream {
    fn new() -> Result<Self, String> {
        for _ in 0..50 {
            let addr = fresh_upstream_addr();
            let sa = SocketAddr::new(IpAddr::V4(addr), 53);
            let udp = match UdpSocket::bind(sa) {
                Ok(s) => s,
                Err(_) => continue,
            };
            let tcp = match TcpListener::bind(sa) {
                Ok(s) => s,
                Err(_) => continue,
            };
            udp.set_nonblocking(true).map_err(|e| e.to_string())?;
            tcp.set_nonblocking(true).map_err(|e| e.to_string())?;
            return Ok(Upstream { addr, udp, tcp, conns: vec![], udp_rx: vec![], udp_taken: 0 });
        }
        Err("cannot bind an upstream address on 127/8 port 53".into())
    }
    pub fn poll(&mut self) -> bool {
        let mut got = false;
        let mut buf = [0u8; 65536];
        loop {
            match self.udp.recv_from(&mut buf) {
                Ok((n, from)) => {
                    self.udp_rx.push((buf[..n].to_vec(), from));
                    got = true;
                }
                Err(e) if e.kind() == ErrorKind::WouldBlock => break,
                Err(_) => break,
            }
        }
        loop {
            match self.tcp.accept() {
                Ok((s, _)) => {
                    self.conns.push(Conn::new(s));
                    got = true;
                }
                Err(_) => break,
            }
        }
        for c in &mut self.conns {
            if !c.eof {
                got |= c.poll();
            }
        }
        got
    }
    pub fn udp_reply(&self, to: SocketAddr, b: &[u8]) -> Result<(), String> {
        self.udp.send_to(b, to).map(|_| ()).map_err(|e| e.to_string())
    }
    pub fn tcp_frames_total(&self) -> usize {
        self.conns.iter().map(|c| c.frames_in.len()).sum()
    }
}

pub struct UdpClient {
    pub sock: UdpSocket,
    pub rx: Vec<(Vec<u8>, SocketAddr)>,
}

impl UdpClient {
    pub fn new(src_ip: IpAddr) -> Result<Self, String> {
        let sock = UdpSocket::bind(SocketAddr::new(src_ip, 0)).map_err(|e| format!("client bind {src_ip}: {e}"))?;
        sock.set_nonblocking(true).map_err(|e| e.to_string())?;
        Ok(UdpClient { sock, rx: vec![] })
    }
    pub fn send(&self, to: SocketAddr, b: &[u8]) -> Result<(), String> {
        self.sock.send_to(b, to).map(|_| ()).map_err(|e| format!("client send to {to}: {e}"))
    }
    pub fn poll(&mut self) -> bool {
        let mut got = false;
        let mut buf = [0u8; 65536];
        loop {
            match self.sock.recv_from(&mut buf) {
                Ok((n, from)) => {
                    self.rx.push((buf[..n].to_vec(), from));
                    got = true;
                }
                Err(_) => break,
            }
        }
        got
    }
}

pub struct TcpClient {
    pub conn: Conn,
    pub peer: SocketAddr,
}

impl TcpClient {
    pub fn connect(src_ip: Option<IpAddr>, to: SocketAddr) -> Result<Self, String> {
        // std has no bind-before-connect; source address only matters for ACL tests, which use
        // socket2-free libc calls there.  Default source is fine for everything else.
        let stream = match src_ip {
            None => TcpStream::connect(to).map_err(|e| format!("tcp connect {to}: {e}"))?,
            Some(ip) => connect_from(ip, to)?,
        };
        Ok(TcpClient { conn: Conn::new(stream), peer: to })
    }
    pub fn poll(&mut self) -> bool {
        self.conn.poll()
    }
}

pub fn connect_from(src: IpAddr, to: SocketAddr) -> Result<TcpStream, String> {
    use std::os::fd::FromRawFd;
    unsafe {
        let (domain, sa_src, sa_dst, len): (i32, libc::sockaddr_storage, libc::sockaddr_storage, u32) = match (src, to) {
            (IpAddr::V4(s), SocketAddr::V4(d)) => {
                let mut a: libc::sockaddr_in = std::mem::zeroed();
                a.sin_family = libc::AF_INET as u16;
                a.sin_addr.s_addr = u32::from_ne_bytes(s.octets());
                let mut b: libc::sockaddr_in = std::mem::zeroed();
                b.sin_family = libc::AF_INET as u16;
                b.sin_port = d.port().to_be();
                b.sin_addr.s_addr = u32::from_ne_bytes(d.ip().octets());
                let mut sa: libc::sockaddr_storage = std::mem::zeroed();
                let mut sb: libc::sockaddr_storage = std::mem::zeroed();
                std::ptr::copy_nonoverlapping(&a as *const _ as *const u8, &mut sa as *mut _ as *mut u8, std::mem::size_of::<libc::sockaddr_in>());
                std::ptr::copy_nonoverlapping(&b as *const _ as *const u8, &mut sb as *mut _ as *mut u8, std::mem::size_of::<libc::sockaddr_in>());
                (libc::AF_INET, sa, sb, std::mem::size_of::<libc::sockaddr_in>() as u32)
            }
            (IpAddr::V6(s), SocketAddr::V6(d)) => {
                let mut a: libc::sockaddr_in6 = std::mem::zeroed();
                a.sin6_family = libc::AF_INET6 as u16;
                a.sin6_addr.s6_addr = s.octets();
                let mut b: libc::sockaddr_in6 = std::mem::zeroed();
                b.sin6_family = libc::AF_INET6 as u16;
                b.sin6_port = d.port().to_be();
                b.sin6_addr.s6_addr = d.ip().octets();
                let mut sa: libc::sockaddr_storage = std::mem::zeroed();
                let mut sb: libc::sockaddr_storage = std::mem::zeroed();
                std::ptr::copy_nonoverlapping(&a as *const _ as *const u8, &mut sa as *mut _ as *mut u8, std::mem::size_of::<libc::sockaddr_in6>());
                std::ptr::copy_nonoverlapping(&b as *const _ as *const u8, &mut sb as *mut _ as *mut u8, std::mem::size_of::<libc::sockaddr_in6>());
                (libc::AF_INET6, sa, sb, std::mem::size_of::<libc::sockaddr_in6>() as u32)
            }
            _ => return Err("address family mismatch".into()),
        };
        let fd = libc::socket(domain, libc::SOCK_STREAM | libc::SOCK_CLOEXEC, 0);
        if fd < 0 {
            return Err("socket()".into());
        }
        if libc::bind(fd, &sa_src as *const _ as *const libc::sockaddr, len) != 0 {
            let e = std::io::Error::last_os_error();
            libc::close(fd);
            return Err(format!("bind {src}: {e}"));
        }
        if libc::connect(fd, &sa_dst as *const _ as *const libc::sockaddr, len) != 0 {
            let e = std::io::Error::last_os_error();
            libc::close(fd);
            return Err(format!("connect {to} from {src}: {e}"));
        }
        Ok(TcpStream::from_raw_fd(fd))
    }
}

pub struct RigSpec {
    /// listener IPs ("127.0.0.1", "::1", "::"); one port is chosen for all of them
    pub listeners: Vec<String>,
    pub n_upstreams: usize,
    /// YAML with placeholders {LISTENERS} (a YAML list) and {UP0} {UP1} ... (upstream IPs)
    pub yaml: String,
}

pub struct Rig {
    pub rt: tokio::runtime::Runtime,
    pub port: u16,
    pub listen_ips: Vec<IpAddr>,
    pub upstreams: Vec<Upstream>,
    pub conf: erbium::config::SharedConfig,
    pub yaml: String,
    pub virt_elapsed: Duration,
    svc: Option<tokio::task::JoinHandle<Result<(), String>>>,
    pub pumps: u64,
}

pub const REAL_EPOCH_SECS: u64 = 1_700_000_000;

impl Rig {
    pub fn start(spec: &RigSpec) -> Result<Rig, String> {
        let _ = panics::take_all();
        let listen_ips: Vec<IpAddr> = spec.listeners.iter().map(|s| s.parse().map_err(|e| format!("listener {s}: {e}"))).collect::<Result<_, _>>()?;
        let probe_ips: Vec<IpAddr> = listen_ips.clone();
        let port = fresh_port(&probe_ips)?;
        let mut upstreams = vec![];
        for _ in 0..spec.n_upstreams {
            upstreams.push(Upstream::new()?);
        }
        let lst: Vec<String> = listen_ips
            .iter()
            .map(|ip| match ip {
                IpAddr::V4(a) => format!("'{a}:{port}'"),
                IpAddr::V6(a) => format!("'[{a}]:{port}'"),
            })
            .collect();
        let mut yaml = spec.yaml.replace("{LISTENERS}", &format!("[{}]", lst.join(", ")));
        for (i, u) in upstreams.iter().enumerate() {
            yaml = yaml.replace(&format!("{{UP{i}}}"), &u.addr.to_string());
        }
        let conf = erbium::config::verif_load_config_from_string(&yaml).map_err(|e| format!("rig config rejected: {e}\n{yaml}"))?;
        let rt = tokio::runtime::Builder::new_current_thread().enable_all().start_paused(true).build().map_err(|e| e.to_string())?;
        clock::set_secs(REAL_EPOCH_SECS);
        let conf2 = conf.clone();
        let svc = rt.block_on(async move {
            erbium::dns::verif::verif_reset_timeout().await;
            let netinfo = erbium_net::netinfo::SharedNetInfo::new().await;
            match erbium::dns::DnsService::new(conf2, &netinfo).await {
                Ok(svc) => Ok(tokio::spawn(async move { svc.run().await.map_err(|e| e.to_string()) })),
                Err(e) => Err(format!("DnsService::new failed: {e}")),
            }
        })?;
        let mut rig = Rig { rt, port, listen_ips, upstreams, conf, yaml, virt_elapsed: Duration::ZERO, svc: Some(svc), pumps: 0 };
        rig.pump(8);
        Ok(rig)
    }

    pub fn listen_addr(&self, i: usize) -> SocketAddr {
        SocketAddr::new(self.listen_ips[i], self.port)
    }

    /// Let erbium's tasks run: n rounds of yield (each round passes through tokio's I/O driver).
    pub fn pump(&mut self, n: usize) {
        self.pumps += n as u64;
        self.rt.block_on(async {
            for _ in 0..n {
                fence();
                tokio::task::yield_now().await;
            }
        });
        fence();
    }

    /// Move virtual time (tokio clock and CLOCK_REALTIME together).
    pub fn advance(&mut self, d: Duration) {
        clock::advance_nanos(d.as_nanos());
        self.virt_elapsed += d;
        self.rt.block_on(async {
            fence();
            tokio::time::advance(d).await;
            for _ in 0..4 {
                fence();
                tokio::task::yield_now().await;
            }
        });
        fence();
    }

    pub fn poll_upstreams(&mut self) -> bool {
        let mut got = false;
        for u in &mut self.upstreams {
            got |= u.poll();
        }
        got
    }

    /// Pump until `cond` holds (a positive effect).  Err = machinery timeout, never a verdict.
    pub fn wait_until<F: FnMut(&mut Rig) -> bool>(&mut self, mut cond: F, what: &str) -> Result<(), String> {
        let mut rounds = 0u32;
        loop {
            self.poll_upstreams();
            if cond(self) {
                return Ok(());
            }
            self.pump(2);
            rounds += 1;
            // Under the paused clock nothing can happen once every task is blocked on I/O or a
            // timer, and every pump round is fenced against deferred loopback delivery: a few
            // hundred quiet rounds mean the effect is not coming (no wall-clock enters the
            // decision).  Whether that is a verdict is the caller's decision.
            if rounds > 400 {
                return Err(format!("no effect: {what}"));
            }
        }
    }

    /// Pump until nothing new shows up on any harness socket for `quiet_rounds` consecutive rounds.
    pub fn settle<F: FnMut(&mut Rig) -> bool>(&mut self, mut poll_clients: F) {
        let mut quiet = 0;
        let mut total = 0;
        while quiet < 3 && total < 400 {
            self.pump(6);
            let a = self.poll_upstreams();
            let b = poll_clients(self);
            if a || b {
                quiet = 0;
            } else {
                quiet += 1;
            }
            total += 1;
        }
    }

    pub fn service_finished(&self) -> bool {
        self.svc.as_ref().map(|h| h.is_finished()).unwrap_or(true)
    }

    pub fn stop(mut self) -> Vec<panics::PanicInfo> {
        if let Some(h) = self.svc.take() {
            h.abort();
        }
        self.pump(2);
        drop(self.rt);
        clock::unset();
        panics::take_all()
    }
}

pub const BASE_YAML: &str = "---
dns-listeners: {LISTENERS}
dns-routes:
  - domain-suffixes: ['']
    type: forward
    dns-servers: ['{UP0}']
";
