//! Sharded execution of E-NET cases in worker sub-processes (each worker is single-threaded and,
//! when permitted, lives in its own network namespace), with a determinism self-test.
use crate::common::report::{Report, Violation};
use serde_json::{Value, json};
use std::io::{BufRead, BufReader, Write};
use std::process::{Command, Stdio};

pub struct CaseResult {
    pub class: String,
    pub violations: Vec<Violation>,
    pub machinery: Option<String>,
    pub stats: Value,
}

impl CaseResult {
    pub fn ok(class: impl Into<String>) -> Self {
        CaseResult { class: class.into(), violations: vec![], machinery: None, stats: json!({}) }
    }
    pub fn machinery(e: impl Into<String>) -> Self {
        CaseResult { class: "machinery".into(), violations: vec![], machinery: Some(e.into()), stats: json!({}) }
    }
}

pub type CaseFn = fn(&Value) -> CaseResult;
pub type CasesFn = fn(&str) -> Vec<Value>;

fn viol_json(v: &Violation) -> Value {
    json!({"oracle": v.oracle, "what": v.what, "sig": v.sig, "case": v.case})
}
fn viol_from(v: &Value) -> Violation {
    let mut x = Violation::new(v["oracle"].as_str().unwrap_or("?"), v["what"].as_str().unwrap_or(""), v["case"].clone());
    if let Some(m) = v["sig"].as_object() {
        for (k, val) in m {
            x = x.sig(k, val.as_str().unwrap_or(""));
        }
    }
    x
}

fn canon_result(r: &CaseResult) -> String {
    let vs: Vec<String> = r.violations.iter().map(|v| format!("{}|{:?}|{}", v.oracle, v.sig, v.what)).collect();
    format!("{}#{}", r.class, vs.join(";"))
}

/// Entry point of a worker process: run the cases of one shard, one JSON line per case on stdout.
pub fn worker(property: &str, tier: &str, shard: usize, nshards: usize, cases: CasesFn, run: CaseFn) -> ! {
    crate::enet::set_shard(shard as u32);
    let isolated = crate::enet::isolate_network();
    let all = cases(tier);
    let out = std::io::stdout();
    let mut out = out.lock();
    writeln!(out, "{}", json!({"hello": true, "isolated": isolated, "total_cases": all.len()})).ok();
    let mut first = true;
    for (i, c) in all.iter().enumerate() {
        if i % nshards != shard {
            continue;
        }
        writeln!(out, "{}", json!({"start": i})).ok();
        out.flush().ok();
        let mut r = run(c);
        if r.machinery.is_some() {
            // one retry from scratch; a second failure is reported as machinery, never a verdict
            r = run(c);
        }
        // determinism self-test on the first few cases of every shard: same case twice, same observation
        let mut nondet = None;
        if first || i % (nshards * 97) == shard {
            first = false;
            let r2 = run(c);
            if r.machinery.is_none() && r2.machinery.is_none() && canon_result(&r) != canon_result(&r2) {
                nondet = Some(format!("non-deterministic execution of case {i}: '{}' vs '{}'", canon_result(&r), canon_result(&r2)));
            }
        }
        let line = json!({
            "idx": i,
            "class": r.class,
            "violations": r.violations.iter().map(viol_json).collect::<Vec<_>>(),
            "machinery": r.machinery.or(nondet),
            "stats": r.stats,
        });
        writeln!(out, "{}", line).ok();
    }
    let _ = property;
    let (f, w, pf) = crate::enet::fence_stats();
    writeln!(out, "{}", json!({"bye": true, "fences": f, "fence_waits": w, "pin_failed": pf})).ok();
    out.flush().ok();
    std::process::exit(0)
}

pub struct Aggregate {
    pub executions: u64,
    pub classes: std::collections::BTreeMap<String, u64>,
    pub samples: Vec<Value>,
    pub isolated_workers: usize,
    pub stats_sum: std::collections::BTreeMap<String, f64>,
    pub stats_max: std::collections::BTreeMap<String, f64>,
}

/// Parent side: spawn the workers, merge their results into the report.
pub fn run_sharded(rep: &mut Report, property: &str, tier: &str, cases: CasesFn, nshards: usize) -> Aggregate {
    let exe = std::env::current_exe().expect("current_exe");
    let all = cases(tier);
    let nshards = nshards.min(all.len().max(1));
    let mut children = vec![];
    for s in 0..nshards {
        let child = Command::new(&exe)
            .args([property, "worker", tier, &s.to_string(), &nshards.to_string()])
            .stdin(Stdio::null())
            .stdout(Stdio::piped())
            .stderr(Stdio::inherit())
            .spawn();
        match child {
            Ok(c) => children.push(c),
            Err(e) => rep.machinery_error(format!("cannot spawn worker {s}: {e}")),
        }
    }
    let mut agg = Aggregate { executions: 0, classes: Default::default(), samples: vec![], isolated_workers: 0, stats_sum: Default::default(), stats_max: Default::default() };
    let mut seen = vec![false; all.len()];
    let (mut fences, mut fence_waits, mut pin_failed) = (0u64, 0u64, false);
    let handles: Vec<_> = children
        .into_iter()
        .map(|mut c| {
            let out = c.stdout.take().unwrap();
            std::thread::spawn(move || {
                let mut lines = vec![];
                for l in BufReader::new(out).lines().map_while(Result::ok) {
                    lines.push(l);
                }
                let st = c.wait();
                (lines, st)
            })
        })
        .collect();
    for (s, h) in handles.into_iter().enumerate() {
        let (lines, st) = h.join().expect("worker reader thread");
        let mut last_started: Option<usize> = None;
        let clean = matches!(&st, Ok(x) if x.success());
        if !clean && !rep.worker_death_is_violation {
            rep.machinery_error(format!("worker {s} did not exit cleanly: {:?} (an engine crash is a machinery failure, not a verdict)", st));
        }
        for l in lines.iter() {
            if let Ok(v) = serde_json::from_str::<Value>(l) {
                if let Some(i) = v["start"].as_u64() {
                    last_started = Some(i as usize);
                }
            }
        }
        if !clean && rep.worker_death_is_violation {
            match last_started {
                Some(i) if i < all.len() => {
                    seen[i] = true;
                    // later cases of this shard were never run: not a verdict about them, and not missing either
                    for (j, sj) in seen.iter_mut().enumerate() {
                        if j % nshards == s && j > i {
                            *sj = true;
                        }
                    }
                    rep.violation(Violation::new("abort", format!("the process running the live service died while serving this case: {:?}", st), all[i].clone()).sig("how", "abort").sig("part", "live"));
                }
                _ => rep.machinery_error(format!("worker {s} died before starting a case: {:?}", st)),
            }
        }
        for l in lines {
            let v: Value = match serde_json::from_str(&l) {
                Ok(v) => v,
                Err(_) => continue,
            };
            if v["hello"].as_bool() == Some(true) {
                if v["isolated"].as_bool() == Some(true) {
                    agg.isolated_workers += 1;
                }
                continue;
            }
            if v.get("start").is_some() {
                continue;
            }
            if v["bye"].as_bool() == Some(true) {
                fences += v["fences"].as_u64().unwrap_or(0);
                fence_waits += v["fence_waits"].as_u64().unwrap_or(0);
                pin_failed |= v["pin_failed"].as_bool().unwrap_or(false);
                continue;
            }
            let idx = v["idx"].as_u64().unwrap_or(u64::MAX) as usize;
            if idx < seen.len() {
                seen[idx] = true;
            }
            agg.executions += 1;
            *agg.classes.entry(v["class"].as_str().unwrap_or("?").to_string()).or_insert(0) += 1;
            if let Some(m) = v["machinery"].as_str() {
                rep.machinery_error(format!("case {idx}: {m}"));
            }
            for x in v["violations"].as_array().cloned().unwrap_or_default() {
                rep.violation(viol_from(&x));
            }
            if let Some(st) = v["stats"].as_object() {
                for (k, val) in st {
                    if let Some(f) = val.as_f64() {
                        *agg.stats_sum.entry(k.clone()).or_insert(0.0) += f;
                        let e = agg.stats_max.entry(k.clone()).or_insert(f);
                        if f > *e {
                            *e = f;
                        }
                    }
                }
            }
            if idx < all.len() && (agg.samples.len() < 5) && idx % (all.len() / 5 + 1) == 0 {
                agg.samples.push(json!({"case": all[idx], "outcome": v["class"]}));
            }
        }
    }
    rep.cov("loopback_fences", fences);
    rep.cov("loopback_fences_that_waited_for_deferred_delivery", fence_waits);
    if pin_failed {
        rep.assume("CPU pinning was refused by the kernel: the loopback fence then relies on the scheduler not migrating the worker between a send and its fence");
    }
    rep.assume("kernel loopback delivery is ordered by a per-round FIFO fence on a pinned CPU and pending TCP ACKs are flushed at every fence (DESIGN.md section 3); no wall-clock value enters a verdict");
    let missing = seen.iter().filter(|x| !**x).count();
    if missing > 0 {
        rep.machinery_error(format!("{missing} of {} cases produced no result", all.len()));
    }
    agg
}

/// Convenience used by replay mode: run one case in this process.
pub fn replay_one(rep: &mut Report, case: &Value, run: CaseFn) {
    crate::enet::set_shard(31);
    crate::common::panics::set_quiet(false);
    let r = run(case);
    if let Some(m) = r.machinery {
        rep.machinery_error(m);
    }
    eprintln!("  outcome class: {}", r.class);
    for v in r.violations {
        rep.violation(v);
    }
}
