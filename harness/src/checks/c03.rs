//! C03: answers relayed to clients are faithful to what the upstream said.
//! E-NET, fault-free executions, one query each, against the live service.
use crate::common::report::{Report, Violation};
use crate::enet::{BASE_YAML, Rig, RigSpec, TcpClient, UdpClient};
use crate::netrun::{self, CaseResult};
use crate::refdns::{self as rd, Msg, Rdata, Rr};
use serde_json::{Value, json};
use std::net::IpAddr;

pub fn record_alphabet(q: &rd::Name) -> Vec<Rr> {
    vec![
        Rr { name: q.clone(), rtype: rd::T_A, class: 1, ttl: 300, rdata: Rdata::Raw(vec![192, 0, 2, 1]) },
        Rr { name: q.clone(), rtype: rd::T_CNAME, class: 1, ttl: 60, rdata: Rdata::Name(rd::name("target.example.com")) },
        Rr { name: rd::name("other.example.net"), rtype: rd::T_MX, class: 1, ttl: 3600, rdata: Rdata::PrefName(10, rd::name("mx.other.example.net")) },
        Rr { name: rd::name("example.com"), rtype: rd::T_SOA, class: 1, ttl: 86400, rdata: Rdata::Soa(rd::name("ns1.example.com"), rd::name("hostmaster.example.com"), [2024010101, 7200, 3600, 1209600, 3600]) },
        Rr { name: q.clone(), rtype: 65280, class: 1, ttl: 1, rdata: Rdata::Raw(vec![0, 0xff, 0xc0, 0x0c, 0x00]) },
        Rr { name: rd::name("second.example.com"), rtype: rd::T_A, class: 1, ttl: 0xffff_ffff, rdata: Rdata::Raw(vec![198, 51, 100, 7]) },
        // names whose suffix was first written *inside* the rdata of an earlier record (SOA RNAME,
        // MX exchange, CNAME target): the usual glue / follow-up records
        Rr { name: rd::name("www.hostmaster.example.com"), rtype: rd::T_A, class: 1, ttl: 30, rdata: Rdata::Raw(vec![203, 0, 113, 1]) },
        Rr { name: rd::name("mx.other.example.net"), rtype: rd::T_A, class: 1, ttl: 31, rdata: Rdata::Raw(vec![203, 0, 113, 2]) },
        Rr { name: rd::name("target.example.com"), rtype: rd::T_NS, class: 1, ttl: 32, rdata: Rdata::Name(rd::name("ns.hostmaster.example.com")) },
    ]
}

fn lists(max: usize, n: usize) -> Vec<Vec<usize>> {
    let mut out = vec![vec![]];
    for a in 0..n {
        out.push(vec![a]);
        if max >= 2 {
            for b in 0..n {
                out.push(vec![a, b]);
            }
        }
    }
    out
}

pub fn cases(tier: &str) -> Vec<Value> {
    let thorough = tier == "thorough";
    let mut out = vec![];
    let names = ["www.example.com", "WwW.ExAmPlE.cOm", "a.b.c.d.example.org"];
    let types = [1u16, 28, 15, 16, 65280];
    let classes = [1u16, 3];
    let edns = ["none", "plain", "do", "nsid", "cookie"];
    let flags = ["rd", "rd+cd", "rd+ad"];
    let fixed_replies: Vec<Value> = vec![
        json!({"rcode": 0, "an": [0], "ns": [], "ar": [], "compress": true, "opt": true}),
        json!({"rcode": 0, "an": [1, 0], "ns": [3], "ar": [5], "compress": true, "opt": false}),
        json!({"rcode": 3, "an": [], "ns": [3], "ar": [], "compress": false, "opt": true}),
        json!({"rcode": 2, "an": [], "ns": [], "ar": [], "compress": true, "opt": false}),
        json!({"rcode": 0, "an": [], "ns": [2, 3], "ar": [4, 0], "compress": true, "opt": true}),
        json!({"rcode": 23, "an": [], "ns": [], "ar": [], "compress": true, "opt": true}),
        json!({"rcode": 0, "an": [1, 8], "ns": [3, 6], "ar": [2, 7], "compress": true, "opt": true}),
        json!({"rcode": 0, "an": [0], "ns": [3], "ar": [2, 7, 4], "compress": true, "opt": true, "opt_pos": "first"}),
        json!({"rcode": 0, "an": [0], "ns": [3], "ar": [4, 2, 7], "compress": true, "opt": true, "opt_pos": "middle"}),
    ];
    // (a) every query shape x fixed replies
    let nrep = if thorough { fixed_replies.len() } else { 2 };
    for n in names {
        for t in types {
            for c in classes {
                for e in edns {
                    for f in flags {
                        for tr in ["udp", "tcp"] {
                            for r in fixed_replies.iter().take(nrep) {
                                out.push(json!({"engine":"enet","check":"c03","q":{"name":n,"type":t,"class":c,"edns":e,"flags":f,"transport":tr},"r":r}));
                            }
                        }
                    }
                }
            }
        }
    }
    // (b) fixed queries x every reply shape (one section varied fully, the others in {[],[fixed]})
    let queries: Vec<Value> = if thorough {
        vec![
            json!({"name":"www.example.com","type":1,"class":1,"edns":"plain","flags":"rd","transport":"udp"}),
            json!({"name":"www.example.com","type":1,"class":1,"edns":"none","flags":"rd","transport":"udp"}),
            json!({"name":"www.example.com","type":15,"class":1,"edns":"plain","flags":"rd","transport":"tcp"}),
            json!({"name":"www.example.com","type":1,"class":3,"edns":"none","flags":"rd","transport":"tcp"}),
        ]
    } else {
        vec![json!({"name":"www.example.com","type":1,"class":1,"edns":"plain","flags":"rd","transport":"udp"}), json!({"name":"www.example.com","type":15,"class":1,"edns":"none","flags":"rd","transport":"tcp"})]
    };
    let rcodes: Vec<u16> = if thorough { vec![0, 2, 3, 5, 23] } else { vec![0, 3] };
    let full = lists(2, 9);
    let small: Vec<Vec<usize>> = vec![vec![], vec![2]];
    for q in &queries {
        for rc in &rcodes {
            for varied in 0..3 {
                for l in &full {
                    for o1 in &small {
                        for o2 in &small {
                            for compress in if thorough { vec![true, false] } else { vec![true] } {
                                for opt in if thorough { vec![true, false] } else { vec![true] } {
                                    if *rc > 15 && !opt {
                                        continue;
                                    }
                                    let (an, ns, ar) = match varied {
                                        0 => (l, o1, o2),
                                        1 => (o1, l, o2),
                                        _ => (o1, o2, l),
                                    };
                                    out.push(json!({"engine":"enet","check":"c03","q":q,"r":{"rcode":rc,"an":an,"ns":ns,"ar":ar,"compress":compress,"opt":opt}}));
                                    // RFC 6891 lets the OPT record sit anywhere in the additional section
                                    if opt && !ar.is_empty() {
                                        for pos in ["first", "middle"] {
                                            if pos == "middle" && ar.len() < 2 {
                                                continue;
                                            }
                                            out.push(json!({"engine":"enet","check":"c03","q":q,"r":{"rcode":rc,"an":an,"ns":ns,"ar":ar,"compress":compress,"opt":opt,"opt_pos":pos}}));
                                        }
                                    }
                                }
                            }
                        }
                    }
                }
            }
        }
    }
    // (c) two exchanges on one service: the second question differs from the first in exactly one
    // component (class, type, name, CD, DO, transport) and its upstream answer is a different one.
    // What the second client gets must be what the upstream said to ITS question -- or, if the
    // upstream was not asked at all, the first answer, and only for the identical question.
    let base = json!({"name":"www.example.com","type":1,"class":1,"edns":"plain","flags":"rd","transport":"udp"});
    let r1 = json!({"rcode": 0, "an": [0], "ns": [], "ar": [], "compress": true, "opt": true});
    let r2 = json!({"rcode": 3, "an": [], "ns": [3], "ar": [], "compress": true, "opt": true});
    let vary: Vec<(&str, Value)> = vec![
        ("same", json!({})),
        ("class-ch", json!({"class": 3})),
        ("class-hs", json!({"class": 4})),
        ("class-any", json!({"class": 255})),
        ("type-aaaa", json!({"type": 28})),
        ("type-mx", json!({"type": 15})),
        ("name", json!({"name": "w2.example.com"})),
        ("name-parent", json!({"name": "example.com"})),
        ("cd", json!({"flags": "rd+cd"})),
        ("do", json!({"edns": "do"})),
        // EDNS present-but-plain vs absent is the same question (DO clear either way): a cache hit is fine
        ("no-edns", json!({"edns": "none"})),
    ];
    for (vn, v) in &vary {
        for tr2 in ["udp", "tcp"] {
            for swap in [false, true] {
                let mut q2 = base.clone();
                for (k, val) in v.as_object().unwrap() {
                    q2[k] = val.clone();
                }
                q2["transport"] = json!(tr2);
                let (qa, qb) = if swap { (q2.clone(), base.clone()) } else { (base.clone(), q2.clone()) };
                out.push(json!({"engine":"enet","check":"c03","kind":"pair","vary":vn,"same_question": *vn == "same" || *vn == "no-edns","q1":qa,"r1":r1,"q2":qb,"r2":r2}));
            }
        }
    }
    // (e) the response code: every value of the 12-bit code (quick: 0..=23 and the boundary values
    // of the upper 8 bits, which travel in the OPT record) x the client's EDNS use x transport.
    // A client that sent no OPT must still be told what the upstream said.
    let rc_all: Vec<u16> = if thorough { (0..4096).collect() } else { (0..=23).chain([32, 255, 256, 0x7f0, 0x800, 0xff0, 0xfff]).collect() };
    for rc in rc_all {
        for e in ["none", "plain", "do"] {
            for tr in ["udp", "tcp"] {
                for (an, ns) in [(vec![], vec![]), (vec![0], vec![3])] {
                    if thorough && rc > 23 && (e == "do" || !an.is_empty()) && rc % 16 != 0 && rc % 16 != 15 {
                        continue;
                    }
                    out.push(json!({"engine":"enet","check":"c03","q":{"name":"www.example.com","type":1,"class":1,"edns":e,"flags":"rd","transport":tr},"r":{"rcode":rc,"an":an,"ns":ns,"ar":[],"compress":true,"opt":true}}));
                }
            }
        }
    }
    // (g) records of types the forwarder gives no meaning to are relayed octet for octet
    for t in [0u16, 3, 4, 7, 8, 9, 10, 11, 13, 14, 16, 19, 20, 22, 24, 25, 26, 29, 33, 36, 37, 39, 42, 43, 44, 45, 46, 47, 48, 50, 51, 52, 55, 59, 60, 61, 64, 65, 99, 108, 109, 249, 250, 251, 256, 257, 32768, 32769, 65280, 65534, 65535] {
        for shape in 0..3u64 {
            for tr in ["udp", "tcp"] {
                if t == 0 || t == 249 || t == 250 || t == 251 {
                    // TKEY/TSIG/IXFR and type 0 are meta types: not record data an upstream sends in these sections
                    continue;
                }
                out.push(json!({"engine":"enet","check":"c03","q":{"name":"opaque.example.com","type":t,"class":1,"edns":"plain","flags":"rd","transport":tr},"r":{"rcode":0,"an":[],"ns":[],"ar":[],"compress":true,"opt":true,"opaque":[t, shape]}}));
            }
        }
    }
    // (f) answers larger than what the client accepts over UDP (512 octets without EDNS, or what it
    // advertised), with the cut falling in the answer, the authority and the additional section:
    // unless the reply is marked truncated, nothing may be missing
    for e in ["none", "size:600", "plain"] {
        for tr in ["udp", "tcp"] {
            for bulk in [[40usize, 0, 0], [2, 24, 0], [1, 13, 13], [1, 8, 30], [0, 0, 40], [1, 0, 30], [12, 12, 12]] {
                out.push(json!({"engine":"enet","check":"c03","q":{"name":"www.example.org","type":2,"class":1,"edns":e,"flags":"rd","transport":tr},"r":{"rcode":0,"an":[],"ns":[],"ar":[],"compress":true,"opt":true,"bulk":bulk}}));
            }
        }
    }
    // (d) the same question asked three times with time passing in between, the upstream's TTL
    // changing from reply to reply: whatever the client gets -- relayed or from the cache -- is the
    // most recent upstream reply with its TTLs reduced by exactly the whole seconds since THAT reply
    // arrived (not since some earlier one)
    for t1 in [2u32, 300] {
        for t2 in [2u32, 300] {
            for t3 in [2u32, 300] {
                for d1 in [1000u64, 3000] {
                    for d2 in [1000u64, 3000] {
                        for tr in ["udp", "tcp"] {
                            let mut q = base.clone();
                            q["transport"] = json!(tr);
                            out.push(json!({"engine":"enet","check":"c03","kind":"refill","q":q,"ttls":[t1, t2, t3],"gaps_ms":[0, d1, d2]}));
                        }
                    }
                }
            }
        }
    }
    out
}

pub fn build_query(q: &Value, id: u16) -> (Msg, Vec<u8>) {
    let name = rd::name(q["name"].as_str().unwrap_or("x"));
    let opt = match q["edns"].as_str().unwrap_or("none") {
        "none" => None,
        "plain" => Some(rd::opt_rr(1232, 0, 0, false, vec![])),
        "do" => Some(rd::opt_rr(4096, 0, 0, true, vec![])),
        "nsid" => Some(rd::opt_rr(1232, 0, 0, false, vec![(3, vec![])])),
        "cookie" => Some(rd::opt_rr(1232, 0, 0, false, vec![(10, vec![1, 2, 3, 4, 5, 6, 7, 8])])),
        n => {
            // "size:N" advertised size
            let sz: u16 = n.strip_prefix("size:").and_then(|s| s.parse().ok()).unwrap_or(1232);
            Some(rd::opt_rr(sz, 0, 0, false, vec![]))
        }
    };
    let mut m = rd::query(id, &name, q["type"].as_u64().unwrap_or(1) as u16, q["class"].as_u64().unwrap_or(1) as u16, true, opt);
    match q["flags"].as_str().unwrap_or("rd") {
        "rd+cd" => m.flags |= 0x0010,
        "rd+ad" => m.flags |= 0x0020,
        "none" => m.flags = 0,
        _ => {}
    }
    let b = rd::encode(&m, false);
    (m, b)
}

/// Build the upstream's reply to `oq` (the query erbium sent upstream) from a reply descriptor.
pub fn build_reply(r: &Value, oq: &Msg) -> Msg {
    let qname = oq.question[0].0.clone();
    let alpha = record_alphabet(&qname);
    let ttl_override = r["ttl_override"].as_u64().map(|t| t as u32);
    let pick = |k: &str| -> Vec<Rr> {
        r[k].as_array()
            .map(|a| {
                a.iter()
                    .filter_map(|i| i.as_u64())
                    .map(|i| {
                        let mut rr = alpha[i as usize].clone();
                        if let Some(t) = ttl_override {
                            rr.ttl = t;
                        }
                        rr
                    })
                    .collect()
            })
            .unwrap_or_default()
    };
    let rcode = r["rcode"].as_u64().unwrap_or(0) as u16;
    let mut additional = pick("ar");
    let mut answer = pick("an");
    let mut authority = pick("ns");
    // opaque: [type, shape] -- one record of a type the forwarder gives no meaning to, whose data
    // merely LOOKS like something (a compression pointer, a name), in the answer and additional section
    if let Some(o) = r["opaque"].as_array() {
        let t = o[0].as_u64().unwrap_or(99) as u16;
        let data: Vec<u8> = match o[1].as_u64().unwrap_or(0) {
            0 => vec![0xc0, 0x0c],
            1 => vec![0, 1, 0, 1, 3, b'w', b'w', b'w', 0xc0, 0x0c],
            _ => vec![],
        };
        answer.push(Rr { name: qname.clone(), rtype: t, class: 1, ttl: 120, rdata: rd::Rdata::Raw(data.clone()) });
        additional.push(Rr { name: qname.clone(), rtype: t, class: 1, ttl: 120, rdata: rd::Rdata::Raw(data) });
    }
    // bulk: [a, n, g] further records -- a address records for the question name, n NS records for
    // its parent naming ns<i>.glue.<parent>, g address ("glue") records for those names
    if let Some(b) = r["bulk"].as_array() {
        let (a, n, g) = (b[0].as_u64().unwrap_or(0) as usize, b[1].as_u64().unwrap_or(0) as usize, b[2].as_u64().unwrap_or(0) as usize);
        let parent: rd::Name = if qname.len() > 1 { qname[1..].to_vec() } else { qname.clone() };
        let nsname = |i: usize| -> rd::Name {
            let mut v = vec![format!("ns{i}").into_bytes(), b"glue".to_vec()];
            v.extend(parent.iter().cloned());
            v
        };
        for i in 0..a {
            answer.push(Rr { name: qname.clone(), rtype: rd::T_A, class: 1, ttl: 300, rdata: rd::Rdata::Raw(vec![10, 1, (i >> 8) as u8, i as u8]) });
        }
        for i in 0..n {
            authority.push(Rr { name: parent.clone(), rtype: rd::T_NS, class: 1, ttl: 300, rdata: rd::Rdata::Name(nsname(i)) });
        }
        for i in 0..g {
            additional.push(Rr { name: nsname(i), rtype: rd::T_A, class: 1, ttl: 300, rdata: rd::Rdata::Raw(vec![10, 2, (i >> 8) as u8, i as u8]) });
        }
    }
    if r["opt"].as_bool().unwrap_or(false) {
        let o = rd::opt_rr(1232, (rcode >> 4) as u8, 0, false, vec![]);
        match r["opt_pos"].as_str() {
            Some("first") => additional.insert(0, o),
            Some("middle") if !additional.is_empty() => additional.insert(1, o),
            _ => additional.push(o),
        }
    }
    Msg { id: oq.id, flags: 0x8180 | (rcode & 0xf), question: oq.question.clone(), answer, authority, additional }
}

pub struct Exchange {
    pub client_reply: Option<Vec<u8>>,
    pub reply_from: Option<std::net::SocketAddr>,
    pub upstream_query: Option<Msg>,
    pub upstream_reply: Option<Msg>,
}

/// One fault-free exchange on a running rig: client query -> upstream -> reply -> client.
pub fn exchange(rig: &mut Rig, q: &Value, r: &Value, id: u16, client_ip: IpAddr, listener: usize) -> Result<Exchange, String> {
    let (_qm, qb) = build_query(q, id);
    let dst = rig.listen_addr(listener);
    let tcp = q["transport"].as_str() == Some("tcp");
    let mut uc = None;
    let mut tc = None;
    if tcp {
        let mut c = TcpClient::connect(Some(client_ip), dst)?;
        c.conn.send_frame(&qb)?;
        tc = Some(c);
    } else {
        let c = UdpClient::new(client_ip)?;
        c.send(dst, &qb)?;
        uc = Some(c);
    }
    // the upstream must see the forwarded query (UDP for UDP clients, TCP for TCP clients)
    let before_udp = rig.upstreams[0].udp_rx.len();
    let before_tcp = rig.upstreams[0].tcp_frames_total();
    rig.wait_until(|r| r.upstreams[0].udp_rx.len() > before_udp || r.upstreams[0].tcp_frames_total() > before_tcp, "upstream receives the forwarded query")?;
    let (oqb, via_udp, src) = if rig.upstreams[0].udp_rx.len() > before_udp {
        let (b, s) = rig.upstreams[0].udp_rx[before_udp].clone();
        (b, true, Some(s))
    } else {
        let c = rig.upstreams[0].conns.iter().rev().find(|c| !c.frames_in.is_empty()).ok_or("no tcp frame")?;
        (c.frames_in.last().unwrap().clone(), false, None)
    };
    let (oq, _) = rd::decode(&oqb).map_err(|e| format!("query sent upstream is malformed: {e}"))?;
    let reply = build_reply(r, &oq);
    let rb = rd::encode(&reply, r["compress"].as_bool().unwrap_or(true));
    if via_udp {
        rig.upstreams[0].udp_reply(src.unwrap(), &rb)?;
    } else {
        let c = rig.upstreams[0].conns.iter_mut().rev().find(|c| !c.frames_in.is_empty()).unwrap();
        c.send_frame(&rb)?;
    }
    let mut got: Option<(Vec<u8>, Option<std::net::SocketAddr>)> = None;
    let _ = rig.wait_until(
        |_r| {
            if let Some(c) = uc.as_mut() {
                c.poll();
                if let Some((b, f)) = c.rx.first() {
                    got = Some((b.clone(), Some(*f)));
                    return true;
                }
            }
            if let Some(c) = tc.as_mut() {
                c.poll();
                if let Some(b) = c.conn.frames_in.first() {
                    got = Some((b.clone(), None));
                    return true;
                }
                if c.conn.eof {
                    return true;
                }
            }
            false
        },
        "client receives the reply",
    );
    Ok(Exchange { client_reply: got.as_ref().map(|g| g.0.clone()), reply_from: got.and_then(|g| g.1), upstream_query: Some(oq), upstream_reply: Some(reply) })
}

/// The faithfulness oracle.
pub fn judge_faithful(qb_msg: &Msg, upstream: &Msg, client_bytes: &[u8], ttl_minus: u32) -> Vec<(&'static str, String)> {
    let mut out = vec![];
    let (m, _) = match rd::decode(client_bytes) {
        Ok(x) => x,
        Err(e) => return vec![("malformed-reply", format!("reply to the client is not well-formed: {e}"))],
    };
    if m.id != qb_msg.id {
        out.push(("id", format!("reply id {:#06x}, query id {:#06x}", m.id, qb_msg.id)));
    }
    if m.question != qb_msg.question {
        out.push(("question", format!("reply question {:?} differs from the client's {:?}", m.question, qb_msg.question)));
    }
    if !m.qr() {
        out.push(("qr", "QR bit clear in the reply".into()));
    }
    if m.rcode() != upstream.rcode() {
        out.push(("rcode", format!("reply rcode {} but upstream said {}", m.rcode(), upstream.rcode())));
    }
    let age = |v: &Vec<Rr>| -> Vec<Rr> { v.iter().filter(|r| r.rtype != rd::T_OPT).map(|r| Rr { ttl: r.ttl.wrapping_sub(ttl_minus), ..r.clone() }).collect() };
    let strip = |v: &Vec<Rr>| -> Vec<Rr> { v.iter().filter(|r| r.rtype != rd::T_OPT).cloned().collect() };
    // A reply marked truncated may lack records from the end (how many is C04's subject); whatever
    // it carries is still the upstream's, in order: every section a prefix of the upstream's, and
    // nothing after the first section that was cut.  A reply NOT marked truncated carries everything.
    let mut cut = false;
    for (name, oracle, got, want) in [
        ("answer", "answer-section", strip(&m.answer), age(&upstream.answer)),
        ("authority", "authority-section", strip(&m.authority), age(&upstream.authority)),
        ("additional", "additional-section", strip(&m.additional), age(&upstream.additional)),
    ] {
        if m.tc() {
            let ok = if cut { got.is_empty() } else { got.len() <= want.len() && got[..] == want[..got.len()] };
            if got.len() < want.len() {
                cut = true;
            }
            if ok {
                continue;
            }
        }
        if got != want {
            out.push((oracle, format!("{name} section differs: client got {} record(s) {:?}, upstream sent {} record(s) {:?}", got.len(), got.iter().map(|r| (rd::name_str(&r.name), r.rtype, r.ttl)).collect::<Vec<_>>(), want.len(), want.iter().map(|r| (rd::name_str(&r.name), r.rtype, r.ttl)).collect::<Vec<_>>())));
        }
    }
    out
}

/// Two exchanges on one service (see `cases`, part c).
fn run_pair(case: &Value) -> CaseResult {
    let spec = RigSpec { listeners: vec!["::1".into()], n_upstreams: 1, yaml: BASE_YAML.into() };
    let mut rig = match Rig::start(&spec) {
        Ok(r) => r,
        Err(e) => return CaseResult::machinery(e),
    };
    let cip: IpAddr = "::1".parse().unwrap();
    let mut res = CaseResult::ok("");
    let vn = case["vary"].as_str().unwrap_or("");
    let ex1 = match exchange(&mut rig, &case["q1"], &case["r1"], 0x5a5a, cip, 0) {
        Ok(e) => e,
        Err(e) => {
            let ps = rig.stop();
            if let Some(p) = ps.first() {
                res.violations.push(Violation::new("no-reply-after-panic", format!("first exchange: service task panicked: {} at {}", p.msg, crate::common::panics::short_loc(&p.loc)), case.clone()));
                return res;
            }
            return CaseResult::machinery(format!("first exchange: {e}"));
        }
    };
    let up1 = ex1.upstream_reply.clone().unwrap();
    // second exchange: the upstream may or may not be asked
    let id2 = 0x6b6b;
    let (q2m, q2b) = build_query(&case["q2"], id2);
    let dst = rig.listen_addr(0);
    let tcp = case["q2"]["transport"].as_str() == Some("tcp");
    let mut uc = None;
    let mut tc = None;
    let sent = if tcp {
        TcpClient::connect(Some(cip), dst).and_then(|mut c| {
            c.conn.send_frame(&q2b)?;
            tc = Some(c);
            Ok(())
        })
    } else {
        UdpClient::new(cip).and_then(|c| {
            c.send(dst, &q2b)?;
            uc = Some(c);
            Ok(())
        })
    };
    if let Err(e) = sent {
        let _ = rig.stop();
        return CaseResult::machinery(e);
    }
    let before_udp = rig.upstreams[0].udp_rx.len();
    let before_tcp = rig.upstreams[0].tcp_frames_total();
    let mut got: Option<Vec<u8>> = None;
    let mut poll_client = |got: &mut Option<Vec<u8>>| -> bool {
        if let Some(c) = uc.as_mut() {
            c.poll();
            if let Some((b, _)) = c.rx.first() {
                *got = Some(b.clone());
                return true;
            }
        }
        if let Some(c) = tc.as_mut() {
            c.poll();
            if let Some(b) = c.conn.frames_in.first() {
                *got = Some(b.clone());
                return true;
            }
        }
        false
    };
    let _ = rig.wait_until(|r| r.upstreams[0].udp_rx.len() > before_udp || r.upstreams[0].tcp_frames_total() > before_tcp || poll_client(&mut got), "second query is forwarded or answered");
    let asked = rig.upstreams[0].udp_rx.len() > before_udp || rig.upstreams[0].tcp_frames_total() > before_tcp;
    let mut up2: Option<Msg> = None;
    if asked {
        // answer it with r2
        let (oqb, via_udp, src) = if rig.upstreams[0].udp_rx.len() > before_udp {
            let (b, s) = rig.upstreams[0].udp_rx[before_udp].clone();
            (b, true, Some(s))
        } else {
            let c = rig.upstreams[0].conns.iter().rev().find(|c| !c.frames_in.is_empty()).unwrap();
            (c.frames_in.last().unwrap().clone(), false, None)
        };
        match rd::decode(&oqb) {
            Ok((oq, _)) => {
                if oq.question != q2m.question {
                    res.violations.push(Violation::new("forwarded-question", format!("the question put to the upstream {:?} is not the client's {:?}", oq.question, q2m.question), case.clone()).sig("vary", vn));
                }
                let reply = build_reply(&case["r2"], &oq);
                let rb = rd::encode(&reply, true);
                let _ = if via_udp { rig.upstreams[0].udp_reply(src.unwrap(), &rb) } else { rig.upstreams[0].conns.iter_mut().rev().find(|c| !c.frames_in.is_empty()).unwrap().send_frame(&rb) };
                up2 = Some(reply);
            }
            Err(e) => res.violations.push(Violation::new("upstream-query-malformed", format!("second query sent upstream is malformed: {e}"), case.clone())),
        }
        let _ = rig.wait_until(|_r| poll_client(&mut got), "second client receives the reply");
    }
    let ps = rig.stop();
    res.class = format!("pair:{vn}:{}", if asked { "forwarded" } else { "not-forwarded" });
    let Some(bytes) = got else {
        let extra = ps.first().map(|p| format!(" (service task panicked: {} at {})", p.msg, crate::common::panics::short_loc(&p.loc))).unwrap_or_default();
        res.violations.push(Violation::new("no-reply", format!("the second client received no reply{extra}"), case.clone()).sig("vary", vn));
        return res;
    };
    if asked {
        if let Some(up2) = up2 {
            for (oracle, what) in judge_faithful(&q2m, &up2, &bytes, 0) {
                res.violations.push(Violation::new(oracle, format!("second exchange ({vn}): {what}"), case.clone()).sig("oracle", oracle).sig("vary", vn));
            }
        }
    } else if case["same_question"].as_bool() == Some(true) {
        // answered from the first exchange: must be that answer (no time has passed)
        for (oracle, what) in judge_faithful(&q2m, &up1, &bytes, 0) {
            res.violations.push(Violation::new(oracle, format!("second, identical question answered without asking the upstream: {what}"), case.clone()).sig("oracle", oracle).sig("vary", vn));
        }
    } else {
        let (m, _) = rd::decode(&bytes).unwrap_or((Msg { id: 0, flags: 0, question: vec![], answer: vec![], authority: vec![], additional: vec![] }, Default::default()));
        res.violations.push(
            Violation::new("answered-without-asking", format!("the second question differs from the first in '{vn}' but was never put to the upstream; the client got rcode {} with {} answer record(s) -- not what any upstream said to this question", m.rcode(), m.answer.len()), case.clone()).sig("vary", vn),
        );
    }
    res
}

/// The same question several times, time passing, upstream TTLs changing (see `cases`, part d).
fn run_refill(case: &Value) -> CaseResult {
    let spec = RigSpec { listeners: vec!["::1".into()], n_upstreams: 1, yaml: BASE_YAML.into() };
    let mut rig = match Rig::start(&spec) {
        Ok(r) => r,
        Err(e) => return CaseResult::machinery(e),
    };
    let cip: IpAddr = "::1".parse().unwrap();
    let mut res = CaseResult::ok("");
    let ttls: Vec<u32> = case["ttls"].as_array().map(|a| a.iter().filter_map(|x| x.as_u64()).map(|x| x as u32).collect()).unwrap_or_default();
    let gaps: Vec<u64> = case["gaps_ms"].as_array().map(|a| a.iter().filter_map(|x| x.as_u64()).collect()).unwrap_or_default();
    let tcp = case["q"]["transport"].as_str() == Some("tcp");
    let dst = rig.listen_addr(0);
    let mut latest: Option<(Msg, std::time::Duration)> = None; // most recent upstream reply and when it was given
    let mut cls = String::new();
    for (k, ttl) in ttls.iter().enumerate() {
        if gaps.get(k).copied().unwrap_or(0) > 0 {
            rig.advance(std::time::Duration::from_millis(gaps[k]));
        }
        let id = 0x7100 + k as u16;
        let (qm, qb) = build_query(&case["q"], id);
        let mut uc = None;
        let mut tc = None;
        let sent = if tcp {
            TcpClient::connect(Some(cip), dst).and_then(|mut c| {
                c.conn.send_frame(&qb)?;
                tc = Some(c);
                Ok(())
            })
        } else {
            UdpClient::new(cip).and_then(|c| {
                c.send(dst, &qb)?;
                uc = Some(c);
                Ok(())
            })
        };
        if let Err(e) = sent {
            let _ = rig.stop();
            return CaseResult::machinery(e);
        }
        let before_udp = rig.upstreams[0].udp_rx.len();
        let before_tcp = rig.upstreams[0].tcp_frames_total();
        let mut got: Option<Vec<u8>> = None;
        let mut poll_client = |got: &mut Option<Vec<u8>>| -> bool {
            if let Some(c) = uc.as_mut() {
                c.poll();
                if let Some((b, _)) = c.rx.first() {
                    *got = Some(b.clone());
                    return true;
                }
            }
            if let Some(c) = tc.as_mut() {
                c.poll();
                if let Some(b) = c.conn.frames_in.first() {
                    *got = Some(b.clone());
                    return true;
                }
            }
            false
        };
        let _ = rig.wait_until(|r| r.upstreams[0].udp_rx.len() > before_udp || r.upstreams[0].tcp_frames_total() > before_tcp || poll_client(&mut got), "query is forwarded or answered");
        let asked = rig.upstreams[0].udp_rx.len() > before_udp || rig.upstreams[0].tcp_frames_total() > before_tcp;
        if asked {
            let (oqb, via_udp, src) = if rig.upstreams[0].udp_rx.len() > before_udp {
                let (b, s) = rig.upstreams[0].udp_rx[before_udp].clone();
                (b, true, Some(s))
            } else {
                let c = rig.upstreams[0].conns.iter().rev().find(|c| !c.frames_in.is_empty()).unwrap();
                (c.frames_in.last().unwrap().clone(), false, None)
            };
            if let Ok((oq, _)) = rd::decode(&oqb) {
                let r = json!({"rcode": 0, "an": [0], "ns": [], "ar": [], "compress": true, "opt": true, "ttl_override": ttl});
                let reply = build_reply(&r, &oq);
                let rb = rd::encode(&reply, true);
                let _ = if via_udp { rig.upstreams[0].udp_reply(src.unwrap(), &rb) } else { rig.upstreams[0].conns.iter_mut().rev().find(|c| !c.frames_in.is_empty()).unwrap().send_frame(&rb) };
                latest = Some((reply, rig.virt_elapsed));
            }
            let _ = rig.wait_until(|_r| poll_client(&mut got), "client receives the reply");
        }
        cls.push(if asked { 'F' } else { 'H' });
        let Some(bytes) = got else {
            res.violations.push(Violation::new("no-reply", format!("ask {k}: the client received no reply"), case.clone()));
            break;
        };
        let Some((up, at)) = &latest else {
            res.violations.push(Violation::new("answered-without-asking", format!("ask {k}: answered although the upstream was never asked"), case.clone()));
            break;
        };
        let age = (rig.virt_elapsed - *at).as_secs() as u32;
        for (oracle, what) in judge_faithful(&qm, up, &bytes, age) {
            res.violations.push(
                Violation::new(oracle, format!("ask {k} ({}): the most recent upstream reply (TTL {}) arrived {age} whole second(s) ago: {what}", if asked { "relayed" } else { "from the cache" }, up.answer.first().map(|r| r.ttl).unwrap_or(0)), case.clone())
                    .sig("oracle", oracle)
                    .sig("part", "refill"),
            );
        }
    }
    let ps = rig.stop();
    if let Some(p) = ps.first() {
        res.violations.push(Violation::new("no-reply-after-panic", format!("service task panicked: {} at {}", p.msg, crate::common::panics::short_loc(&p.loc)), case.clone()).sig("loc", crate::common::panics::short_loc(&p.loc)));
    }
    res.class = format!("refill:{cls}");
    res
}

pub fn run_case(case: &Value) -> CaseResult {
    if case["kind"].as_str() == Some("pair") {
        return run_pair(case);
    }
    if case["kind"].as_str() == Some("refill") {
        return run_refill(case);
    }
    let spec = RigSpec { listeners: vec!["::1".into()], n_upstreams: 1, yaml: BASE_YAML.into() };
    let mut rig = match Rig::start(&spec) {
        Ok(r) => r,
        Err(e) => return CaseResult::machinery(e),
    };
    let q = &case["q"];
    let r = &case["r"];
    let id = 0x5a5a;
    let ex = exchange(&mut rig, q, r, id, "::1".parse().unwrap(), 0);
    let panics = rig.stop();
    let mut res = CaseResult::ok("");
    let ex = match ex {
        Ok(e) => e,
        Err(e) => {
            if !panics.is_empty() {
                // a panic prevented the observation: report it as such (the no-panic clause itself is C05's)
                let p = &panics[0];
                res.class = "panic-prevented-observation".into();
                res.violations.push(Violation::new("no-reply-after-panic", format!("no faithful reply observable: service task panicked: {} at {}", p.msg, crate::common::panics::short_loc(&p.loc)), case.clone()).sig("loc", crate::common::panics::short_loc(&p.loc)));
                return res;
            }
            return CaseResult::machinery(e);
        }
    };
    let (qm, _) = build_query(q, id);
    let up = ex.upstream_reply.unwrap();
    let Some(bytes) = ex.client_reply else {
        if !panics.is_empty() {
            let p = &panics[0];
            res.class = "panic-prevented-observation".into();
            res.violations.push(Violation::new("no-reply-after-panic", format!("no reply observable: service task panicked: {} at {}", p.msg, crate::common::panics::short_loc(&p.loc)), case.clone()).sig("loc", crate::common::panics::short_loc(&p.loc)));
            return res;
        }
        if up.rcode() == 5 && q["transport"].as_str() == Some("udp") {
            // a relayed REFUSED over UDP is subject to the REFUSED rate limiter (C16's subject);
            // when nothing is sent C03 has nothing to judge
            res.class = "refused-udp-not-sent(rate-limiter)".into();
            return res;
        }
        res.class = "no-reply".into();
        res.violations.push(Violation::new("no-reply", "the client received no reply to judge (exactly-one-reply is C07's subject; reported here because it is unexpected for this fault-free exchange)".to_string(), case.clone()));
        return res;
    };
    let mism = judge_faithful(&qm, &up, &bytes, 0);
    res.class = format!("relayed:rcode{}:an{}:ns{}:ar{}:{}", up.rcode(), up.answer.len(), up.authority.len(), up.non_opt_additional().len(), q["transport"].as_str().unwrap_or(""));
    for (oracle, what) in mism {
        res.violations.push(Violation::new(oracle, what, case.clone()).sig("oracle", oracle));
    }
    res
}

pub fn run(tier: &str, replay: Option<Value>) -> ! {
    let mut rep = Report::new("C03", if replay.is_some() { "quick" } else { tier }, "exploration");
    if let Some(case) = replay {
        rep.replay_mode = true;
        let case = if case.get("case").is_some() { case["case"].clone() } else { case };
        netrun::replay_one(&mut rep, &case, run_case);
        rep.finish();
    }
    let agg = netrun::run_sharded(&mut rep, "C03", tier, cases, 16);
    rep.cov("evaluations", agg.executions);
    rep.cov("distinct_nontrivial", agg.classes.len() as u64);
    rep.cov("rule", "one fault-free exchange per execution on a fresh in-process DnsService ([::1] listener): (a) every query shape (3 names x 5 types x 2 classes x 5 EDNS x 3 flag sets x UDP/TCP) x fixed replies; (b) fixed queries x every reply shape (rcodes x one section over all record lists of length <=2 from a 9-record alphabet (incl. records whose names share a suffix first written inside an earlier record's rdata), the other sections in {[],[1]} x compression x OPT absent / last / first / in the middle of the additional section); (c) pairs of exchanges on one service whose second question differs from the first in one component (class x3, type x2 (QTYPE ANY is answered locally and therefore not part of this alphabet), name x2, CD, DO, EDNS, or nothing) x transport x order, the second answered differently upstream: the second client must get the upstream's answer to ITS question, or -- only for the identical question -- the first answer; (g) one record of each of 47 further types with opaque data that looks like a pointer / a name / nothing, in the answer and additional section x UDP/TCP: relayed octet for octet; (f) answers larger than the client accepts over UDP (cut in the answer / authority / additional section; 7 shapes x 3 advertised sizes x UDP/TCP): unless marked truncated nothing may be missing, and what a truncated reply carries is a prefix; (e) every response code (quick: 0..=23 and the boundary values of the upper 8 bits; thorough: all 4096) x client EDNS none/plain/DO x transport x empty / non-empty sections; (d) the same question asked three times with 1 s / 3 s in between while the upstream's TTL changes (2 s / 300 s per reply, all combinations): every answer is the most recent upstream reply with TTLs reduced by exactly the whole seconds since that reply. distinct = (rcode, section sizes, transport) classes");
    rep.cov("exhaustive", true);
    rep.cov("outcome_classes", serde_json::json!(agg.classes));
    rep.cov("workers_in_private_netns", agg.isolated_workers as u64);
    rep.cov("samples", agg.samples);
    rep.assume("await-granularity scheduling on one worker thread; harness I/O never awaited, clock only moved explicitly");
    rep.finish()
}

