//! C01, C09, C10, C13: one exact-state BFS over handle_pkt + SQLite, oracles per property.
use crate::common::report::{Report, Violation};
use crate::ehist::*;
use serde_json::{Value, json};

pub struct Tier {
    pub spec_cfgs: Vec<&'static str>,
    pub clients: usize,
    pub addrs: Vec<&'static str>,
    pub ticks: Vec<i64>,
    pub max_depth: u32,
    pub budget_s: f64,
    pub state_cap: usize,
    pub probe_depth: u32,
}

pub fn tier_for(property: &str, tier: &str) -> Tier {
    let thorough = tier == "thorough";
    // K6/K7 (policies that try to set lease time / server identifier) matter to C10 and C13
    // K8 (a pool whose textual range encloses foreign addresses) matters to C09's exhaustion clause
    let quick_cfgs = if property == "C10" || property == "C13" {
        vec!["K1", "K2", "K3", "K4", "K5", "K6", "K7"]
    } else if property == "C09" {
        vec!["K1", "K2", "K3", "K4", "K5", "K8", "K9"]
    } else {
        vec!["K1", "K2", "K3", "K4", "K5"]
    };
    if thorough {
        Tier {
            spec_cfgs: vec!["K1", "K2", "K3", "K4", "K5", "K6", "K7", "K8", "K9"],
            clients: 3,
            addrs: vec!["192.0.2.9", "192.0.2.10", "192.0.2.11", "198.51.100.10", "10.9.9.9"],
            ticks: vec![1, 150, 299, 300, 301, 30_000, 100_000],
            max_depth: 6,
            budget_s: 900.0,
            state_cap: 8_000_000,
            // (3 until round six: with nine configurations, five clients and nine roots the states
            // of depth 3 number in the hundreds of thousands, and 9 300 probes on each of them took
            // the thorough tier of C13 past two hours)
            probe_depth: 2,
        }
    } else {
        Tier {
            spec_cfgs: quick_cfgs,
            clients: 2,
            addrs: vec!["192.0.2.9", "192.0.2.10", "192.0.2.11", "198.51.100.10", "10.9.9.9"],
            ticks: vec![1, 150, 299, 300, 301, 30_000],
            max_depth: 4,
            budget_s: 30.0,
            state_cap: 1_500_000,
            probe_depth: 1,
        }
    }
}

pub fn run(property: &str, tier: &str, replay: Option<Value>) -> ! {
    let mut rep = Report::new(property, if replay.is_some() { "quick" } else { tier }, "model_checking");
    let cfgs = match all_cfgs() {
        Ok(c) => c,
        Err(e) => {
            rep.machinery_error(e);
            rep.finish()
        }
    };
    if let Some(case) = replay {
        rep.replay_mode = true;
        let case = if case.get("case").is_some() { case["case"].clone() } else { case };
        if case["engine"].as_str() == Some("ewire") {
            crate::enet::isolate_network();
            crate::netrun::replay_one(&mut rep, &case, crate::checks::c13wire::run_case);
            rep.finish();
        }
        match replay_case(&case, &cfgs) {
            Ok(found) => {
                for f in found {
                    if f.property == property {
                        rep.violation(f.v);
                    }
                }
            }
            Err(e) => rep.machinery_error(format!("replay: {e}")),
        }
        rep.finish();
    }
    let t = tier_for(property, tier);
    let alpha = build_alphabet(&cfgs, &AlphabetSpec { rfc4361_clients: property == "C01" || tier == "thorough", cfgs: &t.spec_cfgs, clients: t.clients, addrs: &t.addrs, ticks: &t.ticks });
    if let Err(e) = self_test(&cfgs, &alpha) {
        rep.machinery_error(format!("determinism self-test: {e}"));
        rep.finish();
    }
    let (stats, found) = match bfs_from(&cfgs, &alpha, &deep_roots(), t.max_depth, t.budget_s, t.state_cap, t.probe_depth) {
        Ok(x) => x,
        Err(e) => {
            rep.machinery_error(format!("bfs: {e}"));
            rep.finish()
        }
    };
    let mut by_prop = std::collections::BTreeMap::new();
    for f in found {
        *by_prop.entry(f.property).or_insert(0u64) += 1;
        if f.property == property {
            rep.violation(f.v);
        }
    }
    // environment deviation: the lease file is locked by another process while one message is
    // handled (write lock, and exclusive lock), from every state kept by the search
    {
        use rayon::prelude::*;
        let bd = if tier == "thorough" { 2 } else { 1 };
        let msgs: Vec<&MsgOp> = alpha.ops.iter().filter_map(|o| if let Op::Msg(m) = o { Some(m) } else { None }).collect();
        let sts: Vec<&State> = stats.reached.iter().filter(|(_, d)| *d <= bd).map(|(s, _)| s).collect();
        let results: Vec<(u64, u64, Vec<Found>, Option<String>)> = sts
            .par_iter()
            .map(|st| {
                let (mut n, mut replies, mut found, mut err) = (0u64, 0u64, vec![], None);
                for m in &msgs {
                    for exclusive in [false, true] {
                        n += 1;
                        match step_busy(st, m, &cfgs, exclusive) {
                            Ok((res, post)) => {
                                if matches!(res, StepResult::Reply(_)) {
                                    replies += 1;
                                }
                                for jd in judge_under_fault(st, m, &res, &post, &cfgs) {
                                    let op = Op::Msg((*m).clone());
                                    let mut case = case_json_from(st, &[&op], &cfgs);
                                    case["store_locked"] = json!(if exclusive { "exclusive" } else { "write" });
                                    let mut v = Violation::new(jd.oracle, format!("while another process held {} lock on the lease file: {}", if exclusive { "an exclusive" } else { "a write" }, jd.what), case);
                                    for (k, val) in jd.sig {
                                        v = v.sig(k, val);
                                    }
                                    found.push(Found { property: jd.property, v: v.sig("fault", "store-locked") });
                                }
                            }
                            Err(e) => err = Some(e),
                        }
                    }
                }
                (n, replies, found, err)
            })
            .collect();
        let (mut n, mut replies) = (0u64, 0u64);
        for (k, r, found, err) in results {
            n += k;
            replies += r;
            if let Some(e) = err {
                rep.machinery_error(format!("store-locked deviation: {e}"));
            }
            for f in found {
                if f.property == property {
                    rep.violation(f.v);
                }
            }
        }
        rep.cov("store_locked_deviation", json!({"states": sts.len(), "state_depth": bd, "transitions": n, "answered_while_locked": replies, "rule": "every message of the alphabet on every kept state, on a file-backed store (tmpfs) that a second connection keeps locked (BEGIN IMMEDIATE, and BEGIN EXCLUSIVE) for the duration of the message; busy time-out 0; whatever is answered must be recorded as answered, whatever is not must leave the store as it was"}));
    }
    // long-lived histories (no reopen between messages): same oracles, path by path
    let roots = longlived_roots();
    let ll_alpha = longlived_alphabet(&cfgs, tier == "thorough");
    let ll_depth = if tier == "thorough" { 4 } else { 3 };
    let (ll, ll_found) = match longlived_histories(&cfgs, &ll_alpha, &roots, ll_depth, false) {
        Ok(x) => x,
        Err(e) => {
            rep.machinery_error(format!("long-lived histories: {e}"));
            rep.finish()
        }
    };
    for f in ll_found {
        if f.property == property {
            rep.violation(f.v);
        }
    }
    // the same histories on a store written by the previous release (schema version 0) and upgraded
    // by the server that then runs the history: every deep root, one level shallower
    let mut ll = ll;
    {
        let d0 = if tier == "thorough" { 3 } else { 2 };
        match crate::ehist::longlived_histories_born(&cfgs, &ll_alpha, &deep_roots(), d0, false, true) {
            Ok((st, found)) => {
                for f in found {
                    if f.property == property {
                        rep.violation(f.v);
                    }
                }
                ll.histories += st.histories;
                ll.steps += st.steps;
                rep.cov("long_lived_upgraded_store", json!({"roots": deep_roots().len(), "alphabet_ops": ll_alpha.ops.len(), "depth": d0, "histories": st.histories, "rule": "each root's rows are written into a store of the previous release's format (no options column, no version table); the real Pool opens it (real upgrade) and serves every history of this depth on it"}));
            }
            Err(e) => rep.machinery_error(format!("long-lived histories on an upgraded store: {e}")),
        }
    }
    rep.cov("store_schema", if crate::ehist::real_schema_is_harness_copy() { "every store of the search is created from the SQL the real Pool wrote on a fresh file (read back from sqlite_master); it equals the harness's copy of schema version 1" } else { "every store of the search is created from the SQL the real Pool wrote on a fresh file (read back from sqlite_master); it DIFFERS from the harness's copy of schema version 1" });
    // narrow and deep: one two-address pool, two clients, plain DISCOVER / REQUEST, two clock steps
    if property == "C01" || property == "C09" {
        let narrow = Alphabet {
            ops: build_alphabet(&cfgs, &AlphabetSpec { rfc4361_clients: false, cfgs: &["K1"], clients: 2, addrs: &[], ticks: &[150, 301] })
                .ops
                .into_iter()
                .filter(|o| match o {
                    Op::Tick(_) => true,
                    Op::Msg(m) => m.req.is_none() && m.ciaddr.is_none() && m.lease_req.is_none() && m.serverid.is_none(),
                })
                .collect(),
        };
        let nd = if tier == "thorough" { 9 } else { 7 };
        match longlived_histories(&cfgs, &narrow, &[vec![]], nd, false) {
            Ok((st, found)) => {
                for f in found {
                    if f.property == property {
                        rep.violation(f.v);
                    }
                }
                ll.histories += st.histories;
                ll.steps += st.steps;
                rep.cov("long_lived_narrow_deep", json!({"alphabet_ops": narrow.ops.len(), "depth": nd, "histories": st.histories}));
            }
            Err(e) => rep.machinery_error(format!("long-lived narrow histories: {e}")),
        }
    }
    rep.cov("long_lived_histories", ll.histories);
    rep.cov("long_lived_message_steps", ll.steps);
    rep.cov("long_lived_depth", ll.depth);
    rep.cov("long_lived_alphabet_ops", ll_alpha.ops.len() as u64);
    rep.cov("long_lived_rule", "every history of exactly long_lived_depth operations over a reduced alphabet (K1-K4, 2 clients, one named address, 2-3 ticks), from the empty store and the two-client deep root, executed on ONE Pool that is never reopened (state the Pool object carries between messages is invisible to the exact-state search, which rebuilds it at every transition); every step judged by the same oracles");
    if property == "C13" {
        // the server identifier while the interface's addresses change under the running service
        let agg = crate::netrun::run_sharded(&mut rep, "C13", tier, crate::checks::c13wire::cases, 16);
        rep.cov("wire_address_histories", json!({"histories": agg.stats_sum.get("wire4_histories").copied().unwrap_or(0.0) as u64, "discovers_sent": agg.stats_sum.get("wire4_discovers").copied().unwrap_or(0.0) as u64, "replies_judged": agg.stats_sum.get("wire4_replies").copied().unwrap_or(0.0) as u64, "rule": "the real DhcpService (port 67, real netlink-fed NetInfo) on a veth pair in a private network namespace; every sequence of IPv4 address events on the receiving interface (a second address of the same subnet, an address of a second configured subnet, the first address: added / removed with `ip addr`) of length 2 (thorough 4), two DISCOVER frames before the first and after every event: a reply identifies the server by, and is sent from, an address the interface has NOW, of the subnet it offers from"}));
    }
    let mut probe_evals = 0u64;
    if property == "C13" {
        let (n, vs) = c13_probes(&cfgs, &stats, &alpha);
        probe_evals = n;
        rep.violations_from(vs);
    }
    rep.cov("states", stats.states);
    rep.cov("transitions", stats.transitions + probe_evals);
    rep.cov("traces_validated_against_impl", stats.transitions + probe_evals);
    rep.cov("evaluations", stats.transitions + probe_evals);
    rep.cov("distinct_nontrivial", stats.outcome_classes.len() as u64);
    rep.cov("rule", "every transition = real dhcp::handle_pkt on a real Pool holding exactly the state's rows; distinct_nontrivial = distinct (message kind, outcome class) pairs observed");
    rep.cov("depth_completed", stats.depth_completed);
    rep.cov("max_depth_requested", t.max_depth);
    rep.cov("capped_by_budget_or_state_cap", stats.capped);
    // "exhaustive" refers to the space actually claimed: every history of length <= depth_completed
    // over the alphabet.  A partially expanded next level is reported separately and not claimed.
    rep.cov("exhaustive", true);
    rep.cov("exhaustive_scope", format!("all histories of length <= {} from the empty store and of length <= {} from each of the {} other root stores, over the {}-operation alphabet, exact-state deduplicated", stats.depth_completed, stats.depth_completed.saturating_sub(1), deep_roots().len() - 1, alpha.ops.len()));
    rep.cov("next_level_partially_expanded", stats.capped);
    rep.cov("alphabet_ops", alpha.ops.len() as u64);
    rep.cov("store_vs_told_divergent_transitions", stats.diverged_total);
    rep.cov("consequence_search_steps", stats.consequence_steps);
    rep.cov("told_rule", "the oracles read the lease store as the record of who holds what; independently the search keeps what the clients were told (every reply recorded as sent). On every transition the two must agree; where they do not, every continuation of <= 2 operations is executed from the real store and the reply-level clauses of C01/C09 are judged against what the clients were told");
    rep.cov("root_states", json!(deep_roots().iter().map(state_json).collect::<Vec<_>>()));
    // which address each client is offered first on an empty store: if two clients share a first
    // preference they contend for the same address (the collision the driver wants); reported so
    // that a vacuous alphabet (nobody ever collides) is visible
    let mut prefs = serde_json::Map::new();
    let mut seen_pref: Vec<String> = vec![];
    for (ci, c) in CLIENTS.iter().enumerate().take(t.clients) {
        for (ki, k) in cfgs.iter().enumerate() {
            if k.name != "K1" && k.name != "K2" {
                continue;
            }
            let m = MsgOp::basic(ki, k.ifaces[0].parse().unwrap(), ci, 1);
            if let Ok((StepResult::Reply(r), _)) = step(&vec![], &Op::Msg(m), &cfgs) {
                prefs.insert(format!("{}@{}", c.name, k.name), json!(r.yiaddr.to_string()));
                seen_pref.push(format!("{}:{}", k.name, r.yiaddr));
            }
        }
    }
    let n_pref = seen_pref.len();
    seen_pref.sort();
    seen_pref.dedup();
    rep.cov("first_preference_on_empty_store", Value::Object(prefs));
    rep.cov("clients_share_a_first_preference", seen_pref.len() < n_pref);
    rep.cov("states_per_depth", json!(stats.states_per_depth));
    rep.cov("outcome_classes", json!(stats.outcome_classes));
    rep.cov("probe_evaluations", probe_evals);
    rep.cov("violations_seen_per_property_in_this_search", json!(by_prop));
    rep.cov("samples", json!(stats.samples));
    rep.cov(
        "alphabet",
        json!({"configs": t.spec_cfgs, "clients": t.clients, "addresses": t.addrs, "ticks": t.ticks,
               "config_texts": cfgs.iter().filter(|c| t.spec_cfgs.contains(&c.name)).map(|c| json!({"name": c.name, "yaml": c.text})).collect::<Vec<_>>() }),
    );
    rep.assume("behaviour of pool.rs is invariant under a common shift of now and all stored timestamps (no u32 wrap: epoch 1e9, horizon < 1e7 s)");
    rep.assume("Pool has no state besides the leases table (checked differentially by C18 history mode)");
    rep.assume("the packet critical section in DhcpService::recvdhcp contains no await, so handle_pkt calls are serialised");
    if stats.depth_completed < 2 {
        rep.machinery_error(format!("search completed only depth {} inside its budget", stats.depth_completed));
    }
    rep.finish()
}

/// C13 probe set: every message type value, option-53 shapes, server-id shapes, on reachable states.
fn c13_probes(cfgs: &[Cfg], stats: &BfsStats, _alpha: &Alphabet) -> (u64, Vec<Violation>) {
    use rayon::prelude::*;
    let k1 = cfgs.iter().position(|c| c.name == "K1").unwrap();
    let k3 = cfgs.iter().position(|c| c.name == "K3").unwrap();
    let mut probes: Vec<MsgOp> = vec![];
    let ifs: [std::net::Ipv4Addr; 3] = [IF1.parse().unwrap(), IF2.parse().unwrap(), IF3.parse().unwrap()];
    let sids: Vec<Option<Vec<u8>>> = vec![None, Some(vec![192, 0, 2, 1]), Some(vec![198, 51, 100, 1]), Some(vec![10, 0, 0, 1]), Some(vec![192, 0, 2]), Some(vec![])];
    for t in 0..=255u8 {
        for sid in &sids {
            for (ci, iface) in [(k1, ifs[0]), (k3, ifs[1]), (k1, ifs[2])] {
                for client in 0..2 {
                    let mut m = MsgOp::basic(ci, iface, client, t);
                    m.serverid = sid.clone();
                    if t % 2 == 1 {
                        m.xid = 0xdead_beef;
                        m.flags = 0x8000;
                        m.giaddr = "10.9.9.9".parse().unwrap();
                    } else if t % 4 == 2 {
                        m.xid = 0;
                        m.flags = 0x7fff;
                    }
                    if t == 1 || t == 3 {
                        // all header variants for the types that are answered
                        for (xid, flags, gi) in [(0u32, 0u16, "0.0.0.0"), (0xdead_beef, 0x8000, "10.9.9.9"), (1, 0x7fff, "0.0.0.0"), (0xffff_ffff, 0xffff, "192.0.2.77")] {
                            let mut m2 = m.clone();
                            m2.xid = xid;
                            m2.flags = flags;
                            m2.giaddr = gi.parse().unwrap();
                            m2.req = Some("192.0.2.9".parse().unwrap());
                            probes.push(m2);
                        }
                    }
                    // a renewing client (ciaddr set) is still not this server's business if it names another server
                    if [1u8, 3, 7, 8].contains(&t) {
                        for ci_addr in ["192.0.2.9"] {
                            let mut m3 = m.clone();
                            m3.ciaddr = Some(ci_addr.parse().unwrap());
                            probes.push(m3);
                        }
                    }
                    probes.push(m);
                }
            }
        }
    }
    // option 53 absent / wrong length
    for raw in [None, Some(vec![]), Some(vec![1, 1]), Some(vec![3, 0]), Some(vec![0, 3])] {
        for (ci, iface) in [(k1, ifs[0]), (k3, ifs[1])] {
            let mut m = MsgOp::basic(ci, iface, 0, 0);
            m.mtype_raw = raw.clone();
            probes.push(m);
        }
    }
    let results: Vec<Vec<Violation>> = stats
        .reached
        .par_iter()
        .map(|(st, _d)| {
            let mut out = vec![];
            for m in &probes {
                let op = Op::Msg(m.clone());
                match step(st, &op, cfgs) {
                    Ok((res, post)) => {
                        for jd in judge(st, m, &res, &post, cfgs) {
                            if jd.property != "C13" {
                                continue;
                            }
                            let case = json!({"engine": "ehist", "initial_state": state_json(st), "ops": [op_json(&op, cfgs)],
                                              "note": "probe applied to a reachable state; replay re-runs the probe on the empty store only if initial_state is empty"});
                            let mut v = Violation::new(jd.oracle, jd.what, case);
                            for (k, val) in jd.sig {
                                v = v.sig(k, val);
                            }
                            out.push(v.sig("probe", "1"));
                        }
                    }
                    Err(e) => out.push(Violation::new("probe-machinery", e, json!({}))),
                }
            }
            out
        })
        .collect();
    let n = (stats.reached.len() * probes.len()) as u64;
    let mut vs = vec![];
    for r in results {
        for v in r {
            if vs.len() < 500 {
                vs.push(v);
            }
        }
    }
    (n, vs)
}
