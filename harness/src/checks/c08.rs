//! C08: ACLs are enforced, first match wins, on DNS recursion and all HTTP endpoints.
//! (1) function level: `acl::require_permission` on rule lists loaded by the real YAML loader, and
//!     `Prefix::contains` for every prefix length, against independent bit arithmetic;
//! (2) entry points: the live DNS service and the live HTTP API.
use crate::common::panics;
use crate::common::report::{Report, Violation};
use crate::enet::{Rig, RigSpec, TcpClient};
use crate::httprig::{HttpRig, Via};
use crate::netrun::{self, CaseResult};
use crate::refdns as rd;
use erbium::acl;
use erbium::config::{Match as _, Prefix, Prefix4, Prefix6};
use erbium_net::addr::{ToNetAddr as _, WithPort as _};
use rayon::prelude::*;
use serde_json::{Value, json};
use std::net::{IpAddr, Ipv4Addr, Ipv6Addr};

// ---------------------------------------------------------------------------
// Reference
// ---------------------------------------------------------------------------

#[derive(Clone, Debug, PartialEq)]
pub enum Client {
    Ip(IpAddr),
    Unix,
}

fn reps(ip: IpAddr) -> Vec<(bool, u128)> {
    // (is_v6, bits): a v4-mapped v6 client is also the v4 address (the statement says so explicitly)
    match ip {
        IpAddr::V4(a) => vec![(false, u32::from(a) as u128)],
        IpAddr::V6(a) => {
            let b = u128::from(a);
            let mut v = vec![(true, b)];
            if b >> 32 == 0xffff {
                v.push((false, b & 0xffff_ffff));
            }
            v
        }
    }
}

/// Is the pair one the statement does not pin down?  A plain IPv4 client against an IPv6 prefix
/// that covers (part of) ::ffff:0:0/96 without lying inside it (e.g. ::/0): the statement only
/// speaks of IPv4 clients *seen as* mapped addresses, so this is don't-care.
pub fn ref_unconstrained(paddr: IpAddr, plen: u8, ip: IpAddr) -> bool {
    match (paddr, ip) {
        (IpAddr::V6(a), IpAddr::V4(_)) => {
            let l = plen.min(128) as u32;
            let b = u128::from(a);
            let mask: u128 = if l == 0 { 0 } else { !0u128 << (128 - l) };
            // prefix covers the mapped range (shares its leading bits) but is shorter than /96
            l < 96 && (b & mask) == ((0xffff_0000_0000u128) & mask)
        }
        _ => false,
    }
}

/// Does `ip` lie inside the written prefix `addr/len` (host bits of the written address ignored)?
pub fn ref_contains(paddr: IpAddr, plen: u8, ip: IpAddr) -> bool {
    let pre: Vec<(bool, u128, u32)> = match paddr {
        IpAddr::V4(a) => {
            let l = plen.min(32) as u32;
            vec![(false, u32::from(a) as u128, l), (true, 0xffff_0000_0000u128 | u32::from(a) as u128, 96 + l)]
        }
        IpAddr::V6(a) => {
            let l = plen.min(128) as u32;
            let b = u128::from(a);
            let mut v = vec![(true, b, l)];
            // a prefix inside ::ffff:0:0/96 also denotes the IPv4 prefix
            if l >= 96 && (b >> 32) == 0xffff {
                v.push((false, b & 0xffff_ffff, l - 96));
            }
            v
        }
    };
    for (v6, bits) in reps(ip) {
        for (pv6, pbits, plen) in &pre {
            if v6 != *pv6 {
                continue;
            }
            let width = if v6 { 128 } else { 32 };
            let mask: u128 = if *plen == 0 { 0 } else { (!0u128 << (width - plen)) & if v6 { !0u128 } else { 0xffff_ffff } };
            if bits & mask == pbits & mask {
                return true;
            }
        }
    }
    false
}

#[derive(Clone, Debug)]
pub struct Rule {
    pub subnets: Option<Vec<(IpAddr, u8)>>, // None = key absent
    pub unix: Option<bool>,
    pub perms: [bool; 4], // dns, http, metrics, leases
    pub yaml: String,
}

pub fn ref_decide(rules: &[Rule], c: &Client, op: usize) -> bool {
    ref_decide3(rules, c, op).unwrap_or(false)
}

/// None = the decision depends on a pair the statement leaves open (not judged).
pub fn ref_decide3(rules: &[Rule], c: &Client, op: usize) -> Option<bool> {
    for r in rules {
        let mut ok = true;
        if let Some(s) = &r.subnets {
            ok &= match c {
                Client::Ip(ip) => {
                    let hit = s.iter().any(|(a, l)| ref_contains(*a, *l, *ip));
                    if !hit && s.iter().any(|(a, l)| ref_unconstrained(*a, *l, *ip)) {
                        // whether this rule matches is open; if it could change the outcome, give up
                        let unix_ok = r.unix.map(|u| !u).unwrap_or(true);
                        if unix_ok {
                            return None;
                        }
                    }
                    hit
                }
                Client::Unix => false,
            };
        }
        if let Some(u) = r.unix {
            ok &= (*c == Client::Unix) == u;
        }
        if ok {
            return Some(r.perms[op]);
        }
    }
    Some(false)
}

fn perm_sets() -> Vec<(Vec<&'static str>, [bool; 4])> {
    vec![
        (vec![], [false, false, false, false]),
        (vec!["dns-recursion"], [true, false, false, false]),
        (vec!["dhcp-client"], [true, false, false, false]),
        (vec!["http"], [false, true, false, false]),
        (vec!["http-metrics"], [false, false, true, false]),
        (vec!["http-leases"], [false, false, false, true]),
        (vec!["http-ro"], [false, true, true, true]),
        (vec!["dns-recursion", "http-ro"], [true, true, true, true]),
        (vec!["http", "http-leases"], [false, true, false, true]),
        (vec!["dhcp-client", "http-metrics"], [true, false, true, false]),
        (vec!["http-metrics", "http-leases", "dns-recursion"], [true, false, true, true]),
        (vec!["http", "http-metrics"], [false, true, true, false]),
        (vec!["dns-recursion", "http"], [true, true, false, false]),
        (vec!["dns-recursion", "http-leases"], [true, false, false, true]),
        (vec!["http-metrics", "http-leases"], [false, false, true, true]),
        (vec!["dns-recursion", "http", "http-metrics"], [true, true, true, false]),
    ]
}

fn subnet_alphabet() -> Vec<Option<Vec<(&'static str, u8)>>> {
    vec![
        None,
        Some(vec![]),
        Some(vec![("0.0.0.0", 0)]),
        Some(vec![("127.0.0.0", 8)]),
        Some(vec![("192.0.2.0", 24)]),
        Some(vec![("192.0.2.53", 32)]),
        Some(vec![("127.0.0.1", 8)]),    // host bits set
        Some(vec![("192.0.2.53", 24)]),  // host bits set
        Some(vec![("::", 0)]),
        Some(vec![("2001:db8::", 64)]),
        Some(vec![("::1", 128)]),
        Some(vec![("2001:db8::1", 64)]), // host bits set
        Some(vec![("::ffff:0:0", 96)]),
        Some(vec![("::ffff:127.0.0.0", 104)]),
        Some(vec![("10.0.0.0", 8), ("2001:db8::", 32)]),
    ]
}

fn mk_rule(s: &Option<Vec<(&'static str, u8)>>, unix: Option<bool>, p: &(Vec<&'static str>, [bool; 4])) -> Rule {
    let mut parts = vec![];
    if let Some(v) = s {
        parts.push(format!("match-subnets: [{}]", v.iter().map(|(a, l)| format!("'{a}/{l}'")).collect::<Vec<_>>().join(", ")));
    }
    if let Some(u) = unix {
        parts.push(format!("match-unix: {u}"));
    }
    parts.push(format!("apply-access: [{}]", p.0.join(", ")));
    Rule { subnets: s.as_ref().map(|v| v.iter().map(|(a, l)| (a.parse().unwrap(), *l)).collect()), unix, perms: p.1, yaml: format!("{{{}}}", parts.join(", ")) }
}

pub fn clients() -> Vec<Client> {
    let mut v: Vec<Client> = ["127.0.0.1", "127.255.255.255", "128.0.0.0", "126.255.255.255", "192.0.2.53", "192.0.2.0", "192.0.2.255", "192.0.3.0", "192.0.1.255", "10.1.2.3", "0.0.0.0", "255.255.255.255"].iter().map(|s| Client::Ip(s.parse().unwrap())).collect();
    v.extend(["::1", "::", "2001:db8::1", "2001:db8::", "2001:db8:0:0:ffff:ffff:ffff:ffff", "2001:db8:0:1::", "2001:db7:ffff:ffff:ffff:ffff:ffff:ffff", "2001:db8:1::1", "::ffff:127.0.0.1", "::ffff:192.0.2.53", "::ffff:192.0.3.0", "::fffe:127.0.0.1"].iter().map(|s| Client::Ip(s.parse().unwrap())));
    v.push(Client::Unix);
    v
}

fn net_addr(c: &Client) -> erbium_net::addr::NetAddr {
    match c {
        Client::Ip(ip) => ip.with_port(40000),
        Client::Unix => erbium_net::addr::UnixAddr::new("/tmp/client.sock").unwrap().to_net_addr(),
    }
}

fn judge_list(rules: &[Rule], cls: &[Client]) -> (u64, std::collections::BTreeSet<String>, Vec<Violation>) {
    let yaml = format!("---\nacls: [{}]\n", rules.iter().map(|r| r.yaml.clone()).collect::<Vec<_>>().join(", "));
    let mut classes = std::collections::BTreeSet::new();
    let mut vs = vec![];
    let conf = match panics::catch(|| erbium::config::verif_load_config_from_string(&yaml)) {
        Err(p) => return (1, classes, vec![Violation::new("load-panic", format!("loader panicked on an ACL list: {} at {}", p.msg, panics::short_loc(&p.loc)), json!({"engine":"c08","part":"function","yaml":yaml}))]),
        Ok(Err(e)) => return (1, classes, vec![Violation::new("acl-rejected", format!("valid ACL list rejected: {e}"), json!({"engine":"c08","part":"function","yaml":yaml}))]),
        Ok(Ok(c)) => c,
    };
    let g = conf.try_read().expect("conf lock");
    let mut n = 0;
    for c in cls {
        let attr = acl::Attributes { addr: net_addr(c) };
        for (op, pt) in [(0, "dns"), (1, "http"), (2, "metrics"), (3, "leases")] {
            n += 1;
            let perm = match op {
                0 => acl::PermissionType::DnsRecursion,
                1 => acl::PermissionType::Http,
                2 => acl::PermissionType::HttpMetrics,
                _ => acl::PermissionType::HttpLeases,
            };
            let Some(want) = ref_decide3(rules, c, op) else {
                classes.insert("unconstrained".into());
                let _ = panics::catch(|| acl::require_permission(&g.acls, &attr, perm).is_ok());
                continue;
            };
            let got = panics::catch(|| acl::require_permission(&g.acls, &attr, perm).is_ok());
            match got {
                Err(p) => vs.push(Violation::new("acl-panic", format!("require_permission panicked: {} at {}", p.msg, panics::short_loc(&p.loc)), json!({"engine":"c08","part":"function","yaml":yaml,"client":format!("{:?}", c),"op":pt})).sig("loc", panics::short_loc(&p.loc))),
                Ok(g2) => {
                    classes.insert(format!("{}:{}", if want { "grant" } else { "refuse" }, pt));
                    if g2 != want {
                        // signature: is a prefix with host bits / a mapped form involved in the deciding rule?
                        let hostbits = rules.iter().any(|r| r.subnets.as_ref().map(|s| s.iter().any(|(a, l)| host_bits_set(*a, *l))).unwrap_or(false));
                        vs.push(
                            Violation::new(
                                "first-match",
                                format!("rules {} client {:?} operation {pt}: erbium {}, first-match reference {}", yaml.trim().replace('\n', " "), c, if g2 { "grants" } else { "refuses" }, if want { "grants" } else { "refuses" }),
                                json!({"engine":"c08","part":"function","yaml":yaml,"client":format!("{:?}", c),"op":pt}),
                            )
                            .sig("part", "function")
                            .sig("host_bits_in_rules", hostbits),
                        );
                    }
                }
            }
        }
    }
    (n, classes, vs)
}

fn host_bits_set(a: IpAddr, l: u8) -> bool {
    match a {
        IpAddr::V4(a) => l < 32 && (u32::from(a) & (!0u32).checked_shr(l as u32).unwrap_or(0)) != 0,
        IpAddr::V6(a) => l < 128 && (u128::from(a) & (!0u128).checked_shr(l as u32).unwrap_or(0)) != 0,
    }
}

fn function_part(rep: &mut Report, thorough: bool) -> (u64, std::collections::BTreeSet<String>) {
    let subs = subnet_alphabet();
    let perms = perm_sets();
    let unixes = [None, Some(true), Some(false)];
    // full rule alphabet with 4 representative permission sets
    let rep_perms = [0usize, 1, 6, 7];
    let mut alphabet: Vec<Rule> = vec![];
    for s in &subs {
        for u in unixes {
            for p in rep_perms {
                alphabet.push(mk_rule(s, u, &perms[p]));
            }
        }
    }
    let cls = clients();
    let mut lists: Vec<Vec<usize>> = vec![vec![]];
    for a in 0..alphabet.len() {
        lists.push(vec![a]);
    }
    // length 2: full product
    for a in 0..alphabet.len() {
        for b in 0..alphabet.len() {
            lists.push(vec![a, b]);
        }
    }
    // length 3: full product in thorough; quick uses every rule as the third after all pairs of a 24-rule sub-alphabet
    let sub: Vec<usize> = if thorough { (0..alphabet.len()).collect() } else { (0..alphabet.len()).step_by(alphabet.len() / 24).collect() };
    for a in &sub {
        for b in &sub {
            for c in 0..alphabet.len() {
                lists.push(vec![*a, *b, c]);
            }
        }
    }
    // every permission spelling, alone and second
    let mut spell: Vec<Vec<Rule>> = vec![];
    for p in &perms {
        spell.push(vec![mk_rule(&Some(vec![("127.0.0.0", 8)]), None, p)]);
        spell.push(vec![mk_rule(&Some(vec![("10.0.0.0", 8)]), None, &perms[7]), mk_rule(&None, None, p)]);
    }
    // length 4..6 over a 6-rule sub-alphabet
    let six: Vec<usize> = vec![0 * 12 + 1, 3 * 12 + 0, 4 * 12 + 7 % 4, 6 * 12 + 2, 10 * 12 + 3, 1 * 12 + 1].into_iter().map(|x| x % alphabet.len()).collect();
    let mut long: Vec<Vec<usize>> = vec![vec![]];
    let mut longs: Vec<Vec<usize>> = vec![];
    for depth in 1..=(if thorough { 6 } else { 5 }) {
        let mut next = vec![];
        for l in &long {
            for s in &six {
                let mut m = l.clone();
                m.push(*s);
                next.push(m);
            }
        }
        if depth >= 4 {
            longs.extend(next.iter().cloned());
        }
        long = next;
    }
    lists.extend(longs);
    let results: Vec<(u64, std::collections::BTreeSet<String>, Vec<Violation>)> = lists
        .par_iter()
        .map(|l| {
            let rules: Vec<Rule> = l.iter().map(|i| alphabet[*i].clone()).collect();
            // clients: all for short lists, a boundary subset for the big product
            if l.len() <= 2 {
                judge_list(&rules, &cls)
            } else {
                let subset: Vec<Client> = cls.iter().enumerate().filter(|(i, _)| [0, 4, 7, 9, 12, 14, 17, 20, 21, 24].contains(i)).map(|(_, c)| c.clone()).collect();
                judge_list(&rules, &subset)
            }
        })
        .collect();
    let mut n = 0;
    let mut classes = std::collections::BTreeSet::new();
    let mut groups = std::collections::BTreeSet::new();
    for (k, c, vs) in results {
        n += k;
        classes.extend(c);
        for v in vs {
            let key = format!("{}|{:?}", v.oracle, v.sig);
            if groups.insert(key) || rep.violations.len() < 50 {
                rep.violation(v);
            }
        }
    }
    for rules in spell {
        let (k, c, vs) = judge_list(&rules, &cls);
        n += k;
        classes.extend(c);
        rep.violations_from(vs);
    }
    // Prefix::contains for every prefix length
    let mut pn = 0u64;
    let mut first_bad: Option<String> = None;
    let mut bad = 0u64;
    for len in 0..=32u8 {
        for hb in [false, true] {
            let net: u32 = if len == 0 { 0 } else { 0xc0000200u32 & (!0u32 << (32 - len as u32)) };
            let written = if hb && len < 32 { net | 1 } else { net };
            let lastin = if len == 0 { !0u32 } else { net | !((!0u32) << (32 - len as u32)) };
            let p = Prefix::V4(Prefix4 { addr: Ipv4Addr::from(written), prefixlen: len });
            let mut probes: Vec<IpAddr> = vec![IpAddr::V4(net.into()), IpAddr::V4(lastin.into()), IpAddr::V4(net.wrapping_sub(1).into()), IpAddr::V4(lastin.wrapping_add(1).into())];
            probes.extend(probes.clone().iter().map(|a| if let IpAddr::V4(a) = a { IpAddr::V6(a.to_ipv6_mapped()) } else { *a }));
            for ip in probes {
                pn += 1;
                let want = ref_contains(IpAddr::V4(Ipv4Addr::from(written)), len, ip);
                match panics::catch(|| p.contains(ip)) {
                    Ok(g) if g == want => {}
                    other => {
                        bad += 1;
                        if first_bad.is_none() {
                            first_bad = Some(format!("{}/{} contains {} -> {:?}, expected {}", Ipv4Addr::from(written), len, ip, other.map_err(|p| p.msg), want));
                        }
                    }
                }
            }
        }
    }
    for len in 0..=128u8 {
        for hb in [false, true] {
            let base: u128 = u128::from("2001:db8:aaaa:5555:cccc:3333:f0f0:0f0f".parse::<Ipv6Addr>().unwrap());
            let net = if len == 0 { 0 } else { base & (!0u128 << (128 - len as u32)) };
            let written = if hb && len < 128 { net | 1 } else { net };
            let lastin = if len == 0 { !0u128 } else { net | !((!0u128) << (128 - len as u32)) };
            let p = Prefix::V6(Prefix6 { addr: Ipv6Addr::from(written), prefixlen: len });
            for ip in [net, lastin, net.wrapping_sub(1), lastin.wrapping_add(1)] {
                pn += 1;
                let ip = IpAddr::V6(Ipv6Addr::from(ip));
                let want = ref_contains(IpAddr::V6(Ipv6Addr::from(written)), len, ip);
                match panics::catch(|| p.contains(ip)) {
                    Ok(g) if g == want => {}
                    other => {
                        bad += 1;
                        if first_bad.is_none() {
                            first_bad = Some(format!("{}/{} contains {} -> {:?}, expected {}", Ipv6Addr::from(written), len, ip, other.map_err(|p| p.msg), want));
                        }
                    }
                }
            }
        }
        // the v4-mapped range with a v4 client
        if len >= 96 {
            let written: u128 = 0xffff_0000_0000u128 | 0xc0000235;
            let p = Prefix::V6(Prefix6 { addr: Ipv6Addr::from(written), prefixlen: len });
            for ip4 in [0xc0000235u32, 0xc0000200, 0xc00002ff, 0xc0000300, 0x0a000001] {
                pn += 1;
                let ip = IpAddr::V4(ip4.into());
                let want = ref_contains(IpAddr::V6(Ipv6Addr::from(written)), len, ip);
                match panics::catch(|| p.contains(ip)) {
                    Ok(g) if g == want => {}
                    other => {
                        bad += 1;
                        if first_bad.is_none() {
                            first_bad = Some(format!("{}/{} contains {} -> {:?}, expected {}", Ipv6Addr::from(written), len, ip, other.map_err(|p| p.msg), want));
                        }
                    }
                }
            }
        }
    }
    if let Some(b) = first_bad {
        rep.violation(Violation::new("prefix-contains", format!("{bad} of {pn} Prefix::contains probes disagree with bit arithmetic; first: {b}"), json!({"engine":"c08","part":"contains"})).sig("part", "contains"));
    }
    classes.insert("contains".into());
    (n + pn, classes)
}

// ---------------------------------------------------------------------------
// Entry points
// ---------------------------------------------------------------------------

fn entry_lists() -> Vec<Vec<Rule>> {
    let perms = perm_sets();
    let dns = &perms[1];
    let http = &perms[3];
    let ro = &perms[6];
    let all = &perms[7];
    let none = &perms[0];
    let dhcpc = &perms[2];
    let metrics = &perms[4];
    let s = |v: Vec<(&'static str, u8)>| Some(v);
    vec![
        vec![mk_rule(&s(vec![("127.0.0.2", 32)]), None, dns)],
        vec![mk_rule(&s(vec![("127.0.0.2", 32)]), None, http), mk_rule(&s(vec![("127.0.0.0", 8)]), None, all)],
        vec![mk_rule(&s(vec![("127.0.0.0", 30)]), None, all)],
        vec![],
        vec![mk_rule(&s(vec![("127.0.0.3", 8)]), None, all)],
        vec![mk_rule(&s(vec![("::1", 128)]), None, all)],
        vec![mk_rule(&None, Some(false), dns), mk_rule(&None, Some(true), ro)],
        vec![mk_rule(&None, Some(true), all), mk_rule(&s(vec![("127.0.0.4", 32)]), None, dhcpc)],
        vec![mk_rule(&s(vec![("::ffff:127.0.0.2", 128)]), None, all)],
        vec![mk_rule(&s(vec![("127.0.0.2", 32), ("127.0.0.4", 32)]), None, metrics), mk_rule(&None, None, dns)],
        vec![mk_rule(&None, None, all)],
        vec![mk_rule(&s(vec![]), None, all), mk_rule(&s(vec![("127.0.0.3", 32)]), None, ro), mk_rule(&s(vec![("127.0.0.0", 8)]), None, none), mk_rule(&None, None, all)],
    ]
}

pub fn cases(_tier: &str) -> Vec<Value> {
    let mut out = vec![];
    for i in 0..entry_lists().len() {
        out.push(json!({"engine":"enet","check":"c08","entry":"dns","list":i}));
        out.push(json!({"engine":"enet","check":"c08","entry":"http","list":i}));
    }
    out
}

fn acl_yaml(rules: &[Rule]) -> String {
    format!("acls: [{}]\n", rules.iter().map(|r| r.yaml.clone()).collect::<Vec<_>>().join(", "))
}

fn dns_entry(case: &Value, rules: &[Rule]) -> CaseResult {
    let yaml = format!("---\ndns-listeners: {{LISTENERS}}\ndns-routes:\n  - domain-suffixes: ['']\n    type: forward\n    dns-servers: ['{{UP0}}']\n{}", acl_yaml(rules));
    let spec = RigSpec { listeners: vec!["127.0.0.1".into(), "::1".into()], n_upstreams: 1, yaml };
    let mut rig = match Rig::start(&spec) {
        Ok(r) => r,
        Err(e) => return CaseResult::machinery(e),
    };
    let mut res = CaseResult::ok("dns-entry");
    let sources: Vec<(IpAddr, usize)> = vec![("127.0.0.2".parse().unwrap(), 0), ("127.0.0.3".parse().unwrap(), 0), ("127.0.0.4".parse().unwrap(), 0), ("::1".parse().unwrap(), 1)];
    let allowed: Vec<bool> = sources.iter().map(|(ip, _)| ref_decide(rules, &Client::Ip(*ip), 0)).collect();
    let mut n = 0;
    let mut serve = |rig: &mut Rig, c: &mut TcpClient| -> (Option<Vec<u8>>, usize) {
        let before = rig.upstreams[0].tcp_frames_total();
        let mut answered = 0;
        for _ in 0..300 {
            rig.pump(4);
            rig.poll_upstreams();
            let u = &mut rig.upstreams[0];
            let total = u.tcp_frames_total() - before;
            while answered < total {
                // answer the newest unanswered frame
                for conn in u.conns.iter_mut() {
                    if let Some(f) = conn.frames_in.last().cloned() {
                        if let Ok((oq, _)) = rd::decode(&f) {
                            let rep = rd::Msg { id: oq.id, flags: 0x8180, question: oq.question.clone(), answer: vec![rd::Rr { name: oq.question[0].0.clone(), rtype: rd::T_A, class: 1, ttl: 3600, rdata: rd::Rdata::Raw(vec![10, 9, 8, 7]) }], authority: vec![], additional: vec![] };
                            let _ = conn.send_frame(&rd::encode(&rep, true));
                        }
                    }
                }
                answered = total;
            }
            c.poll();
            if let Some(b) = c.conn.frames_in.first() {
                return (Some(b.clone()), total);
            }
            if c.conn.eof {
                break;
            }
        }
        (None, rig.upstreams[0].tcp_frames_total() - before)
    };
    // step 1: if any source is allowed, let it warm the cache for "cached.example"
    let warm = allowed.iter().position(|a| *a);
    if let Some(w) = warm {
        let q = rd::encode(&rd::query(1, &rd::name("cached.example"), rd::T_A, 1, true, None), false);
        if let Ok(mut c) = TcpClient::connect(Some(sources[w].0), rig.listen_addr(sources[w].1)) {
            let _ = c.conn.send_frame(&q);
            let _ = serve(&mut rig, &mut c);
        }
    }
    for (si, (src, li)) in sources.iter().enumerate() {
        // with recursion desired and without: a query that does not ask for recursion is still a query
        // from this client, and a refused client must not be able to read the cache that way
        for (qi, name, rd_flag) in [(0usize, "cached.example".to_string(), true), (1, format!("fresh{si}.example"), true), (0, "cached.example".to_string(), false), (2, format!("fresh{si}n.example"), false)] {
            let name = &name;
            n += 1;
            let q = rd::encode(&rd::query(0x100 + n as u16, &rd::name(name), rd::T_A, 1, rd_flag, None), false);
            let mut c = match TcpClient::connect(Some(*src), rig.listen_addr(*li)) {
                Ok(c) => c,
                Err(e) => {
                    res.machinery = Some(e);
                    break;
                }
            };
            let _ = c.conn.send_frame(&q);
            let (reply, upq) = serve(&mut rig, &mut c);
            let sub = json!({"engine":"enet","check":"c08","entry":"dns","list":case["list"],"source":src.to_string(),"name":name,"rd":rd_flag});
            let mk = |oracle: &str, what: String| Violation::new(oracle, format!("acls {} source {src} query {name} (RD={}): {what}", acl_yaml(rules).trim(), rd_flag as u8), sub.clone()).sig("entry", "dns").sig("rd", rd_flag);
            match reply.and_then(|b| rd::decode(&b).ok()) {
                None => res.violations.push(mk("no-reply", "no (well-formed) reply".into())),
                Some((m, _)) => {
                    if allowed[si] && !rd_flag {
                        // what a permitted client gets without asking for recursion is not this property's subject
                    } else if allowed[si] {
                        if m.rcode() != 0 || m.answer.is_empty() {
                            res.violations.push(mk("permitted-refused", format!("first matching rule grants recursion but rcode is {}", m.rcode())));
                        }
                        if qi == 1 && upq != 1 {
                            res.violations.push(mk("permitted-not-forwarded", format!("upstream saw {upq} queries for a fresh name")));
                        }
                    } else {
                        if m.rcode() != 5 {
                            res.violations.push(mk("refused-rcode", format!("client must be refused but rcode is {}", m.rcode())));
                        }
                        if !m.answer.is_empty() {
                            res.violations.push(mk("refused-but-answered", "refused client received answer records (cache?)".into()));
                        }
                        if upq != 0 {
                            res.violations.push(mk("refused-but-forwarded", format!("refused client's query reached the upstream ({upq})")));
                        }
                    }
                }
            }
        }
    }
    let ps = rig.stop();
    if let Some(p) = ps.first() {
        res.violations.push(Violation::new("panic", format!("service task panicked: {} at {}", p.msg, panics::short_loc(&p.loc)), case.clone()).sig("loc", panics::short_loc(&p.loc)));
    }
    res.stats = json!({"entry_requests": n});
    res
}

fn http_entry(case: &Value, rules: &[Rule]) -> CaseResult {
    let pool = match erbium::dhcp::pool::Pool::new_in_memory() {
        Ok(p) => p,
        Err(e) => return CaseResult::machinery(e.to_string()),
    };
    let mut rig = match HttpRig::start(case["list"].as_u64().unwrap_or(0) as u32 + 3, &acl_yaml(rules), pool) {
        Ok(r) => r,
        Err(e) => return CaseResult::machinery(e),
    };
    let mut res = CaseResult::ok("http-entry");
    let vias: Vec<(Via, Client)> = vec![
        (Via::V4("127.0.0.2".parse().unwrap()), Client::Ip("127.0.0.2".parse().unwrap())),
        (Via::V4("127.0.0.3".parse().unwrap()), Client::Ip("127.0.0.3".parse().unwrap())),
        (Via::V4("127.0.0.4".parse().unwrap()), Client::Ip("127.0.0.4".parse().unwrap())),
        (Via::V6, Client::Ip("::1".parse().unwrap())),
        (Via::Mapped("127.0.0.2".parse().unwrap()), Client::Ip("::ffff:127.0.0.2".parse().unwrap())),
        (Via::Mapped("127.0.0.4".parse().unwrap()), Client::Ip("::ffff:127.0.0.4".parse().unwrap())),
        (Via::Unix, Client::Unix),
    ];
    let mut n = 0;
    for (via, cl) in &vias {
        for (path, op) in [("/", Some(1usize)), ("/metrics", Some(2)), ("/api/v1/leases.json", Some(3)), ("/nope", None)] {
            n += 1;
            let r = rig.get(*via, path);
            let sub = json!({"engine":"enet","check":"c08","entry":"http","list":case["list"],"via":format!("{:?}", via),"path":path});
            let mk = |oracle: &str, what: String| Violation::new(oracle, format!("acls {} client {:?} GET {path}: {what}", acl_yaml(rules).trim(), via), sub.clone()).sig("entry", "http").sig("path", path).sig("via", format!("{:?}", via).split('(').next().unwrap_or(""));
            match r {
                Err(e) => {
                    let ps = panics::take_all();
                    let mut v = mk("http-no-response", format!("{e}{}", ps.first().map(|p| format!(" (task panicked: {} at {})", p.msg, panics::short_loc(&p.loc))).unwrap_or_default()));
                    if let Some(p) = ps.first() {
                        v = v.sig("loc", panics::short_loc(&p.loc));
                    }
                    res.violations.push(v);
                }
                Ok((status, _h, _b)) => match op {
                    Some(op) => {
                        let want = if ref_decide(rules, cl, op) { 200 } else { 403 };
                        if status != want {
                            res.violations.push(mk("http-status", format!("status {status}, first-match reference says {want}")));
                        }
                    }
                    None => {
                        if status != 403 && status != 404 {
                            res.violations.push(mk("http-status", format!("unknown path answered {status}")));
                        }
                    }
                },
            }
        }
    }
    // the permission is checked per request, not per connection: every ordered pair (and one
    // triple) of paths on ONE keep-alive connection must get the statuses the same requests get on
    // connections of their own
    let known = [("/", 1usize), ("/metrics", 2), ("/api/v1/leases.json", 3)];
    for (via, cl) in &vias {
        let mut seqs: Vec<Vec<usize>> = vec![];
        for a in 0..3 {
            for b in 0..3 {
                seqs.push(vec![a, b]);
            }
        }
        seqs.push(vec![0, 1, 2]);
        seqs.push(vec![2, 1, 0]);
        for sq in seqs {
            let paths: Vec<&str> = sq.iter().map(|i| known[*i].0).collect();
            let want: Vec<u16> = sq.iter().map(|i| if ref_decide(rules, cl, known[*i].1) { 200 } else { 403 }).collect();
            n += paths.len();
            let sub = json!({"engine":"enet","check":"c08","entry":"http","list":case["list"],"via":format!("{:?}", via),"keep_alive":paths});
            match rig.get_seq(*via, &paths) {
                Err(e) => return CaseResult::machinery(e),
                Ok(got) => {
                    // the server may close after a response; what it did answer must be right
                    if got.is_empty() || got.iter().zip(want.iter()).any(|(g, w)| g != w) {
                        res.violations.push(
                            Violation::new("http-status", format!("acls {} client {:?}: GETs {:?} on one keep-alive connection answered {:?}, first-match reference says {:?}", acl_yaml(rules).trim(), via, paths, got, want), sub)
                                .sig("entry", "http")
                                .sig("keep_alive", "yes")
                                .sig("via", format!("{:?}", via).split('(').next().unwrap_or("")),
                        );
                    }
                }
            }
        }
    }
    let ps = rig.stop();
    if let Some(p) = ps.first() {
        res.violations.push(Violation::new("panic", format!("HTTP task panicked: {} at {}", p.msg, panics::short_loc(&p.loc)), case.clone()).sig("loc", panics::short_loc(&p.loc)).sig("entry", "http"));
    }
    res.stats = json!({"entry_requests": n});
    res
}

pub fn run_case(case: &Value) -> CaseResult {
    let lists = entry_lists();
    let i = case["list"].as_u64().unwrap_or(0) as usize;
    if i >= lists.len() {
        return CaseResult::machinery("unknown list");
    }
    match case["entry"].as_str() {
        Some("dns") => dns_entry(case, &lists[i]),
        _ => http_entry(case, &lists[i]),
    }
}

pub fn run(tier: &str, replay: Option<Value>) -> ! {
    let mut rep = Report::new("C08", if replay.is_some() { "quick" } else { tier }, "exploration");
    if let Some(case) = replay {
        rep.replay_mode = true;
        let case = if case.get("case").is_some() { case["case"].clone() } else { case };
        if case["engine"].as_str() == Some("enet") {
            netrun::replay_one(&mut rep, &case, run_case);
        } else {
            function_part(&mut rep, false);
        }
        rep.finish();
    }
    let (n, mut classes) = function_part(&mut rep, tier == "thorough");
    let agg = netrun::run_sharded(&mut rep, "C08", tier, cases, 16);
    let en = agg.stats_sum.get("entry_requests").copied().unwrap_or(0.0) as u64;
    for c in agg.classes.keys() {
        classes.insert(c.clone());
    }
    rep.cov("evaluations", n + en);
    rep.cov("distinct_nontrivial", classes.len() as u64);
    rep.cov("rule", "function: rule alphabet = 15 subnet-list shapes (absent, [], v4/v6 prefixes of several lengths with and without host bits, mapped ranges, mixed) x match-unix {absent,true,false} x 4 permission sets = 180 rules; all lists of length <=2, length 3 over the full product (quick: 24-rule sub-alphabet for the first two positions), lengths 4..6 over a 6-rule sub-alphabet, all 16 permission spellings; 25 clients (v4, v6, mapped, unix, boundary addresses) x 4 operations; Prefix::contains for every length 0..32 / 0..128 x host bits x 4 boundary addresses (+ mapped forms). entry points: 12 rule lists x (DNS over TCP from 4 sources, cached and fresh names; HTTP from 7 client kinds x 4 paths). distinct = (decision, operation) classes + entry classes");
    rep.cov("exhaustive", true);
    rep.cov("parts", json!({"function_decisions": n, "entry_point_requests": en}));
    rep.cov("classes", json!(classes));
    rep.cov("samples", json!([{"acls": "[{match-subnets: ['192.0.2.53/24'], apply-access: [http-ro]}]", "client": "192.0.2.7", "op": "metrics"}, {"entry": "http", "list": 1, "via": "Unix", "path": "/api/v1/leases.json"}]));
    rep.assume("unknown HTTP paths may answer 403 or 404");
    rep.finish()
}
