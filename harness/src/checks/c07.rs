//! C07: each DNS query gets exactly one reply, its own, under any schedule or fault.
//!
//! Deviation-bounded exhaustive exploration (iterated: 0, 1, 2 ... deviations) of the live
//! in-process DnsService.  The default environment answers every upstream transmission at once,
//! in order, correctly; a deviation is any departure from that: drop, hold until the next
//! retransmission, duplicate, wrong id, truncated, non-FIFO delivery, a TCP frame delivered in two
//! parts, two TCP replies coalesced into one write, the upstream closing the connection, a colliding upstream query id, maximal retry jitter.
//! Executions always run to the horizon.
use crate::common::panics;
use crate::common::report::{Report, Violation};
use crate::enet::{Rig, RigSpec, TcpClient, UdpClient, BASE_YAML};
use crate::netrun::{self, CaseResult};
use crate::refdns::{self as rd, Msg, Rdata, Rr};
use serde_json::{Value, json};
use std::cell::RefCell;
use std::collections::BTreeMap;
use std::net::{IpAddr, SocketAddr};
use std::time::Duration;

// ---------------------------------------------------------------------------
// Choice recording (prefix replay, default 0 afterwards)
// ---------------------------------------------------------------------------

#[derive(Default, Clone)]
pub struct Chooser {
    pub prefix: Vec<usize>,
    pub taken: Vec<(usize, usize, String)>, // (choice, options, label of the choice taken)
    pub diverged: Option<String>,
}

thread_local! {
    static CHOOSER: RefCell<Chooser> = RefCell::new(Chooser::default());
}

fn choose(labels: &[String]) -> usize {
    CHOOSER.with(|c| {
        let mut c = c.borrow_mut();
        let pos = c.taken.len();
        let n = labels.len();
        let mut ch = if pos < c.prefix.len() { c.prefix[pos] } else { 0 };
        if ch >= n {
            // replaying a prefix must never diverge: hard error
            c.diverged = Some(format!("choice {pos}: prefix wants option {ch} of {n}"));
            ch = 0;
        }
        c.taken.push((ch, n, labels[ch].clone()));
        ch
    })
}

// ---------------------------------------------------------------------------
// Scenario
// ---------------------------------------------------------------------------

#[derive(Clone, Debug)]
pub struct Scenario {
    pub name: &'static str,
    pub clients: Vec<(&'static str, &'static str)>, // (transport, qname)
    pub udp_default_tc: bool,
    pub listener: &'static str,
    pub client_ip: &'static str,
    /// a scripted prelude (no choice points): the first query's upstream is slow -- it answers nothing until the query has been
    /// transmitted three times and then answers the first transmission (some 2 s late) -- so that the forwarder's
    /// process-global retry timer has adapted before the remaining queries are explored; the next
    /// query is only sent once the first has been answered
    pub slow_first: bool,
}

pub fn scenarios() -> Vec<Scenario> {
    vec![
        Scenario { name: "1udp", clients: vec![("udp", "q0.example")], udp_default_tc: false, listener: "::1", client_ip: "::1", slow_first: false },
        Scenario { name: "2tcp", clients: vec![("tcp", "q0.example"), ("tcp", "q1.example")], udp_default_tc: false, listener: "::1", client_ip: "::1", slow_first: false },
        Scenario { name: "2udp", clients: vec![("udp", "q0.example"), ("udp", "q1.example")], udp_default_tc: false, listener: "::1", client_ip: "::1", slow_first: false },
        Scenario { name: "2udp-tc", clients: vec![("udp", "q0.example"), ("udp", "q1.example")], udp_default_tc: true, listener: "::1", client_ip: "::1", slow_first: false },
        Scenario { name: "3tcp", clients: vec![("tcp", "q0.example"), ("tcp", "q1.example"), ("tcp", "q2.example")], udp_default_tc: false, listener: "::1", client_ip: "::1", slow_first: false },
        Scenario { name: "2udp-same", clients: vec![("udp", "same.example"), ("udp", "same.example")], udp_default_tc: false, listener: "::1", client_ip: "::1", slow_first: false },
        Scenario { name: "1tcp", clients: vec![("tcp", "q0.example")], udp_default_tc: false, listener: "::1", client_ip: "::1", slow_first: false },
        // more queries in flight than the per-nameserver request channel holds (capacity 2)
        Scenario { name: "6tcp", clients: vec![("tcp", "q0.example"), ("tcp", "q1.example"), ("tcp", "q2.example"), ("tcp", "q3.example"), ("tcp", "q4.example"), ("tcp", "q5.example")], udp_default_tc: false, listener: "::1", client_ip: "::1", slow_first: false },
        Scenario { name: "4udp-tc", clients: vec![("udp", "q0.example"), ("udp", "q1.example"), ("udp", "q2.example"), ("udp", "q3.example")], udp_default_tc: true, listener: "::1", client_ip: "::1", slow_first: false },
        Scenario { name: "mixed", clients: vec![("udp", "q0.example"), ("tcp", "q1.example"), ("udp", "q0.example")], udp_default_tc: false, listener: "::1", client_ip: "::1", slow_first: false },
        // state carried from one exchange to the next (the adaptive retry timer)
        Scenario { name: "2udp-after-slow", clients: vec![("udp", "slow.example"), ("udp", "q1.example")], udp_default_tc: false, listener: "::1", client_ip: "::1", slow_first: true },
    ]
}

#[derive(Clone, Debug)]
enum Via {
    Udp(SocketAddr),
    Tcp(usize), // connection index
}

#[derive(Clone, Debug)]
struct Item {
    via: Via,
    query: Msg,
    done: bool,       // delivered / dropped
    held: bool,       // deliver when the next transmission for the same name shows up
    rest: Option<Vec<u8>>, // second part of a partially delivered TCP frame
    seq: usize,
    owner: usize, // client query this upstream transmission belongs to
    seen_at: Duration, // virtual time at which the upstream saw it
}

/// What the environment did to one client query's upstream exchange (harness-side bookkeeping
/// for the oracle; mirrors only what is observable on the wire).
#[derive(Clone, Debug, Default)]
struct Exch {
    qids: Vec<u16>,
    /// a TC / foreign-id UDP reply was delivered: from then on the forwarder ignores UDP replies
    pushed_to_tcp: bool,
    /// a correct reply was delivered at a moment the forwarder was able to use it
    usable_ok: bool,
    /// a reply was lost for good (drop, close, foreign id on TCP, never-released hold)
    lossy: bool,
}

fn answer_for(qname: &rd::Name) -> Vec<u8> {
    // the answer embeds the question name: an A record whose address is a hash of the name
    let h = crate::common::util::fnv64(rd::name_str(qname).to_ascii_lowercase().as_bytes());
    vec![10, (h >> 16) as u8, (h >> 8) as u8, h as u8]
}

fn ok_reply(q: &Msg, id: u16, tc: bool) -> Msg {
    let qn = q.question[0].0.clone();
    let an = if tc { vec![] } else { vec![Rr { name: qn.clone(), rtype: rd::T_A, class: 1, ttl: 300, rdata: Rdata::Raw(answer_for(&qn)) }] };
    Msg { id, flags: 0x8180 | if tc { 0x0200 } else { 0 }, question: q.question.clone(), answer: an, authority: vec![], additional: vec![] }
}

pub struct ExecOutcome {
    pub violations: Vec<(String, String, Vec<(String, String)>)>, // (oracle, what, sig)
    pub class: String,
    pub taken: Vec<(usize, usize, String)>,
    pub machinery: Option<String>,
    pub max_latency_ms: u64,
}

const HORIZON: Duration = Duration::from_secs(130);

/// Execute one scenario under the given choice prefix.
pub fn execute(sc: &Scenario, prefix: &[usize]) -> ExecOutcome {
    CHOOSER.with(|c| *c.borrow_mut() = Chooser { prefix: prefix.to_vec(), taken: vec![], diverged: None });
    // deterministic upstream query ids; option 1 = collide with the previous id (a deviation)
    let qid_counter = std::sync::Arc::new(std::sync::atomic::AtomicU32::new(0));
    {
        let qc = qid_counter.clone();
        *erbium::dns::verif::QID_HOOK.lock().unwrap() = Some(Box::new(move |_random| {
            let n = qc.fetch_add(1, std::sync::atomic::Ordering::SeqCst);
            let base = 0x1000u16;
            if n > 0 {
                let ch = choose(&["qid:distinct".to_string(), "qid:collide-with-previous".to_string()]);
                if ch == 1 {
                    qc.fetch_sub(1, std::sync::atomic::Ordering::SeqCst);
                    return base + (n - 1) as u16;
                }
            }
            base + n as u16
        }));
        *erbium::dns::verif::JITTER_HOOK.lock().unwrap() = Some(Box::new(move |_random, max| {
            let ch = choose(&["jitter:0".to_string(), "jitter:max".to_string()]);
            if ch == 1 { max - Duration::from_nanos(1) } else { Duration::ZERO }
        }));
    }
    let out = execute_inner(sc);
    *erbium::dns::verif::QID_HOOK.lock().unwrap() = None;
    *erbium::dns::verif::JITTER_HOOK.lock().unwrap() = None;
    out
}

struct ClientState {
    udp: Option<UdpClient>,
    tcp: Option<TcpClient>,
    sent_at: Option<Duration>,
    first_reply_at: Option<Duration>,
    qname: rd::Name,
    id: u16,
    dst: SocketAddr,
}

fn execute_inner(sc: &Scenario) -> ExecOutcome {
    let mut out = ExecOutcome { violations: vec![], class: String::new(), taken: vec![], machinery: None, max_latency_ms: 0 };
    let spec = RigSpec { listeners: vec![sc.listener.into()], n_upstreams: 1, yaml: BASE_YAML.into() };
    let mut rig = match Rig::start(&spec) {
        Ok(r) => r,
        Err(e) => {
            out.machinery = Some(e);
            return out;
        }
    };
    let cip: IpAddr = sc.client_ip.parse().unwrap();
    let mut clients: Vec<ClientState> = sc.clients.iter().enumerate().map(|(i, (_, n))| ClientState { udp: None, tcp: None, sent_at: None, first_reply_at: None, qname: rd::name(n), id: 0x7000 + i as u16, dst: rig.listen_addr(0) }).collect();
    let mut items: Vec<Item> = vec![];
    let mut seen_udp = 0usize;
    let mut seen_tcp: Vec<usize> = vec![];
    let mut next_client = 0usize;
    let mut exch: Vec<Exch> = vec![Exch::default(); sc.clients.len()];
    let mut transmissions: BTreeMap<String, u32> = BTreeMap::new();
    let mut closed_conns: Vec<usize> = vec![];
    let mut any_close = false;
    let mut step_guard = 0;
    let mut events: Vec<String> = vec![];
    let trace = std::env::var("VERIF_C07_TRACE").is_ok();
    // names for which an upstream TCP transmission could belong to more than one client exchange:
    // on a shared TCP connection the forwarder renumbers a query whose id is in use, so the id no
    // longer tells same-name exchanges apart; their group is then judged as a whole
    let mut ambiguous_names: std::collections::BTreeSet<String> = Default::default();

    // upstream transmissions are attributed to client queries by (question name, upstream id):
    // the k-th distinct id seen for a name belongs to the k-th client asking that name
    fn owner_of(exch: &mut [Exch], clients: &[ClientState], m: &Msg) -> usize {
        let key = rd::name_str(&m.question[0].0).to_ascii_lowercase();
        let same: Vec<usize> = clients.iter().enumerate().filter(|(_, c)| rd::name_str(&c.qname).to_ascii_lowercase() == key).map(|(i, _)| i).collect();
        for &i in &same {
            if exch[i].qids.contains(&m.id) {
                return i;
            }
        }
        for &i in &same {
            if exch[i].qids.is_empty() && clients[i].sent_at.is_some() {
                exch[i].qids.push(m.id);
                return i;
            }
        }
        let i = same.first().copied().unwrap_or(0);
        exch[i].qids.push(m.id);
        i
    }

    macro_rules! fail {
        ($e:expr) => {{
            out.machinery = Some($e);
            let _ = rig.stop();
            return out;
        }};
    }

    loop {
        step_guard += 1;
        if step_guard > 5000 {
            fail!("scenario did not terminate in 5000 steps".to_string());
        }
        // ---- observe
        rig.pump(6);
        rig.poll_upstreams();
        let rig_now = rig.virt_elapsed;
        let up = &mut rig.upstreams[0];
        while seen_udp < up.udp_rx.len() {
            let (b, src) = up.udp_rx[seen_udp].clone();
            seen_udp += 1;
            match rd::decode(&b) {
                Ok((m, _)) => {
                    let key = rd::name_str(&m.question[0].0).to_ascii_lowercase();
                    *transmissions.entry(key.clone()).or_insert(0) += 1;
                    // a held item for the same name is released by this retransmission
                    for it in items.iter_mut() {
                        if it.held && !it.done && rd::name_str(&it.query.question[0].0).to_ascii_lowercase() == key {
                            it.held = false;
                        }
                    }
                    let seq = items.len();
                    let owner = owner_of(&mut exch, &clients, &m);
                    if trace {
                        eprintln!("    [{:?}] upstream sees UDP item{seq}: {} id {:#06x} from {src} -> owner {owner}", rig_now, rd::name_str(&m.question[0].0), m.id);
                    }
                    items.push(Item { via: Via::Udp(src), query: m, done: false, held: false, rest: None, seq, owner, seen_at: rig_now });
                }
                Err(e) => out.violations.push(("upstream-query-malformed".into(), format!("query sent upstream is malformed: {e}"), vec![])),
            }
        }
        while seen_tcp.len() < up.conns.len() {
            seen_tcp.push(0);
        }
        for ci in 0..up.conns.len() {
            while seen_tcp[ci] < up.conns[ci].frames_in.len() {
                let b = up.conns[ci].frames_in[seen_tcp[ci]].clone();
                seen_tcp[ci] += 1;
                match rd::decode(&b) {
                    Ok((m, _)) => {
                        let seq = items.len();
                        let owner = owner_of(&mut exch, &clients, &m);
                        {
                            let key = rd::name_str(&m.question[0].0).to_ascii_lowercase();
                            if clients.iter().filter(|c| c.sent_at.is_some() && rd::name_str(&c.qname).to_ascii_lowercase() == key).count() > 1 {
                                ambiguous_names.insert(key);
                            }
                        }
                        if trace {
                            eprintln!("    [{:?}] upstream sees TCP item{seq} on conn{ci}: {} id {:#06x} -> owner {owner}", rig_now, rd::name_str(&m.question[0].0), m.id);
                        }
                        items.push(Item { via: Via::Tcp(ci), query: m, done: false, held: false, rest: None, seq, owner, seen_at: rig_now });
                    }
                    Err(e) => out.violations.push(("upstream-query-malformed".into(), format!("TCP query sent upstream is malformed: {e}"), vec![])),
                }
            }
        }
        let now = rig.virt_elapsed;
        for c in clients.iter_mut() {
            let n = if let Some(u) = c.udp.as_mut() {
                u.poll();
                u.rx.len()
            } else if let Some(t) = c.tcp.as_mut() {
                t.poll();
                t.conn.frames_in.len()
            } else {
                0
            };
            if n > 0 && c.first_reply_at.is_none() {
                c.first_reply_at = Some(now);
            }
        }
        // ---- termination
        let all_sent = next_client >= clients.len();
        let all_answered = all_sent && clients.iter().all(|c| c.first_reply_at.is_some());
        if all_answered || now >= HORIZON {
            break;
        }
        // ---- menu
        // TCP is a byte stream: while a frame is half delivered on a connection nothing else can be
        // written to that connection (only the rest of that frame, or a close).
        let busy: Vec<usize> = items.iter().filter(|it| !it.done && it.rest.is_some()).filter_map(|it| if let Via::Tcp(c) = it.via { Some(c) } else { None }).collect();
        let pending: Vec<usize> = items
            .iter()
            .enumerate()
            .filter(|(_, it)| !it.done && !it.held)
            .filter(|(_, it)| match it.via {
                Via::Tcp(c) if busy.contains(&c) => it.rest.is_some(),
                _ => true,
            })
            .map(|(i, _)| i)
            .collect();
        let mut menu: Vec<(String, Box<dyn Fn() -> Act>)> = vec![];
        #[derive(Clone, Debug)]
        enum Act {
            SendNext,
            Deliver(usize, &'static str),
            Drop(usize),
            Hold(usize),
            Partial(usize, usize),
            Coalesced(usize, usize),
            Close(usize),
            Tick,
            PreludeDeliver(usize),
        }
        // scripted prelude of a slow-first scenario: no choice points until the first query is answered
        let in_prelude = sc.slow_first && next_client >= 1 && clients[0].first_reply_at.is_none();
        if in_prelude {
            let act = match pending.first() {
                None => Act::Tick,
                Some(&p) => {
                    // wait (answer nothing) until the query has been transmitted three times, then
                    // answer the FIRST transmission -- by then some two seconds old
                    let key = rd::name_str(&items[p].query.question[0].0).to_ascii_lowercase();
                    if transmissions.get(&key).copied().unwrap_or(0) < 3 {
                        Act::Tick
                    } else {
                        Act::PreludeDeliver(p)
                    }
                }
            };
            menu.push((format!("prelude:{:?}", act), Box::new(move || act.clone())));
        } else if !all_sent {
            menu.push(("send-next-query".into(), Box::new(|| Act::SendNext)));
        } else if let Some(&p) = pending.first() {
            let kind = if sc.udp_default_tc && matches!(items[p].via, Via::Udp(_)) { "tc" } else if items[p].rest.is_some() { "rest" } else { "ok" };
            menu.push((format!("deliver:{kind}:item{}", items[p].seq), Box::new(move || Act::Deliver(p, kind))));
        } else {
            menu.push(("tick".into(), Box::new(|| Act::Tick)));
        }
        // alternatives (each is one deviation); only when something is pending
        if !pending.is_empty() && !in_prelude {
            for (rank, &p) in pending.iter().take(3).enumerate() {
                let it = &items[p];
                let s = it.seq;
                if it.rest.is_some() {
                    if rank > 0 || !all_sent {
                        menu.push((format!("deliver:rest:item{s}"), Box::new(move || Act::Deliver(p, "rest"))));
                    }
                    continue;
                }
                let is_udp = matches!(it.via, Via::Udp(_));
                let default_kind = if sc.udp_default_tc && is_udp { "tc" } else { "ok" };
                if rank > 0 || !all_sent {
                    menu.push((format!("deliver:{default_kind}:item{s}"), Box::new(move || Act::Deliver(p, default_kind))));
                }
                menu.push((format!("drop:item{s}"), Box::new(move || Act::Drop(p))));
                menu.push((format!("deliver:dup:item{s}"), Box::new(move || Act::Deliver(p, "dup"))));
                if is_udp {
                    menu.push((format!("deliver:wrongid:item{s}"), Box::new(move || Act::Deliver(p, "wrongid"))));
                    if default_kind != "tc" {
                        menu.push((format!("deliver:tc:item{s}"), Box::new(move || Act::Deliver(p, "tc"))));
                    } else {
                        menu.push((format!("deliver:ok:item{s}"), Box::new(move || Act::Deliver(p, "ok"))));
                    }
                    // hold only makes sense if a retransmission can still come
                    let key = rd::name_str(&it.query.question[0].0).to_ascii_lowercase();
                    if transmissions.get(&key).copied().unwrap_or(0) < 4 {
                        menu.push((format!("hold-until-retransmit:item{s}"), Box::new(move || Act::Hold(p))));
                    }
                } else {
                    menu.push((format!("partial:1:item{s}"), Box::new(move || Act::Partial(p, 1))));
                    menu.push((format!("partial:5:item{s}"), Box::new(move || Act::Partial(p, 5))));
                    menu.push((format!("deliver:wrongid:item{s}"), Box::new(move || Act::Deliver(p, "wrongid"))));
                }
            }
            // two replies written back to back, so that one read() on the other side returns both
            // (segment coalescing); both orders
            let tcp_pending: Vec<usize> = pending.iter().copied().filter(|&p| matches!(items[p].via, Via::Tcp(_)) && items[p].rest.is_none()).collect();
            if tcp_pending.len() >= 2 {
                let (a, b) = (tcp_pending[0], tcp_pending[1]);
                if let (Via::Tcp(ca), Via::Tcp(cb)) = (&items[a].via, &items[b].via) {
                    if ca == cb {
                        let (sa, sb) = (items[a].seq, items[b].seq);
                        menu.push((format!("deliver:coalesced:item{sa}+item{sb}"), Box::new(move || Act::Coalesced(a, b))));
                        menu.push((format!("deliver:coalesced:item{sb}+item{sa}"), Box::new(move || Act::Coalesced(b, a))));
                    }
                }
            }
            let mut conns: Vec<usize> = pending.iter().filter_map(|&p| if let Via::Tcp(c) = items[p].via { Some(c) } else { None }).collect();
            conns.dedup();
            for c in conns.into_iter().take(1) {
                if !closed_conns.contains(&c) {
                    menu.push((format!("close:conn{c}"), Box::new(move || Act::Close(c))));
                }
            }
            if all_sent {
                menu.push(("tick-before-delivering".into(), Box::new(|| Act::Tick)));
            }
        }
        let labels: Vec<String> = menu.iter().map(|m| m.0.clone()).collect();
        let ch = if menu.len() > 1 { choose(&labels) } else { 0 };
        let act = (menu[ch].1)();
        events.push(labels[ch].clone());
        if trace {
            eprintln!("    [{:?}] action: {} (of {:?})", now, labels[ch], labels);
            for (i, c) in clients.iter().enumerate() {
                let n = c.udp.as_ref().map(|u| u.rx.len()).or(c.tcp.as_ref().map(|t| t.conn.frames_in.len())).unwrap_or(0);
                if n > 0 {
                    eprintln!("        client {i} has {n} reply(ies)");
                }
            }
        }
        drop(menu);
        // ---- act
        match act {
            Act::SendNext => {
                let i = next_client;
                next_client += 1;
                let q = rd::query(clients[i].id, &clients[i].qname, rd::T_A, 1, true, Some(rd::opt_rr(1232, 0, 0, false, vec![])));
                let b = rd::encode(&q, false);
                let dst = clients[i].dst;
                let r = if sc.clients[i].0 == "tcp" {
                    TcpClient::connect(Some(cip), dst).and_then(|mut c| {
                        c.conn.send_frame(&b)?;
                        clients[i].tcp = Some(c);
                        Ok(())
                    })
                } else {
                    UdpClient::new(cip).and_then(|c| {
                        c.send(dst, &b)?;
                        clients[i].udp = Some(c);
                        Ok(())
                    })
                };
                if let Err(e) = r {
                    fail!(e);
                }
                clients[i].sent_at = Some(rig.virt_elapsed);
                // the forwarded query must reach the upstream before the next event (positive barrier)
                let want_items = items.len() + 1;
                let (su, st) = (seen_udp, seen_tcp.iter().sum::<usize>());
                let _ = want_items;
                let _ = rig.wait_until(|r| r.upstreams[0].udp_rx.len() > su || r.upstreams[0].tcp_frames_total() > st, "forwarded query reaches the upstream");
            }
            Act::Tick => {
                rig.advance(Duration::from_millis(100));
            }
            Act::PreludeDeliver(p) => {
                let it = items[p].clone();
                let b = rd::encode(&ok_reply(&it.query, it.query.id, false), true);
                let r = match &it.via {
                    Via::Udp(src) => rig.upstreams[0].udp_reply(*src, &b),
                    Via::Tcp(c) => rig.upstreams[0].conns[*c].send_frame(&b),
                };
                let owner = it.owner;
                if r.is_ok() {
                    exch[owner].usable_ok = true;
                } else {
                    exch[owner].lossy = true;
                }
                // the other transmissions of the slow query are never answered
                for other in items.iter_mut() {
                    if other.owner == owner {
                        other.done = true;
                    }
                }
            }
            Act::Drop(p) => {
                items[p].done = true;
                exch[items[p].owner].lossy = true;
            }
            Act::Hold(p) => {
                items[p].held = true;
            }
            Act::Close(c) => {
                any_close = true;
                closed_conns.push(c);
                let conn = &rig.upstreams[0].conns[c];
                let _ = conn.stream.shutdown(std::net::Shutdown::Both);
                for it in items.iter_mut() {
                    if matches!(it.via, Via::Tcp(x) if x == c) {
                        if !it.done {
                            exch[it.owner].lossy = true;
                        }
                        it.done = true;
                    }
                }
            }
            Act::Coalesced(a, b) => {
                let mut buf = vec![];
                for p in [a, b] {
                    let it = &items[p];
                    let body = rd::encode(&ok_reply(&it.query, it.query.id, false), true);
                    buf.extend_from_slice(&(body.len() as u16).to_be_bytes());
                    buf.extend_from_slice(&body);
                }
                if let Via::Tcp(c) = items[a].via {
                    let ok = rig.upstreams[0].conns[c].send_raw(&buf).is_ok() && !closed_conns.contains(&c);
                    for p in [a, b] {
                        items[p].done = true;
                        if ok {
                            exch[items[p].owner].usable_ok = true;
                        } else {
                            exch[items[p].owner].lossy = true;
                        }
                    }
                }
            }
            Act::Partial(p, k) => {
                let it = items[p].clone();
                let reply = ok_reply(&it.query, it.query.id, false);
                let body = rd::encode(&reply, true);
                let mut frame = (body.len() as u16).to_be_bytes().to_vec();
                frame.extend_from_slice(&body);
                if let Via::Tcp(c) = it.via {
                    if let Err(e) = rig.upstreams[0].conns[c].send_raw(&frame[..k]) {
                        let _ = e; // connection already gone: same as a drop
                        items[p].done = true;
                    } else {
                        items[p].rest = Some(frame[k..].to_vec());
                    }
                }
            }
            Act::Deliver(p, kind) => {
                let it = items[p].clone();
                let key = rd::name_str(&it.query.question[0].0).to_ascii_lowercase();
                let mut full_ok = false;
                let res: Result<(), String> = match (&it.via, kind) {
                    (Via::Tcp(c), "rest") => {
                        full_ok = true;
                        rig.upstreams[0].conns[*c].send_raw(it.rest.as_ref().unwrap())
                    }
                    (via, k) => {
                        let id = if k == "wrongid" { it.query.id ^ 0x0101 } else { it.query.id };
                        if k == "wrongid" && matches!(via, Via::Tcp(_)) {
                            // on TCP a reply with a foreign id is simply a lost reply
                            exch[it.owner].lossy = true;
                        }
                        let reply = ok_reply(&it.query, id, k == "tc");
                        let b = rd::encode(&reply, true);
                        full_ok = k == "ok" || k == "dup";
                        let times = if k == "dup" { 2 } else { 1 };
                        let mut r = Ok(());
                        for _ in 0..times {
                            r = match via {
                                Via::Udp(src) => rig.upstreams[0].udp_reply(*src, &b),
                                Via::Tcp(c) => rig.upstreams[0].conns[*c].send_frame(&b),
                            };
                        }
                        r
                    }
                };
                items[p].done = true;
                items[p].rest = None;
                let _ = key;
                let e = &mut exch[it.owner];
                match (&it.via, res) {
                    (Via::Udp(_), Ok(())) => {
                        if e.pushed_to_tcp {
                            // the forwarder already committed to TCP for this query: UDP replies are moot
                        } else if full_ok {
                            e.usable_ok = true;
                        } else if kind == "tc" || kind == "wrongid" {
                            e.pushed_to_tcp = true;
                        }
                    }
                    (Via::Tcp(c), Ok(())) => {
                        if full_ok && !closed_conns.contains(c) {
                            e.usable_ok = true;
                        }
                    }
                    (_, Err(_)) => {
                        // peer socket already closed (the forwarder gave up on it): the reply is lost
                        e.lossy = true;
                    }
                }
            }
        }
    }
    // ---- cool-down: run on to the horizon in coarse steps so that late duplicates are seen
    let mut guard = 0;
    while rig.virt_elapsed < HORIZON + Duration::from_secs(5) && guard < 40 {
        guard += 1;
        rig.advance(Duration::from_secs(5));
        rig.pump(4);
        rig.poll_upstreams();
    }
    let now = rig.virt_elapsed;
    for c in clients.iter_mut() {
        if let Some(u) = c.udp.as_mut() {
            u.poll();
        }
        if let Some(t) = c.tcp.as_mut() {
            t.poll();
        }
    }
    let _ = now;
    let ps = rig.stop();
    // ---- judge
    let mut classes: Vec<String> = vec![];
    for (i, c) in clients.iter().enumerate() {
        if c.sent_at.is_none() {
            continue;
        }
        let replies: Vec<(Vec<u8>, Option<SocketAddr>)> = if let Some(u) = &c.udp { u.rx.iter().map(|(b, f)| (b.clone(), Some(*f))).collect() } else if let Some(t) = &c.tcp { t.conn.frames_in.iter().map(|b| (b.clone(), None)).collect() } else { vec![] };
        let key = rd::name_str(&c.qname).to_ascii_lowercase();
        let tr = sc.clients[i].0;
        if replies.len() != 1 {
            let mut sig = vec![("transport".to_string(), tr.to_string()), ("replies".to_string(), replies.len().min(2).to_string())];
            if let Some(p) = ps.first() {
                sig.push(("panic_loc".into(), panics::short_loc(&p.loc)));
            }
            out.violations.push((
                "exactly-one-reply".into(),
                format!("query {i} ({tr} {key}) received {} replies by the {}s horizon{}", replies.len(), HORIZON.as_secs(), ps.first().map(|p| format!(" (service task panicked: {} at {})", p.msg, panics::short_loc(&p.loc))).unwrap_or_default()),
                sig,
            ));
            classes.push(format!("{}replies", replies.len().min(2)));
            continue;
        }
        let (b, from) = &replies[0];
        if let Some(f) = from {
            if *f != c.dst {
                out.violations.push(("reply-source".into(), format!("query {i} was sent to {} but the reply came from {f}", c.dst), vec![]));
            }
        }
        match rd::decode(b) {
            Err(e) => out.violations.push(("reply-malformed".into(), format!("reply to query {i} is malformed: {e}"), vec![])),
            Ok((m, _)) => {
                if m.id != c.id || m.question.first().map(|q| &q.0) != Some(&c.qname) {
                    out.violations.push(("reply-mismatch".into(), format!("reply to query {i} carries id {:#x} question {:?}", m.id, m.question.first().map(|q| rd::name_str(&q.0))), vec![]));
                }
                let rc = m.rcode();
                let good = rc == 0 && m.answer.len() == 1 && m.answer[0].rdata == Rdata::Raw(answer_for(&c.qname));
                if rc == 0 && !good {
                    out.violations.push(("wrong-answer".into(), format!("query {i} for {key} got an answer that is not the one scripted for its question: {:?}", m.answer), vec![]));
                }
                // Attribution of upstream transmissions to client queries is by (name, upstream id).
                // When two clients ask the same name with the same upstream id the wire does not
                // tell their exchanges apart: judge the group conservatively.
                let group: Vec<usize> = clients
                    .iter()
                    .enumerate()
                    .filter(|(j, cj)| *j == i || (rd::name_str(&cj.qname).to_ascii_lowercase() == key && (ambiguous_names.contains(&key) || exch[*j].qids.is_empty() || exch[i].qids.is_empty() || exch[*j].qids.iter().any(|q| exch[i].qids.contains(q)))))
                    .map(|(j, _)| j)
                    .collect();
                let had_ok = group.iter().all(|j| exch[*j].usable_ok);
                // a held reply that was never released is a lost reply
                let lossy = group.iter().any(|j| exch[*j].lossy || items.iter().any(|it| it.owner == *j && (it.held || !it.done)));
                if had_ok && !good {
                    out.violations.push((
                        "answer-lost".into(),
                        format!("a correct upstream reply for {key} was delivered in full, yet query {i} ({tr}) got rcode {rc}{}", ps.first().map(|p| format!(" (service task panicked: {} at {})", p.msg, panics::short_loc(&p.loc))).unwrap_or_default()),
                        vec![("transport".to_string(), tr.to_string())],
                    ));
                }
                if !had_ok && !good && rc == 2 && !any_close && !lossy {
                    out.violations.push((
                        "servfail-without-fault".into(),
                        format!("query {i} ({tr} {key}) got SERVFAIL although the environment lost none of its upstream replies{}", ps.first().map(|p| format!(" (service task panicked: {} at {})", p.msg, panics::short_loc(&p.loc))).unwrap_or_default()),
                        ps.first().map(|p| vec![("panic_loc".to_string(), panics::short_loc(&p.loc))]).unwrap_or_default(),
                    ));
                }
                if !had_ok && !good && rc != 2 {
                    out.violations.push(("silent-upstream-rcode".into(), format!("upstream reply for {key} never arrived but query {i} got rcode {rc}, expected SERVFAIL"), vec![]));
                }
                classes.push(if good { "answered".into() } else { format!("rcode{rc}") });
                if let (Some(s), Some(r)) = (c.sent_at, c.first_reply_at) {
                    out.max_latency_ms = out.max_latency_ms.max((r - s).as_millis() as u64);
                }
            }
        }
    }
    for (k, n) in &transmissions {
        if *n > 5 * sc.clients.iter().filter(|c| c.1.eq_ignore_ascii_case(k)).count().max(1) as u32 {
            out.violations.push(("too-many-transmissions".into(), format!("{n} UDP transmissions for {k}"), vec![]));
        }
    }
    if !ps.is_empty() && out.violations.is_empty() {
        // a panic that did not disturb any observation is C05's business, but it is worth a class
        classes.push("panic-without-effect".into());
    }
    classes.sort();
    out.class = format!("{}:{}", sc.name, classes.join("+"));
    let ch = CHOOSER.with(|c| c.borrow().clone());
    out.taken = ch.taken;
    if let Some(d) = ch.diverged {
        out.machinery = Some(format!("divergence while replaying a prefix: {d}"));
    }
    let _ = events;
    out
}

// ---------------------------------------------------------------------------
// Deviation-bounded DFS below a root prefix
// ---------------------------------------------------------------------------

fn deviations(p: &[usize]) -> usize {
    p.iter().filter(|x| **x != 0).count()
}

pub struct SubtreeResult {
    pub executions: u64,
    pub classes: BTreeMap<String, u64>,
    pub violations: Vec<Violation>,
    pub machinery: Option<String>,
    pub max_latency_ms: u64,
    pub max_choice_points: usize,
}

pub fn explore(sc: &Scenario, root: &[usize], bound: usize, res: &mut SubtreeResult, first_free: usize) {
    let o = execute(sc, root);
    res.executions += 1;
    *res.classes.entry(o.class.clone()).or_insert(0) += 1;
    res.max_latency_ms = res.max_latency_ms.max(o.max_latency_ms);
    res.max_choice_points = res.max_choice_points.max(o.taken.len());
    if let Some(m) = o.machinery {
        if res.machinery.is_none() {
            res.machinery = Some(format!("{} prefix {:?}: {m}", sc.name, root));
        }
        return;
    }
    let labels: Vec<String> = o.taken.iter().map(|t| t.2.clone()).collect();
    for (oracle, what, sig) in o.violations {
        let devs: Vec<&String> = o.taken.iter().filter(|t| t.0 != 0).map(|t| &t.2).collect();
        let case = json!({"engine":"enet","check":"c07","scenario":sc.name,"prefix":o.taken.iter().map(|t| t.0).collect::<Vec<_>>(),"events":labels,"deviations":devs});
        let mut v = Violation::new(&oracle, format!("[{} | deviations: {:?}] {what}", sc.name, devs), case).sig("scenario", sc.name);
        // signature: the kinds of deviation involved (not their positions)
        let mut kinds: Vec<String> = devs.iter().map(|d| d.split(':').take(2).collect::<Vec<_>>().join(":").trim_end_matches(char::is_numeric).to_string()).map(|k| k.split(":item").next().unwrap_or(&k).to_string()).collect();
        kinds.sort();
        kinds.dedup();
        v = v.sig("deviation_kinds", kinds.join(","));
        for (k, val) in sig {
            v = v.sig(&k, val);
        }
        if res.violations.len() < 400 {
            res.violations.push(v);
        }
    }
    let used = deviations(&o.taken.iter().map(|t| t.0).collect::<Vec<_>>());
    if used >= bound {
        return;
    }
    let start = first_free.max(root.len());
    for i in start..o.taken.len() {
        let (_, n, _) = o.taken[i];
        for alt in 1..n {
            let mut p: Vec<usize> = o.taken[..i].iter().map(|t| t.0).collect();
            p.push(alt);
            explore(sc, &p, bound, res, i + 1);
        }
    }
}

fn bound_for(tier: &str, sc: &str) -> usize {
    match (tier, sc) {
        ("thorough", "1udp") => 4,
        ("thorough", "6tcp") | ("thorough", "4udp-tc") | ("thorough", "2udp-after-slow") => 2,
        ("thorough", _) => 3,
        (_, "1udp") => 3,
        (_, "6tcp") | (_, "4udp-tc") => 1,
        (_, "2udp-after-slow") => 1,
        _ => 2,
    }
}

/// Cases = (scenario, first deviation) subtrees + one case for the deviation-free run, + family F3.
pub fn cases(tier: &str) -> Vec<Value> {
    let mut out = vec![];
    for sc in scenarios() {
        let bound = bound_for(tier, sc.name);
        let o = execute(&sc, &[]);
        out.push(json!({"engine":"enet","check":"c07","kind":"subtree","scenario":sc.name,"root":[],"bound":0}));
        if bound >= 1 {
            for i in 0..o.taken.len() {
                for alt in 1..o.taken[i].1 {
                    let mut p: Vec<usize> = o.taken[..i].iter().map(|t| t.0).collect();
                    p.push(alt);
                    out.push(json!({"engine":"enet","check":"c07","kind":"subtree","scenario":sc.name,"root":p,"bound":bound}));
                }
            }
        }
    }
    // F3: listener family x client family x transport
    for (listener, client, dst) in [("127.0.0.1", "127.0.0.1", "127.0.0.1"), ("::1", "::1", "::1"), ("::", "::1", "::1"), ("::", "127.0.0.1", "127.0.0.1"), ("127.0.0.1", "127.0.0.3", "127.0.0.1")] {
        for tr in ["udp", "tcp"] {
            out.push(json!({"engine":"enet","check":"c07","kind":"family","listener":listener,"client":client,"dst":dst,"transport":tr}));
        }
    }
    // big answers to UDP clients that advertise more than a UDP datagram can carry
    for (listener, client) in [("127.0.0.1", "127.0.0.1"), ("::1", "::1")] {
        for adv in [65535u32, 65508, 65507, 32768] {
            out.push(json!({"engine":"enet","check":"c07","kind":"big","listener":listener,"client":client,"advertised":adv}));
        }
    }
    // uptime: the service has been up (and silent) for a day or more when the query arrives -- state
    // with a lifetime (the cookie keys rotate after 24-36 h) must not cost the client its reply
    for hours in [0u64, 23, 25, 37, 49, 73, 110] {
        for edns in ["plain", "cookie", "none"] {
            for tr in ["udp", "tcp"] {
                out.push(json!({"engine":"enet","check":"c07","kind":"uptime","hours":hours,"edns":edns,"transport":tr}));
            }
        }
    }
    out.push(json!({"engine":"enet","check":"c07","kind":"in_addr"}));
    out.extend(crate::checks::episode::cases("c07", tier == "thorough"));
    // connections abandoned before a complete query, then well-formed queries
    for (kind, n) in [("fin-empty", 1100u64), ("fin-half", 1100), ("fin-1octet", 300), ("rst-empty", 300)] {
        out.push(json!({"engine":"enet","check":"c07","kind":"abandoned","abandon":kind,"n": if tier == "thorough" { 4200 } else { n }}));
    }
    out
}

/// TCP connections that end before a complete query was sent (a port scan, a health check, a
/// client that died): n of them, of one kind, then well-formed TCP queries -- each must get its
/// one reply.  Kinds: closed at once; closed after one octet of the length prefix; closed after the
/// prefix and half of the message; reset (SO_LINGER 0) at once.
pub fn run_abandoned(case: &Value) -> CaseResult {
    let spec = RigSpec { listeners: vec!["::1".into()], n_upstreams: 1, yaml: BASE_YAML.into() };
    let mut rig = match Rig::start(&spec) {
        Ok(r) => r,
        Err(e) => return CaseResult::machinery(e),
    };
    let n = case["n"].as_u64().unwrap_or(0);
    let kind = case["abandon"].as_str().unwrap_or("fin-empty");
    let mut res = CaseResult::ok(format!("abandoned:{kind}"));
    let cip: IpAddr = "::1".parse().unwrap();
    let r = json!({"rcode":0,"an":[0],"ns":[],"ar":[],"compress":true,"opt":true});
    let good = |rig: &mut Rig, i: u16, res: &mut CaseResult, after: u64| {
        let q = json!({"name":format!("good{i}.example"),"type":1,"class":1,"edns":"plain","flags":"rd","transport":"tcp"});
        let what = |detail: String| Violation::new("exactly-one-reply", format!("after {after} TCP connections that were abandoned before a complete query ({kind}), a well-formed TCP query {detail}"), case.clone()).sig("transport", "tcp").sig("replies", "0").sig("cause", "abandoned-connections");
        match crate::checks::c03::exchange(rig, &q, &r, 0x4700 + i, cip, 0) {
            Ok(ex) if ex.client_reply.is_some() => {}
            Ok(_) => res.violations.push(what("received no reply".into())),
            Err(e) => res.violations.push(what(format!("was not served: {e}"))),
        }
    };
    good(&mut rig, 0, &mut res, 0);
    let (_qm, qb) = crate::checks::c03::build_query(&json!({"name":"never.example","type":1,"class":1,"edns":"plain","flags":"rd","transport":"tcp"}), 0x4777);
    let mut frame = (qb.len() as u16).to_be_bytes().to_vec();
    frame.extend_from_slice(&qb);
    for i in 0..n {
        let mut c = match TcpClient::connect(Some(cip), rig.listen_addr(0)) {
            Ok(c) => c,
            Err(e) => {
                let _ = rig.stop();
                return CaseResult::machinery(format!("abandoned connection {i}: {e}"));
            }
        };
        match kind {
            "fin-1octet" => {
                let _ = c.conn.send_raw(&frame[..1]);
            }
            "fin-half" => {
                let _ = c.conn.send_raw(&frame[..2 + qb.len() / 2]);
            }
            "rst-empty" => unsafe {
                let l = libc::linger { l_onoff: 1, l_linger: 0 };
                libc::setsockopt(std::os::fd::AsRawFd::as_raw_fd(&c.conn.stream), libc::SOL_SOCKET, libc::SO_LINGER, &l as *const _ as *const libc::c_void, std::mem::size_of::<libc::linger>() as u32);
            },
            _ => {}
        }
        rig.pump(2);
        drop(c);
        rig.pump(2);
        // a good query now and then, so that the first failure names a number
        if res.violations.is_empty() && (i + 1) % 256 == 0 {
            good(&mut rig, 1 + (i / 256) as u16, &mut res, i + 1);
        }
        if !res.violations.is_empty() {
            break;
        }
    }
    if res.violations.is_empty() {
        for j in 0..3 {
            good(&mut rig, 100 + j, &mut res, n);
        }
    }
    let ps = rig.stop();
    if let Some(p) = ps.first() {
        res.violations.push(Violation::new("exactly-one-reply", format!("service task panicked: {} at {}", p.msg, panics::short_loc(&p.loc)), case.clone()).sig("panic_loc", panics::short_loc(&p.loc)));
    }
    res.stats = json!({"abandoned_connections": n});
    res
}

pub fn run_uptime(case: &Value) -> CaseResult {
    let spec = RigSpec { listeners: vec!["::1".into()], n_upstreams: 1, yaml: BASE_YAML.into() };
    let mut rig = match Rig::start(&spec) {
        Ok(r) => r,
        Err(e) => return CaseResult::machinery(e),
    };
    let hours = case["hours"].as_u64().unwrap_or(0);
    let mut res = CaseResult::ok(format!("uptime:{}", if hours >= 24 { "day+" } else { "fresh" }));
    let cip: IpAddr = "::1".parse().unwrap();
    let r = json!({"rcode":0,"an":[0],"ns":[],"ar":[],"compress":true,"opt":true});
    // a first exchange at start-up (keys get used once), then silence, then two more exchanges
    let mut k = 0u16;
    let mut ask = |rig: &mut Rig, name: &str, res: &mut CaseResult| {
        k += 1;
        let q = json!({"name":name,"type":1,"class":1,"edns":case["edns"],"flags":"rd","transport":case["transport"]});
        match crate::checks::c03::exchange(rig, &q, &r, 0x4500 + k, cip, 0) {
            Ok(ex) if ex.client_reply.is_some() => {}
            Ok(_) => res.violations.push(Violation::new("exactly-one-reply", format!("after {hours} h of uptime a {} query with EDNS '{}' for {name} received no reply", case["transport"].as_str().unwrap_or(""), case["edns"].as_str().unwrap_or("")), case.clone()).sig("transport", case["transport"].as_str().unwrap_or("")).sig("replies", "0").sig("cause", "uptime")),
            Err(e) => res.violations.push(Violation::new("exactly-one-reply", format!("after {hours} h of uptime a {} query with EDNS '{}' for {name} was not served: {e}", case["transport"].as_str().unwrap_or(""), case["edns"].as_str().unwrap_or("")), case.clone()).sig("transport", case["transport"].as_str().unwrap_or("")).sig("replies", "0").sig("cause", "uptime")),
        }
    };
    ask(&mut rig, "up0.example", &mut res);
    if hours > 0 {
        rig.advance(Duration::from_secs(hours * 3600));
    }
    if res.violations.is_empty() {
        ask(&mut rig, "up1.example", &mut res);
    }
    if res.violations.is_empty() {
        ask(&mut rig, "up2.example", &mut res);
    }
    let ps = rig.stop();
    if let Some(p) = ps.first() {
        res.violations.push(Violation::new("exactly-one-reply", format!("service task panicked: {} at {}", p.msg, panics::short_loc(&p.loc)), case.clone()).sig("panic_loc", panics::short_loc(&p.loc)));
    }
    res
}

/// A UDP client advertising a large EDNS size asks for answers of up to 65535 octets: whatever the
/// size, exactly one reply must arrive (complete or truncated -- the size rules are C04's).
fn run_big(case: &Value) -> CaseResult {
    let listener = case["listener"].as_str().unwrap_or("::1");
    let spec = RigSpec { listeners: vec![listener.into()], n_upstreams: 1, yaml: BASE_YAML.into() };
    let mut rig = match Rig::start(&spec) {
        Ok(r) => r,
        Err(e) => return CaseResult::machinery(e),
    };
    let adv = case["advertised"].as_u64().unwrap_or(65535);
    let cip: IpAddr = case["client"].as_str().unwrap_or("::1").parse().unwrap();
    let mut res = CaseResult::ok(format!("big:{listener}:{adv}"));
    let edns = format!("size:{adv}");
    let mut seq = 0u32;
    let mut ask = |rig: &mut Rig, pad: usize, tr: &str| {
        seq += 1;
        let q = json!({"name": format!("b{seq}.big.example"), "type": 16, "class": 1, "edns": edns, "flags": "rd", "transport": tr});
        let (_qm, qb) = crate::checks::c03::build_query(&q, 0x2000 + seq as u16);
        crate::checks::c04::big_exchange_from(rig, &qb, tr, pad, 0, cip)
    };
    // calibration over TCP: offset between the pad and the size of the forwarder's complete reply
    let cal = match ask(&mut rig, 10, "tcp") {
        Ok((Some(b), _, _)) => b.len() as i64 - 10,
        Ok((None, _, _)) => {
            let _ = rig.stop();
            return CaseResult::machinery("no reply to the calibration query");
        }
        Err(e) => {
            let _ = rig.stop();
            return CaseResult::machinery(format!("calibration: {e}"));
        }
    };
    let mut n = 0;
    for target in [1000i64, 16000, 32768, 60000, 65400, 65500, 65507, 65508, 65520, 65527, 65528, 65535] {
        let pad = target - cal;
        if pad < 0 || pad > 65460 {
            continue;
        }
        n += 1;
        match ask(&mut rig, pad as usize, "udp") {
            Err(e) => {
                let _ = rig.stop();
                return CaseResult::machinery(e);
            }
            Ok((Some(_), _, _)) => {}
            Ok((None, _, _)) => {
                res.violations.push(
                    Violation::new("exactly-one-reply", format!("UDP client on {listener} advertising {adv} octets asked for an answer of about {target} octets and received no reply at all"), case.clone())
                        .sig("transport", "udp")
                        .sig("replies", "0")
                        .sig("cause", "big-answer"),
                );
            }
        }
    }
    let ps = rig.stop();
    if let Some(p) = ps.first() {
        res.violations.push(Violation::new("exactly-one-reply", format!("service task panicked while answering big queries: {} at {}", p.msg, panics::short_loc(&p.loc)), case.clone()).sig("panic_loc", panics::short_loc(&p.loc)));
    }
    res.stats = json!({"big_exchanges": n});
    res
}

fn run_family(case: &Value) -> CaseResult {
    let listener = case["listener"].as_str().unwrap_or("::1");
    let spec = RigSpec { listeners: vec![listener.into()], n_upstreams: 1, yaml: BASE_YAML.into() };
    let mut rig = match Rig::start(&spec) {
        Ok(r) => r,
        Err(e) => return CaseResult::machinery(e),
    };
    let q = json!({"name":"fam.example","type":1,"class":1,"edns":"plain","flags":"rd","transport":case["transport"]});
    let r = json!({"rcode":0,"an":[0],"ns":[],"ar":[],"compress":true,"opt":true});
    let cip: IpAddr = case["client"].as_str().unwrap().parse().unwrap();
    let dst_ip: IpAddr = case["dst"].as_str().unwrap().parse().unwrap();
    // the query goes to dst:port where dst may differ textually from the listener (e.g. [::] listener)
    let saved = rig.listen_ips[0];
    rig.listen_ips[0] = dst_ip;
    let ex = crate::checks::c03::exchange(&mut rig, &q, &r, 0x4444, cip, 0);
    rig.listen_ips[0] = saved;
    let dst = SocketAddr::new(dst_ip, rig.port);
    let ps = rig.stop();
    let mut res = CaseResult::ok(format!("family:{}:{}:{}", listener, case["client"].as_str().unwrap(), case["transport"].as_str().unwrap()));
    let fam = if listener.contains(':') { if listener == "::" { "dual-stack" } else { "ipv6-only" } } else { "ipv4-only" };
    let mk = |oracle: &str, what: String| {
        let mut v = Violation::new(oracle, what, case.clone()).sig("listener_family", fam).sig("transport", case["transport"].as_str().unwrap());
        if let Some(p) = ps.first() {
            v = v.sig("panic_loc", panics::short_loc(&p.loc));
        }
        v
    };
    match ex {
        Err(e) => {
            if let Some(p) = ps.first() {
                res.violations.push(mk("exactly-one-reply", format!("{fam} listener {listener}, client {}: no reply; service task panicked: {} at {}", cip, p.msg, panics::short_loc(&p.loc))));
            } else if e.starts_with("no effect") {
                res.violations.push(mk("exactly-one-reply", format!("{fam} listener {listener}, client {cip}: {e}")));
            } else {
                return CaseResult::machinery(e);
            }
        }
        Ok(ex) => match ex.client_reply {
            None => res.violations.push(mk("exactly-one-reply", format!("{fam} listener {listener}, client {cip}: no reply arrived{}", ps.first().map(|p| format!("; service task panicked: {} at {}", p.msg, panics::short_loc(&p.loc))).unwrap_or_default()))),
            Some(b) => {
                if let Some(f) = ex.reply_from {
                    if f != dst {
                        res.violations.push(mk("reply-source", format!("query sent to {dst} was answered from {f}")));
                    }
                }
                let (qm, _) = crate::checks::c03::build_query(&q, 0x4444);
                for (o, w) in crate::checks::c03::judge_faithful(&qm, &ex.upstream_reply.unwrap(), &b, 0) {
                    res.violations.push(mk(o, w));
                }
            }
        },
    }
    res
}

fn run_in_addr(case: &Value) -> CaseResult {
    // the pure conversion used for IP_PKTINFO: s_addr must hold the address in network byte order
    let octs = [0u8, 1, 127, 128, 255];
    let mut n = 0;
    let mut bad: Option<String> = None;
    for a in octs {
        for b in octs {
            for c in octs {
                for d in octs {
                    let ip = std::net::Ipv4Addr::new(a, b, c, d);
                    let s = erbium_net::socket::std_to_libc_in_addr(ip);
                    n += 1;
                    if s.s_addr.to_ne_bytes() != ip.octets() && bad.is_none() {
                        bad = Some(format!("{ip} -> in-memory octets {:?}", s.s_addr.to_ne_bytes()));
                    }
                }
            }
        }
    }
    let mut res = CaseResult::ok("in_addr");
    res.stats = json!({"in_addr_evaluations": n});
    if let Some(b) = bad {
        res.violations.push(Violation::new("in-addr-byte-order", format!("std_to_libc_in_addr does not produce network byte order: {b}"), case.clone()).sig("listener_family", "ipv4-only"));
    }
    res
}

fn run_episode(case: &Value) -> CaseResult {
    match crate::checks::episode::run(case) {
        Err(e) => CaseResult::machinery(format!("episode: {e}")),
        Ok(o) => {
            let mut res = CaseResult::ok(format!("episode:{}:{}:{}", case["c1"].as_str().unwrap_or(""), case["action"].as_str().unwrap_or(""), match o.q1.replies.first() { Some((_, m)) => format!("rcode{}", m.rcode()), None => "silent".into() }));
            res.violations = crate::checks::episode::judge_c07(case, &o);
            res.stats = crate::checks::episode::stats(&o);
            res
        }
    }
}

pub fn run_case(case: &Value) -> CaseResult {
    match case["kind"].as_str() {
        Some("episode") => return run_episode(case),
        Some("abandoned") => return run_abandoned(case),
        Some("family") => return run_family(case),
        Some("big") => return run_big(case),
        Some("uptime") => return run_uptime(case),
        Some("in_addr") => return run_in_addr(case),
        _ => {}
    }
    let scs = scenarios();
    let Some(sc) = scs.iter().find(|s| Some(s.name) == case["scenario"].as_str()) else {
        return CaseResult::machinery("unknown scenario");
    };
    let root: Vec<usize> = case["root"].as_array().or(case["prefix"].as_array()).map(|a| a.iter().filter_map(|x| x.as_u64()).map(|x| x as usize).collect()).unwrap_or_default();
    let bound = case["bound"].as_u64().map(|b| b as usize).unwrap_or(deviations(&root));
    let mut res = SubtreeResult { executions: 0, classes: BTreeMap::new(), violations: vec![], machinery: None, max_latency_ms: 0, max_choice_points: 0 };
    explore(sc, &root, bound.max(deviations(&root)), &mut res, root.len());
    let mut cr = CaseResult::ok(format!("subtree:{}", sc.name));
    let mut stats = serde_json::Map::new();
    stats.insert("executions".into(), json!(res.executions));
    stats.insert("max_latency_ms".into(), json!(res.max_latency_ms));
    stats.insert("max_choice_points".into(), json!(res.max_choice_points));
    for (k, v) in &res.classes {
        stats.insert(format!("class:{k}"), json!(v));
    }
    cr.stats = Value::Object(stats);
    cr.violations = res.violations;
    cr.machinery = res.machinery;
    cr
}

pub fn run(tier: &str, replay: Option<Value>) -> ! {
    let mut rep = Report::new("C07", if replay.is_some() { "quick" } else { tier }, "model_checking");
    if let Some(case) = replay {
        rep.replay_mode = true;
        let mut case = if case.get("case").is_some() { case["case"].clone() } else { case };
        if case.get("prefix").is_some() {
            // a single execution: bound = its own deviations (no expansion)
            let d = case["prefix"].as_array().map(|a| a.iter().filter(|x| x.as_u64() != Some(0)).count()).unwrap_or(0);
            case["bound"] = json!(d);
            case["kind"] = json!("subtree");
        }
        netrun::replay_one(&mut rep, &case, run_case);
        rep.finish();
    }
    crate::enet::set_shard(31);
    let agg = netrun::run_sharded(&mut rep, "C07", tier, cases, 16);
    let execs = agg.stats_sum.get("executions").copied().unwrap_or(0.0) as u64 + agg.classes.iter().filter(|(k, _)| !k.starts_with("subtree")).map(|(_, v)| *v).sum::<u64>();
    let classes: BTreeMap<String, u64> = agg.stats_sum.iter().filter(|(k, _)| k.starts_with("class:")).map(|(k, v)| (k[6..].to_string(), *v as u64)).collect();
    rep.cov("states", classes.len().max(1) as u64);
    rep.cov("transitions", execs);
    rep.cov("traces_validated_against_impl", execs);
    rep.cov("evaluations", execs);
    rep.cov("distinct_nontrivial", classes.len() as u64);
    rep.cov("rule", "schedules of environment events (client queries, upstream deliveries and their fault variants, ticks, id/jitter choices) of the live DnsService; default = answer every transmission at once, in order, correctly; all executions with <= bound deviations per scenario; every execution runs to a 130 s virtual horizon. states = distinct (scenario, per-client outcome) classes observed; transitions = executions");
    rep.cov("deviation_bounds", json!(scenarios().iter().map(|s| (s.name.to_string(), bound_for(tier, s.name))).collect::<BTreeMap<_, _>>()));
    rep.cov("exhaustive", true);
    rep.cov("subtree_cases", agg.executions);
    rep.cov("outcome_classes", json!(classes));
    rep.cov("max_reply_latency_ms_observed", agg.stats_max.get("max_latency_ms").copied().unwrap_or(0.0));
    rep.cov("max_choice_points_in_an_execution", agg.stats_max.get("max_choice_points").copied().unwrap_or(0.0));
    rep.cov("workers_in_private_netns", agg.isolated_workers as u64);
    rep.cov("samples", agg.samples);
    rep.assume("await-granularity interleavings on one worker thread: sound for this code because all shared state is actor-owned or behind async locks");
    rep.assume("<= 3 queries in flight (not 256); ticks are 100 ms quanta, so a timer may fire up to 100 ms late");
    rep.finish()
}
