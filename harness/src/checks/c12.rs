//! C12: DHCP encode/decode round trip, frame construction, broadcast-bit predicate.
use crate::common::panics;
use crate::common::report::{Report, Violation};
use crate::common::util::hex;
use erbium::dhcp::dhcppkt;
use rayon::prelude::*;
use serde_json::{Value, json};
use std::collections::{BTreeMap, HashMap};
use std::net::Ipv4Addr;

// ---------------------------------------------------------------------------
// Independent DHCP wire codec (RFC 2131 + RFC 3396), shares nothing with erbium
// ---------------------------------------------------------------------------

#[derive(Clone, Debug, PartialEq, Eq)]
pub struct RefDhcp {
    pub op: u8,
    pub htype: u8,
    pub hlen: u8,
    pub hops: u8,
    pub xid: u32,
    pub secs: u16,
    pub flags: u16,
    pub ciaddr: [u8; 4],
    pub yiaddr: [u8; 4],
    pub siaddr: [u8; 4],
    pub giaddr: [u8; 4],
    pub chaddr16: [u8; 16],
    pub sname: Vec<u8>, // up to first NUL
    pub file: Vec<u8>,
    pub options: BTreeMap<u8, Vec<u8>>, // RFC 3396 concatenation
}

pub fn ref_decode(b: &[u8]) -> Result<RefDhcp, String> {
    if b.len() < 240 {
        return Err("short".into());
    }
    if b[236..240] != [0x63, 0x82, 0x53, 0x63] {
        return Err("magic".into());
    }
    let cut = |s: &[u8]| s.iter().position(|x| *x == 0).map(|p| s[..p].to_vec()).unwrap_or(s.to_vec());
    let mut options: BTreeMap<u8, Vec<u8>> = BTreeMap::new();
    let mut i = 240;
    loop {
        if i >= b.len() {
            return Err("options not terminated".into());
        }
        let code = b[i];
        i += 1;
        if code == 0 {
            continue;
        }
        if code == 255 {
            break;
        }
        if i >= b.len() {
            return Err("option length missing".into());
        }
        let l = b[i] as usize;
        i += 1;
        if i + l > b.len() {
            return Err("option overruns".into());
        }
        options.entry(code).or_default().extend_from_slice(&b[i..i + l]);
        i += l;
    }
    let a4 = |o: usize| [b[o], b[o + 1], b[o + 2], b[o + 3]];
    let mut chaddr16 = [0u8; 16];
    chaddr16.copy_from_slice(&b[28..44]);
    Ok(RefDhcp {
        op: b[0],
        htype: b[1],
        hlen: b[2],
        hops: b[3],
        xid: u32::from_be_bytes(a4(4)),
        secs: u16::from_be_bytes([b[8], b[9]]),
        flags: u16::from_be_bytes([b[10], b[11]]),
        ciaddr: a4(12),
        yiaddr: a4(16),
        siaddr: a4(20),
        giaddr: a4(24),
        chaddr16,
        sname: cut(&b[44..108]),
        file: cut(&b[108..236]),
        options,
    })
}

/// Encode with explicit option records (code, value<=255) so repeated/zero-length/pad shapes can be written.
pub fn ref_encode(h: &RefDhcp, records: &[(u8, Vec<u8>)], pads: &[usize]) -> Vec<u8> {
    let mut v = vec![h.op, h.htype, h.hlen, h.hops];
    v.extend_from_slice(&h.xid.to_be_bytes());
    v.extend_from_slice(&h.secs.to_be_bytes());
    v.extend_from_slice(&h.flags.to_be_bytes());
    v.extend_from_slice(&h.ciaddr);
    v.extend_from_slice(&h.yiaddr);
    v.extend_from_slice(&h.siaddr);
    v.extend_from_slice(&h.giaddr);
    v.extend_from_slice(&h.chaddr16);
    let mut s = h.sname.clone();
    s.resize(64, 0);
    v.extend_from_slice(&s);
    let mut f = h.file.clone();
    f.resize(128, 0);
    v.extend_from_slice(&f);
    v.extend_from_slice(&[0x63, 0x82, 0x53, 0x63]);
    for (i, (c, val)) in records.iter().enumerate() {
        if pads.contains(&i) {
            v.push(0);
        }
        assert!(val.len() <= 255);
        v.push(*c);
        v.push(val.len() as u8);
        v.extend_from_slice(val);
    }
    v.push(255);
    v
}

fn erbium_to_ref(d: &dhcppkt::Dhcp) -> Value {
    // canonical, order-free rendering of an erbium message
    use dhcppkt::Serialise as _;
    let mut opts: BTreeMap<u8, String> = BTreeMap::new();
    for (k, v) in &d.options.other {
        let mut b = vec![];
        k.serialise(&mut b);
        opts.insert(b[0], hex(v));
    }
    json!({
        "op": format!("{:?}", d.op), "htype": format!("{:?}", d.htype), "hlen": d.hlen, "hops": d.hops, "xid": d.xid, "secs": d.secs, "flags": d.flags,
        "ciaddr": d.ciaddr.to_string(), "yiaddr": d.yiaddr.to_string(), "siaddr": d.siaddr.to_string(), "giaddr": d.giaddr.to_string(),
        "chaddr": hex(&d.chaddr), "sname": hex(&d.sname), "file": hex(&d.file), "options": opts,
    })
}

fn pattern(len: usize, seed: u8) -> Vec<u8> {
    // no NUL bytes (sname/file are NUL terminated on the wire), value depends on position
    (0..len).map(|i| 1 + ((i as u32 * 7 + seed as u32) % 254) as u8).collect()
}

// ---------------------------------------------------------------------------
// (a) broadcast flag
// ---------------------------------------------------------------------------

pub fn base_header() -> RefDhcp {
    RefDhcp {
        op: 1,
        htype: 1,
        hlen: 6,
        hops: 0,
        xid: 0x01020304,
        secs: 0,
        flags: 0,
        ciaddr: [0; 4],
        yiaddr: [0; 4],
        siaddr: [0; 4],
        giaddr: [0; 4],
        chaddr16: [2, 0, 0, 0, 0, 1, 0, 0, 0, 0, 0, 0, 0, 0, 0, 0],
        sname: vec![],
        file: vec![],
        options: BTreeMap::new(),
    }
}

fn check_flags(rep: &mut Report) -> (u64, u64) {
    let mut evals = 0u64;
    let mut classes = std::collections::BTreeSet::new();
    let mut first_bad: Option<(u16, bool)> = None;
    let mut bad = 0u64;
    for f in 0..=0xffffu32 {
        let mut h = base_header();
        h.flags = f as u16;
        let wire = ref_encode(&h, &[(53, vec![1])], &[]);
        evals += 1;
        match panics::catch(|| dhcppkt::parse(&wire).map(|d| (d.flags, d.get_broadcast_flag()))) {
            Ok(Ok((flags, b))) => {
                let want = f & 0x8000 != 0;
                classes.insert((b, want));
                if flags as u32 != f || b != want {
                    bad += 1;
                    if first_bad.is_none() {
                        first_bad = Some((f as u16, b));
                    }
                }
            }
            other => {
                rep.violation(Violation::new("flags-parse", format!("flags {f:#06x}: parse failed: {:?}", other.map(|r| r.map(|_| ()))), json!({"engine":"c12","part":"flags","flags":f})));
            }
        }
    }
    if let Some((f, b)) = first_bad {
        rep.violation(
            Violation::new(
                "broadcast-bit",
                format!("{bad} of 65536 flag values misjudged; first: flags {f:#06x} -> broadcast={b}, expected {}", f & 0x8000 != 0),
                json!({"engine":"c12","part":"flags","flags":f}),
            )
            .sig("part", "flags"),
        );
    }
    (evals, classes.len() as u64)
}

// ---------------------------------------------------------------------------
// (b) round trip
// ---------------------------------------------------------------------------

#[derive(Clone, Debug)]
struct MsgCase {
    hdr: u8,
    hlen: u8,
    sname_len: usize,
    file_len: usize,
    opts: Vec<(u8, usize)>,
    /// one further option with an explicit one-octet value (family "every code x every octet")
    octet_opt: Option<(u8, u8)>,
}

fn build_msg(c: &MsgCase) -> dhcppkt::Dhcp {
    // header variants via the real parser (private tuple fields), from an independently encoded wire image
    let mut h = base_header();
    match c.hdr {
        0 => {}
        1 => {
            h.op = 2;
            h.htype = 6;
            h.hops = 255;
            h.xid = 0xffff_ffff;
            h.secs = 0xffff;
            h.flags = 0xffff;
            h.ciaddr = [255; 4];
            h.yiaddr = [255, 255, 255, 254];
            h.siaddr = [1, 2, 3, 4];
            h.giaddr = [10, 0, 0, 1];
        }
        2 => {
            h.op = 0;
            h.htype = 0;
            h.xid = 0;
            h.flags = 0x8000;
            h.yiaddr = [192, 0, 2, 1];
        }
        _ => {
            h.op = 255;
            h.htype = 255;
            h.hops = 1;
            h.xid = 0x8000_0000;
            h.secs = 1;
            h.flags = 0x0080;
            h.ciaddr = [0, 0, 0, 1];
        }
    }
    h.hlen = c.hlen;
    let wire = ref_encode(&h, &[], &[]);
    let mut d = dhcppkt::parse(&wire).expect("harness header image must parse");
    d.chaddr = pattern(c.hlen as usize, 3);
    d.sname = pattern(c.sname_len, 5);
    d.file = pattern(c.file_len, 9);
    let mut other = HashMap::new();
    for (code, len) in &c.opts {
        other.insert(dhcppkt::DhcpOption::new(*code), pattern(*len, *code));
    }
    if let Some((code, v)) = c.octet_opt {
        other.insert(dhcppkt::DhcpOption::new(code), vec![v]);
    }
    d.options = dhcppkt::DhcpOptions { other };
    d
}

fn check_roundtrip(rep: &mut Report, thorough: bool) -> (u64, u64, Vec<Value>) {
    let codes: Vec<u8> = if thorough { vec![1, 12, 53, 61, 119, 254] } else { vec![1, 53, 61, 254] };
    let lens: Vec<usize> = if thorough { vec![0, 1, 2, 254, 255, 256, 257, 509, 510, 511, 765, 766, 1500] } else { vec![0, 1, 2, 254, 255, 256, 257, 510, 511, 765, 1500] };
    // all option sets of size <= 3 over codes x lens
    let mut optsets: Vec<Vec<(u8, usize)>> = vec![vec![]];
    for (i, c1) in codes.iter().enumerate() {
        for l1 in &lens {
            optsets.push(vec![(*c1, *l1)]);
            for (j, c2) in codes.iter().enumerate().skip(i + 1) {
                for l2 in &lens {
                    optsets.push(vec![(*c1, *l1), (*c2, *l2)]);
                    {
                        for c3 in codes.iter().skip(j + 1) {
                            for l3 in &lens {
                                optsets.push(vec![(*c1, *l1), (*c2, *l2), (*c3, *l3)]);
                            }
                        }
                    }
                }
            }
        }
    }
    let hlens: Vec<u8> = (0..=16).collect();
    let snames = [0usize, 1, 63, 64];
    let files = [0usize, 1, 127, 128];
    let mut cases: Vec<MsgCase> = vec![];
    // header group: full product of header variant x hlen x sname x file, with two option sets
    for hdr in 0..4u8 {
        for hlen in &hlens {
            for s in snames {
                for f in files {
                    for opts in [vec![], vec![(53u8, 1usize), (61, 7)]] {
                        cases.push(MsgCase { hdr, hlen: *hlen, sname_len: s, file_len: f, opts, octet_opt: None });
                    }
                }
            }
        }
    }
    // option group: every option set with two header shapes
    for opts in &optsets {
        for (hdr, hlen) in [(0u8, 6u8), (1, 16)] {
            cases.push(MsgCase { hdr, hlen, sname_len: 0, file_len: 0, opts: opts.clone(), octet_opt: None });
        }
    }
    // every option code x every one-octet value (some codes give a one-octet value a meaning of its
    // own: message type, overload, ...; to the codec they are all just options), with the sname /
    // file fields empty and in use; and every code with lengths 0, 2, 3, 4
    for code in 1..=254u8 {
        for v in 0..=255u8 {
            for (s, f) in [(0usize, 0usize), (12, 40)] {
                if !thorough && (s, f) != (0, 0) && v > 7 && v < 0xf8 {
                    continue;
                }
                cases.push(MsgCase { hdr: 0, hlen: 6, sname_len: s, file_len: f, opts: vec![], octet_opt: Some((code, v)) });
            }
        }
        for l in [0usize, 2, 3, 4] {
            cases.push(MsgCase { hdr: 0, hlen: 6, sname_len: 0, file_len: 0, opts: vec![(code, l)], octet_opt: None });
        }
    }
    let results: Vec<(String, Option<Violation>)> = cases
        .par_iter()
        .map(|c| {
            let m = build_msg(c);
            let case = json!({"engine":"c12","part":"roundtrip","hdr":c.hdr,"hlen":c.hlen,"sname_len":c.sname_len,"file_len":c.file_len,"opts":c.opts,"octet_opt":c.octet_opt.map(|(a, b)| vec![a, b])});
            let maxlen = c.opts.iter().map(|o| o.1).max().unwrap_or(0);
            let class = format!("hdr{}:hlen{}:s{}:f{}:nopt{}:max{}", c.hdr, (c.hlen > 0) as u8 + (c.hlen == 16) as u8, c.sname_len, c.file_len, c.opts.len(), if maxlen > 255 { ">255" } else if maxlen == 255 { "255" } else if maxlen == 0 { "0" } else { "<255" });
            let r = panics::catch(|| {
                let wire = m.serialise();
                (dhcppkt::parse(&wire), wire)
            });
            let v = match r {
                Err(p) => Some(Violation::new("roundtrip-panic", format!("serialise/parse panicked: {} at {}", p.msg, panics::short_loc(&p.loc)), case).sig("part", "roundtrip")),
                Ok((Err(e), _)) => Some(
                    Violation::new("roundtrip-reject", format!("parse(serialise(m)) failed: {e:?}"), case).sig("part", "roundtrip").sig("long_option", maxlen > 255),
                ),
                Ok((Ok(back), wire)) => {
                    let mut viol = None;
                    if back != m {
                        viol = Some(
                            Violation::new("roundtrip-differs", format!("parse(serialise(m)) != m: got {} expected {}", erbium_to_ref(&back), erbium_to_ref(&m)), case.clone())
                                .sig("part", "roundtrip")
                                .sig("long_option", maxlen > 255),
                        );
                    }
                    // the independent decoder must read the same message from the wire image
                    if viol.is_none() {
                        match ref_decode(&wire) {
                            Err(e) => viol = Some(Violation::new("wire-invalid", format!("independent decoder rejects erbium's encoding: {e}"), case.clone()).sig("part", "roundtrip").sig("long_option", maxlen > 255)),
                            Ok(rd) => {
                                let mut want: BTreeMap<u8, Vec<u8>> = c.opts.iter().map(|(code, len)| (*code, pattern(*len, *code))).collect();
                                if let Some((code, v)) = c.octet_opt {
                                    want.insert(code, vec![v]);
                                }
                                if rd.options != want || rd.hlen != c.hlen || rd.chaddr16[..c.hlen as usize] != pattern(c.hlen as usize, 3)[..] || rd.sname != pattern(c.sname_len, 5) || rd.file != pattern(c.file_len, 9) {
                                    viol = Some(
                                        Violation::new("wire-differs", "independent decoder reads different options/fields from erbium's encoding".to_string(), case.clone())
                                            .sig("part", "roundtrip")
                                            .sig("long_option", maxlen > 255),
                                    );
                                }
                            }
                        }
                    }
                    viol
                }
            };
            (class, v)
        })
        .collect();
    let mut classes = std::collections::BTreeSet::new();
    let n = results.len() as u64;
    for (c, v) in results {
        classes.insert(c);
        if let Some(v) = v {
            rep.violation(v);
        }
    }
    // wire-level dual: repeated, zero-length, pad-interleaved options decode to the RFC 3396 concatenation
    let mut dual = 0u64;
    let rec_shapes: Vec<Vec<(u8, Vec<u8>)>> = vec![
        vec![(53, vec![1]), (61, pattern(255, 1)), (61, pattern(10, 2))],
        vec![(61, vec![]), (61, pattern(3, 1)), (53, vec![3])],
        vec![(12, pattern(255, 1)), (12, pattern(255, 2)), (12, pattern(255, 3)), (53, vec![1])],
        vec![(53, vec![1]), (50, vec![192, 0]), (55, vec![1, 3]), (50, vec![2, 9])],
        vec![(254, vec![]), (254, vec![])],
        vec![(1, pattern(4, 0)), (53, vec![]), (53, vec![1])],
    ];
    for recs in &rec_shapes {
        for padmask in 0..(1u32 << recs.len()) {
            let pads: Vec<usize> = (0..recs.len()).filter(|i| padmask & (1 << i) != 0).collect();
            let wire = ref_encode(&base_header(), recs, &pads);
            dual += 1;
            let mut want: BTreeMap<u8, Vec<u8>> = BTreeMap::new();
            for (c, v) in recs {
                want.entry(*c).or_default().extend_from_slice(v);
            }
            let case = json!({"engine":"c12","part":"wire-dual","wire":hex(&wire)});
            match panics::catch(|| dhcppkt::parse(&wire)) {
                Ok(Ok(d)) => {
                    use dhcppkt::Serialise as _;
                    let got: BTreeMap<u8, Vec<u8>> = d
                        .options
                        .other
                        .iter()
                        .map(|(k, v)| {
                            let mut b = vec![];
                            k.serialise(&mut b);
                            (b[0], v.clone())
                        })
                        .collect();
                    if got != want {
                        rep.violation(Violation::new("decode-concat", format!("repeated/zero-length/padded options decoded to {:?}, RFC 3396 concatenation is {:?}", got.keys(), want.keys()), case).sig("part", "wire-dual"));
                    }
                }
                other => rep.violation(Violation::new("decode-reject", format!("well-formed wire image rejected: {:?}", other.map(|r| r.map(|_| ()))), case).sig("part", "wire-dual")),
            }
        }
    }
    classes.insert("wire-dual".into());
    let samples = vec![json!({"roundtrip_case": format!("{:?}", cases[cases.len() / 2])}), json!({"roundtrip_case": format!("{:?}", cases[cases.len() - 1])})];
    (n + dual, classes.len() as u64, samples)
}

// ---------------------------------------------------------------------------
// (c) frames
// ---------------------------------------------------------------------------

fn ones_sum(data: &[u8]) -> u16 {
    let mut s: u32 = 0;
    let mut i = 0;
    while i + 1 < data.len() {
        s += u16::from_be_bytes([data[i], data[i + 1]]) as u32;
        i += 2;
    }
    if i < data.len() {
        s += (data[i] as u32) << 8;
    }
    while s >> 16 != 0 {
        s = (s & 0xffff) + (s >> 16);
    }
    s as u16
}

pub fn frame_check(frame: &[u8], payload: &[u8], src: (Ipv4Addr, u16), dst: (Ipv4Addr, u16), smac: &[u8; 6], dmac: &[u8; 6]) -> Result<(), String> {
    if frame.len() != 14 + 20 + 8 + payload.len() {
        return Err(format!("frame length {} != 42 + payload {}", frame.len(), payload.len()));
    }
    if frame[0..6] != dmac[..] || frame[6..12] != smac[..] {
        return Err("ethernet addresses".into());
    }
    if frame[12..14] != [0x08, 0x00] {
        return Err("ethertype".into());
    }
    let ip = &frame[14..34];
    if ip[0] != 0x45 {
        return Err("ip version/ihl".into());
    }
    let tot = u16::from_be_bytes([ip[2], ip[3]]) as usize;
    if tot != 20 + 8 + payload.len() {
        return Err(format!("ip total length {tot}"));
    }
    if ip[9] != 17 {
        return Err("ip protocol".into());
    }
    if ip[8] == 0 {
        return Err("ip ttl 0".into());
    }
    if ones_sum(ip) != 0xffff {
        return Err(format!("ip header checksum does not verify (sum {:#06x})", ones_sum(ip)));
    }
    if ip[12..16] != src.0.octets() || ip[16..20] != dst.0.octets() {
        return Err("ip addresses".into());
    }
    let udp = &frame[34..];
    if u16::from_be_bytes([udp[0], udp[1]]) != src.1 || u16::from_be_bytes([udp[2], udp[3]]) != dst.1 {
        return Err("udp ports".into());
    }
    let ulen = u16::from_be_bytes([udp[4], udp[5]]) as usize;
    if ulen != 8 + payload.len() {
        return Err(format!("udp length {ulen}"));
    }
    if &udp[8..] != payload {
        return Err("payload modified".into());
    }
    let ck = u16::from_be_bytes([udp[6], udp[7]]);
    if ck != 0 {
        let mut ph = vec![];
        ph.extend_from_slice(&src.0.octets());
        ph.extend_from_slice(&dst.0.octets());
        ph.push(0);
        ph.push(17);
        ph.extend_from_slice(&(ulen as u16).to_be_bytes());
        ph.extend_from_slice(udp);
        if ones_sum(&ph) != 0xffff {
            return Err(format!("udp checksum does not verify (sum {:#06x})", ones_sum(&ph)));
        }
    }
    Ok(())
}

fn payloads(len: usize) -> Vec<(&'static str, Vec<u8>)> {
    let mut v = vec![("zeros", vec![0u8; len]), ("ones", vec![0xffu8; len]), ("counter", (0..len).map(|i| i as u8).collect::<Vec<u8>>())];
    // drive the running sum towards 0xffff / a double carry: 0xffff words then a tail of small words
    v.push(("carry", (0..len).map(|i| if i % 4 < 2 { 0xff } else { if i % 2 == 0 { 0x00 } else { 0x01 } }).collect()));
    v.push(("alt", (0..len).map(|i| if i % 2 == 0 { 0x80 } else { 0x00 }).collect()));
    v
}

fn check_frames(rep: &mut Report) -> (u64, u64, Vec<Value>) {
    use erbium_net::packet::{Fragment, Tail};
    let tuples: Vec<((Ipv4Addr, u16), (Ipv4Addr, u16), [u8; 6], [u8; 6])> = vec![
        (("192.0.2.1".parse().unwrap(), 67), ("192.0.2.10".parse().unwrap(), 68), [2, 0, 0, 0, 0, 1], [2, 0, 0, 0, 0, 2]),
        (("10.255.255.254".parse().unwrap(), 67), ("255.255.255.255".parse().unwrap(), 68), [0xfe, 0xff, 0xff, 0xff, 0xff, 0xff], [0xff; 6]),
        (("0.0.0.1".parse().unwrap(), 65535), ("0.0.0.0".parse().unwrap(), 0), [0; 6], [1, 2, 3, 4, 5, 6]),
    ];
    let lens: Vec<usize> = (0..=1472).collect();
    let results: Vec<(u64, Vec<Violation>, bool)> = lens
        .par_iter()
        .map(|&len| {
            let mut n = 0;
            let mut out = vec![];
            let mut zero_ck = false;
            for (pname, p) in payloads(len) {
                for (src, dst, smac, dmac) in &tuples {
                    n += 1;
                    let case = json!({"engine":"c12","part":"frame","len":len,"pattern":pname,"src":format!("{}:{}",src.0,src.1),"dst":format!("{}:{}",dst.0,dst.1)});
                    let sa = std::net::SocketAddrV4::new(src.0, src.1);
                    let da = std::net::SocketAddrV4::new(dst.0, dst.1);
                    let r = panics::catch(|| Fragment::new_udp4(sa.into(), smac, da.into(), dmac, Tail::Payload(&p)).flatten());
                    match r {
                        Err(pi) => out.push(Violation::new("frame-panic", format!("new_udp4 panicked: {} at {}", pi.msg, panics::short_loc(&pi.loc)), case).sig("part", "frame")),
                        Ok(frame) => {
                            if frame.len() >= 42 && frame[40] == 0 && frame[41] == 0 {
                                zero_ck = true;
                            }
                            if let Err(e) = frame_check(&frame, &p, *src, *dst, smac, dmac) {
                                out.push(Violation::new("frame-invalid", format!("payload {len} octets ({pname}): {e}"), case).sig("part", "frame"));
                            }
                        }
                    }
                }
            }
            (n, out, zero_ck)
        })
        .collect();
    let mut n = 0;
    let mut zero = 0u64;
    for (k, vs, z) in results {
        n += k;
        zero += z as u64;
        for v in vs.into_iter().take(3) {
            rep.violation(v);
        }
    }
    (n, 1473 * 5, vec![json!({"frame_lengths": "0..=1472", "patterns": 5, "tuples": 3, "lengths_with_a_transmitted_zero_udp_checksum": zero})])
}

/// Checksum word sweeps.  The Internet checksum of a frame is, as a function of any one of its
/// 16-bit words, a bijection on the one's-complement sums; sweeping one word through all 65536
/// values therefore drives the running sum through every value it can take for that frame shape
/// (every carry pattern of the fold, the computed-zero case of UDP).  One sweep of a payload word
/// per payload length and one of the low half of the source address (IPv4 header checksum).
fn check_checksum_sweeps(rep: &mut Report, thorough: bool) -> u64 {
    use erbium_net::packet::{Fragment, Tail};
    let lens: Vec<usize> = if thorough { vec![2, 3, 4, 5, 64, 299, 300, 301, 576, 1471, 1472] } else { vec![2, 3, 300, 1472] };
    let fills: Vec<u8> = if thorough { vec![0x00, 0xff, 0x5a] } else { vec![0x00, 0xff] };
    let smac = [2u8, 0, 0, 0, 0, 1];
    let dmac = [2u8, 0, 0, 0, 0, 2];
    let mut jobs: Vec<(usize, u8, bool)> = vec![];
    for l in &lens {
        for f in &fills {
            jobs.push((*l, *f, false)); // sweep the first payload word
            jobs.push((*l, *f, true)); // sweep the low half of the source address
        }
    }
    let results: Vec<(u64, Vec<Violation>)> = jobs
        .par_iter()
        .map(|(len, fill, sweep_src)| {
            let mut out = vec![];
            let mut n = 0u64;
            for w in 0..=0xffffu32 {
                let mut p = vec![*fill; *len];
                let src_ip = if *sweep_src { Ipv4Addr::new(10, 0, (w >> 8) as u8, w as u8) } else { Ipv4Addr::new(192, 0, 2, 1) };
                if !*sweep_src {
                    p[0] = (w >> 8) as u8;
                    p[1] = w as u8;
                }
                let src = (src_ip, 67u16);
                let dst = (Ipv4Addr::new(10, 0, 200, 7), 68u16);
                n += 1;
                let sa = std::net::SocketAddrV4::new(src.0, src.1);
                let da = std::net::SocketAddrV4::new(dst.0, dst.1);
                let r = panics::catch(|| Fragment::new_udp4(sa.into(), &smac, da.into(), &dmac, Tail::Payload(&p)).flatten());
                let case = json!({"engine":"c12","part":"frame-sweep","len":len,"fill":fill,"swept":if *sweep_src {"source-address-low-half"} else {"payload-word-0"},"word":w});
                match r {
                    Err(pi) => out.push(Violation::new("frame-panic", format!("new_udp4 panicked: {} at {}", pi.msg, panics::short_loc(&pi.loc)), case).sig("part", "frame")),
                    Ok(frame) => {
                        if let Err(e) = frame_check(&frame, &p, src, dst, &smac, &dmac) {
                            if out.len() < 3 {
                                out.push(Violation::new("frame-invalid", format!("payload {len} octets, swept word {w:#06x}: {e}"), case).sig("part", "frame"));
                            }
                        }
                    }
                }
            }
            (n, out)
        })
        .collect();
    let mut n = 0;
    for (k, vs) in results {
        n += k;
        for v in vs.into_iter().take(2) {
            rep.violation(v);
        }
    }
    n
}

// ---------------------------------------------------------------------------
// (d) on the wire: the real DhcpService (recvdhcp, raw transmit) on a veth pair
// ---------------------------------------------------------------------------
// Messages a client can put on the wire, each as a real Ethernet frame from the peer end; the
// reply frames captured there are dissected and judged: lengths and both checksums verify, the
// payload decodes, and the IPv4 destination is the limited broadcast address exactly when the
// request carried the broadcast bit, otherwise the address the reply assigns (yiaddr) -- also when
// the client claims, in ciaddr, an address it is not given.

const WIRE_MACS: [[u8; 6]; 2] = [[2, 0, 0, 0, 0, 0x0a], [2, 0, 0, 0, 0, 0x0b]];
const WIRE_KINDS: [&str; 5] = ["discover", "request-selecting", "request-renew-own", "request-ciaddr-other", "request-ciaddr-foreign"];

fn wire_flags(thorough: bool) -> Vec<u16> {
    if thorough { vec![0x0000, 0x8000, 0x0001, 0x7fff, 0xffff] } else { vec![0x0000, 0x8000] }
}

fn wire_alphabet(thorough: bool) -> Vec<(usize, usize, u16)> {
    let mut v = vec![];
    for c in 0..2 {
        for k in 0..WIRE_KINDS.len() {
            for f in wire_flags(thorough) {
                v.push((c, k, f));
            }
        }
    }
    v
}

fn wire_histories(thorough: bool) -> Vec<Vec<usize>> {
    let n = wire_alphabet(thorough).len();
    let depth = if thorough { 3 } else { 2 };
    let mut hs: Vec<Vec<usize>> = vec![vec![]];
    for _ in 0..depth {
        let mut next = vec![];
        for h in &hs {
            for a in 0..n {
                let mut g = h.clone();
                g.push(a);
                next.push(g);
            }
        }
        hs = next;
    }
    hs
}

pub fn wire_cases(tier: &str) -> Vec<Value> {
    let thorough = tier == "thorough";
    let n = wire_histories(thorough).len();
    let chunk = if thorough { 800 } else { 50 };
    let mut out = vec![];
    let mut i = 0;
    while i < n {
        out.push(json!({"engine":"ewire","check":"c12","from":i,"to":(i + chunk).min(n),"thorough":thorough}));
        i += chunk;
    }
    // replies larger than the 548-octet minimum every client must accept: the payload on the wire
    // must be the reply the handler computed, whatever maximum message size the client states
    out.push(json!({"engine":"ewire","check":"c12","kind":"big","thorough":thorough}));
    out
}

fn big_yaml() -> String {
    let mut domains = vec![];
    // about 700 octets of reply: over the 548-octet minimum, well under what one frame carries
    for i in 0..9 {
        domains.push(format!("'department-{i:02}.some-rather-long-organisation-name.example'"));
    }
    format!("---\ndhcp-policies:\n  - match-subnet: 192.0.2.0/24\n    apply-range: {{start: 192.0.2.10, end: 192.0.2.11}}\n    apply-dns-searches: [{}]\n    apply-domain-name: 'a-domain-name-that-is-not-short.example'\n", domains.join(", "))
}

fn wire_run_big(case: &Value) -> crate::netrun::CaseResult {
    use crate::ewire::*;
    use crate::netrun::CaseResult;
    teardown_veth();
    if let Err(e) = setup_veth(Route6::None) {
        return CaseResult::machinery(format!("veth set-up: {e}"));
    }
    let mut res = CaseResult::ok("wire-big");
    let mut w = match WireRt::new() {
        Ok(w) => w,
        Err(e) => return CaseResult::machinery(e),
    };
    crate::common::clock::set_secs(1_700_000_000);
    let netinfo = w.rt.block_on(erbium_net::netinfo::SharedNetInfo::new());
    w.pump(4);
    let mut wire = match Wire::open() {
        Ok(x) => x,
        Err(e) => return CaseResult::machinery(e),
    };
    let yaml = big_yaml();
    let mut n_replies = 0u64;
    let mut n_msgs = 0u64;
    let mut sizes = vec![];
    for maxmsg in [None, Some(300u16), Some(576), Some(1000), Some(1500)] {
        for flags in [0u16, 0x8000] {
            for mtype in [1u8, 3] {
                let conf = match erbium::config::verif_load_config_from_string(&yaml) {
                    Ok(c) => c,
                    Err(e) => return CaseResult::machinery(format!("big wire config: {e}")),
                };
                // the reply the handler computes for this very request, on a store of its own
                let mac = WIRE_MACS[0];
                let mut other: std::collections::HashMap<dhcppkt::DhcpOption, Vec<u8>> = Default::default();
                other.insert(dhcppkt::OPTION_MSGTYPE, vec![mtype]);
                other.insert(dhcppkt::OPTION_PARAMLIST, vec![1, 3, 6, 15, 51, 54, 119]);
                if let Some(m) = maxmsg {
                    other.insert(dhcppkt::DhcpOption::from(57u8), m.to_be_bytes().to_vec());
                }
                let expected = {
                    let g = conf.try_read().expect("conf");
                    let mut p = erbium::dhcp::pool::Pool::new_in_memory().expect("pool");
                    let req = erbium::dhcp::DHCPRequest {
                        pkt: dhcppkt::Dhcp { op: dhcppkt::OP_BOOTREQUEST, htype: dhcppkt::HWTYPE_ETHERNET, hlen: 6, hops: 0, xid: 0x6000_0001, secs: 0, flags, ciaddr: Ipv4Addr::UNSPECIFIED, yiaddr: Ipv4Addr::UNSPECIFIED, siaddr: Ipv4Addr::UNSPECIFIED, giaddr: Ipv4Addr::UNSPECIFIED, chaddr: mac.to_vec(), sname: vec![], file: vec![], options: dhcppkt::DhcpOptions { other: other.clone() } },
                        serverip: SRV_IP4,
                        ifindex: 1,
                        if_mtu: Some(1500),
                        if_router: None,
                    };
                    match panics::catch(|| erbium::dhcp::handle_pkt(&mut p, &req, Default::default(), &g)) {
                        Ok(Ok(r)) => ref_decode(&r.serialise()).ok(),
                        _ => None,
                    }
                };
                let Some(expected) = expected else { continue };
                let pool = erbium::dhcp::pool::Pool::new_in_memory().expect("pool");
                let svc = match w.rt.block_on(erbium::dhcp::DhcpService::verif_new_on_port(netinfo.clone(), conf, pool, 67)) {
                    Ok(s) => std::sync::Arc::new(s),
                    Err(e) => return CaseResult::machinery(format!("DhcpService on port 67: {e}")),
                };
                let task = w.rt.spawn(svc.clone().run());
                w.pump(4);
                let mut hd = base_header();
                hd.flags = flags;
                hd.xid = 0x6000_0001;
                hd.chaddr16 = [0; 16];
                hd.chaddr16[..6].copy_from_slice(&mac);
                let mut recs: Vec<(u8, Vec<u8>)> = vec![(53, vec![mtype]), (55, vec![1, 3, 6, 15, 51, 54, 119])];
                if let Some(m) = maxmsg {
                    recs.push((57, m.to_be_bytes().to_vec()));
                }
                let payload = ref_encode(&hd, &recs, &[]);
                let frame = udp4_frame(&mac, &[0xff; 6], (Ipv4Addr::UNSPECIFIED, 68), (Ipv4Addr::BROADCAST, 67), &payload);
                wire.poll();
                let mark = wire.rx.len();
                n_msgs += 1;
                if let Err(e) = wire.send(&frame) {
                    return CaseResult::machinery(e);
                }
                let mut reply: Option<Vec<u8>> = None;
                let mut quiet = 0;
                for _ in 0..60 {
                    w.pump(4);
                    let got = wire.poll();
                    for f in &wire.rx[mark..] {
                        if f.len() >= 12 && f[6..12] == SRV_MAC && as_dhcp_reply(f).is_some() {
                            reply = Some(f.clone());
                        }
                    }
                    if reply.is_some() {
                        break;
                    }
                    if got == 0 {
                        quiet += 1;
                        if quiet >= 6 {
                            break;
                        }
                    } else {
                        quiet = 0;
                    }
                }
                task.abort();
                drop(svc);
                w.pump(3);
                wire.rx.clear();
                let sub = json!({"engine":"ewire","check":"c12","kind":"big","maxmsg":maxmsg,"flags":flags,"type":mtype,"thorough":case["thorough"]});
                let mk = |oracle: &str, what: String| Violation::new(oracle, format!("on the wire, big reply (message type {mtype}, flags {flags:#06x}, client's maximum message size {:?}): {what}", maxmsg), sub.clone()).sig("part", "wire").sig("kind", "big");
                let Some(f) = reply else {
                    res.violations.push(mk("wire-no-reply", "the handler computes a reply for this request but none appeared on the wire".into()));
                    continue;
                };
                n_replies += 1;
                let (dmac, sip, dip, dport, pl) = as_dhcp_reply(&f).unwrap();
                sizes.push(pl.len());
                if let Err(e) = frame_check(&f, &pl, (sip, 67), (dip, dport), &SRV_MAC, &dmac) {
                    res.violations.push(mk("frame-invalid", format!("reply frame: {e}")));
                }
                match ref_decode(&pl) {
                    // (erbium writes options in hash-map order, which differs from run to run: the texts
                    // below leave out what depends on it so that the same case reports the same thing)
                    // one oracle, one text for "does not decode" and "decodes to something else": which of
                    // the two a cut payload does depends on the option order
                    r => {
                        let same = matches!(&r, Ok(r) if r.options == expected.options && r.yiaddr == expected.yiaddr && r.xid == expected.xid && r.flags == expected.flags);
                        if !same {
                            res.violations.push(mk("payload-modified", format!("the payload on the wire ({} octets) is not the reply the handler computed for this request (it does not decode to it)", pl.len())));
                        }
                    }
                }
            }
        }
    }
    drop(wire);
    drop(w);
    teardown_veth();
    crate::common::clock::unset();
    let mut st = serde_json::Map::new();
    st.insert("wire_messages".into(), json!(n_msgs));
    st.insert("wire_replies".into(), json!(n_replies));
    st.insert(format!("class:big:{}", if sizes.iter().any(|s| *s > 548) { "over548" } else { "small" }), json!(1));
    res.stats = Value::Object(st);
    res
}

const WIRE_YAML: &str = "---
dhcp-policies:
  - match-subnet: 192.0.2.0/24
    apply-range: {start: 192.0.2.10, end: 192.0.2.11}
";

pub fn wire_run_case(case: &Value) -> crate::netrun::CaseResult {
    use crate::ewire::*;
    use crate::netrun::CaseResult;
    if !crate::enet::ISOLATED.load(std::sync::atomic::Ordering::SeqCst) {
        return CaseResult::machinery("the wire part needs a private network namespace (unshare failed)");
    }
    if case["kind"].as_str() == Some("big") {
        return wire_run_big(case);
    }
    let thorough = case["thorough"].as_bool().unwrap_or(false);
    teardown_veth();
    if let Err(e) = setup_veth(Route6::None) {
        return CaseResult::machinery(format!("veth set-up: {e}"));
    }
    let mut res = CaseResult::ok("wire");
    let alpha = wire_alphabet(thorough);
    let hs = wire_histories(thorough);
    let (from, to) = (case["from"].as_u64().unwrap_or(0) as usize, case["to"].as_u64().unwrap_or(0) as usize);
    let mut w = match WireRt::new() {
        Ok(w) => w,
        Err(e) => return CaseResult::machinery(e),
    };
    crate::common::clock::set_secs(1_700_000_000);
    let netinfo = w.rt.block_on(erbium_net::netinfo::SharedNetInfo::new());
    w.pump(4);
    let mut wire = match Wire::open() {
        Ok(x) => x,
        Err(e) => return CaseResult::machinery(e),
    };
    let mut n_msgs = 0u64;
    let mut n_replies = 0u64;
    let mut classes: std::collections::BTreeSet<String> = Default::default();
    for h in hs.iter().take(to).skip(from) {
        let conf = match erbium::config::verif_load_config_from_string(WIRE_YAML) {
            Ok(c) => c,
            Err(e) => return CaseResult::machinery(format!("wire config: {e}")),
        };
        let pool = match erbium::dhcp::pool::Pool::new_in_memory() {
            Ok(p) => p,
            Err(e) => return CaseResult::machinery(e.to_string()),
        };
        let svc = match w.rt.block_on(erbium::dhcp::DhcpService::verif_new_on_port(netinfo.clone(), conf, pool, 67)) {
            Ok(s) => std::sync::Arc::new(s),
            Err(e) => return CaseResult::machinery(format!("DhcpService on port 67: {e}")),
        };
        let task = w.rt.spawn(svc.clone().run());
        w.pump(4);
        let mut last: [Option<Ipv4Addr>; 2] = [None, None];
        for (step, oi) in h.iter().enumerate() {
            let (c, k, flags) = alpha[*oi];
            n_msgs += 1;
            let mac = WIRE_MACS[c];
            let own = last[c].unwrap_or(Ipv4Addr::new(192, 0, 2, 10));
            let others = last[1 - c].unwrap_or(Ipv4Addr::new(192, 0, 2, 11));
            let mut hd = base_header();
            hd.flags = flags;
            hd.xid = 0x5000_0000 + (*oi as u32) * 16 + step as u32;
            hd.chaddr16 = [0; 16];
            hd.chaddr16[..6].copy_from_slice(&mac);
            let mut recs: Vec<(u8, Vec<u8>)> = vec![];
            let mut unicast_from: Option<Ipv4Addr> = None;
            match WIRE_KINDS[k] {
                "discover" => recs.push((53, vec![1])),
                "request-selecting" => {
                    recs.push((53, vec![3]));
                    recs.push((50, own.octets().to_vec()));
                    recs.push((54, SRV_IP4.octets().to_vec()));
                }
                "request-renew-own" => {
                    recs.push((53, vec![3]));
                    hd.ciaddr = own.octets();
                    unicast_from = Some(own);
                }
                "request-ciaddr-other" => {
                    recs.push((53, vec![3]));
                    hd.ciaddr = others.octets();
                    unicast_from = Some(others);
                }
                _ => {
                    recs.push((53, vec![3]));
                    hd.ciaddr = [10, 9, 9, 9];
                }
            }
            recs.push((55, vec![1, 3, 6, 51, 54]));
            let payload = ref_encode(&hd, &recs, &[]);
            let frame = match unicast_from {
                Some(src) => udp4_frame(&mac, &SRV_MAC, (src, 68), (SRV_IP4, 67), &payload),
                None => udp4_frame(&mac, &[0xff; 6], (Ipv4Addr::UNSPECIFIED, 68), (Ipv4Addr::BROADCAST, 67), &payload),
            };
            wire.poll();
            let mark = wire.rx.len();
            if let Err(e) = wire.send(&frame) {
                return CaseResult::machinery(e);
            }
            // a reply, if there is one, comes within a few rounds; three quiet rounds mean none
            let mut quiet = 0;
            let mut reply: Option<Vec<u8>> = None;
            for _ in 0..60 {
                w.pump(4);
                let got = wire.poll();
                for f in &wire.rx[mark..] {
                    if f.len() >= 12 && f[6..12] == SRV_MAC && as_dhcp_reply(f).is_some() {
                        reply = Some(f.clone());
                    }
                }
                if reply.is_some() {
                    break;
                }
                if got == 0 {
                    quiet += 1;
                    if quiet >= 6 {
                        break;
                    }
                } else {
                    quiet = 0;
                }
            }
            let sub = json!({"engine":"ewire","check":"c12","history": h.iter().take(step + 1).map(|i| { let (c, k, f) = alpha[*i]; json!({"client": c, "kind": WIRE_KINDS[k], "flags": f}) }).collect::<Vec<_>>(), "thorough": thorough});
            let mk = |oracle: &str, what: String| Violation::new(oracle, format!("on the wire, step {step} ({} from client {c}, flags {flags:#06x}): {what}", WIRE_KINDS[k]), sub.clone()).sig("part", "wire").sig("kind", WIRE_KINDS[k]);
            let Some(f) = reply else {
                classes.insert(format!("{}:no-reply", WIRE_KINDS[k]));
                continue;
            };
            n_replies += 1;
            let (dmac, sip, dip, dport, pl) = as_dhcp_reply(&f).unwrap();
            // lengths, checksums, payload intact -- for the addresses the frame itself carries
            if let Err(e) = frame_check(&f, &pl, (sip, 67), (dip, dport), &SRV_MAC, &dmac) {
                res.violations.push(mk("frame-invalid", format!("reply frame: {e}")));
            }
            if sip != SRV_IP4 {
                res.violations.push(mk("frame-source", format!("reply sent from {sip}, the receiving interface's address is {SRV_IP4}")));
            }
            if dport != 68 {
                res.violations.push(mk("frame-port", format!("reply sent to port {dport}, the request came from port 68")));
            }
            match ref_decode(&pl) {
                Err(e) => res.violations.push(mk("wire-decode", format!("the reply payload does not decode: {e}"))),
                Ok(r) => {
                    let yi = Ipv4Addr::from(r.yiaddr);
                    last[c] = Some(yi);
                    if r.xid != hd.xid {
                        res.violations.push(mk("wire-xid", format!("reply xid {:#x}, request {:#x}", r.xid, hd.xid)));
                    }
                    let want = if flags & 0x8000 != 0 { Ipv4Addr::BROADCAST } else { yi };
                    if dip != want {
                        res.violations.push(mk(
                            "frame-destination",
                            format!("the reply assigning {yi} is IPv4-addressed to {dip}; the request's broadcast bit is {}, so it must go to {want}", if flags & 0x8000 != 0 { "set" } else { "clear" }),
                        ));
                    }
                    classes.insert(format!("{}:{}:{}", WIRE_KINDS[k], if flags & 0x8000 != 0 { "bcast" } else { "unicast" }, if hd.ciaddr != [0; 4] && Ipv4Addr::from(hd.ciaddr) != yi { "ciaddr-not-granted" } else { "plain" }));
                }
            }
        }
        task.abort();
        drop(svc);
        w.pump(3);
        wire.rx.clear();
        let ps = panics::take_all();
        if let Some(p) = ps.first() {
            res.violations.push(Violation::new("wire-panic", format!("the service panicked while serving frames: {} at {}", p.msg, panics::short_loc(&p.loc)), case.clone()).sig("loc", panics::short_loc(&p.loc)));
        }
    }
    drop(wire);
    drop(w);
    teardown_veth();
    crate::common::clock::unset();
    let mut st = serde_json::Map::new();
    st.insert("wire_messages".into(), json!(n_msgs));
    st.insert("wire_replies".into(), json!(n_replies));
    for c in classes {
        st.insert(format!("class:{c}"), json!(1));
    }
    res.stats = Value::Object(st);
    res
}

pub fn run(tier: &str, replay: Option<Value>) -> ! {
    let mut rep = Report::new("C12", if replay.is_some() { "quick" } else { tier }, "exploration");
    if let Some(case) = replay {
        rep.replay_mode = true;
        let case = if case.get("case").is_some() { case["case"].clone() } else { case };
        // every part is cheap: re-run the part the case belongs to
        match case["part"].as_str() {
            Some("flags") => {
                check_flags(&mut rep);
            }
            Some("frame") => {
                check_frames(&mut rep);
            }
            Some("frame-sweep") => {
                check_checksum_sweeps(&mut rep, true);
            }
            _ if case["engine"].as_str() == Some("ewire") && case["kind"].as_str() == Some("big") => {
                crate::enet::isolate_network();
                crate::netrun::replay_one(&mut rep, &json!({"engine":"ewire","check":"c12","kind":"big","thorough":false}), wire_run_case);
            }
            _ if case["engine"].as_str() == Some("ewire") => {
                crate::enet::isolate_network();
                // replay the one history on a fresh rig
                let th = case["thorough"].as_bool().unwrap_or(false);
                let alpha = wire_alphabet(th);
                let want: Vec<usize> = case["history"].as_array().map(|a| a.iter().filter_map(|m| alpha.iter().position(|(c, k, f)| Some(*c as u64) == m["client"].as_u64() && Some(WIRE_KINDS[*k]) == m["kind"].as_str() && Some(*f as u64) == m["flags"].as_u64())).collect()).unwrap_or_default();
                // pad to full depth with a harmless repeat of the last message
                let depth = if th { 3 } else { 2 };
                let mut full = want.clone();
                while full.len() < depth {
                    full.push(*want.last().unwrap_or(&0));
                }
                match wire_histories(th).iter().position(|h| *h == full) {
                    Some(i) => crate::netrun::replay_one(&mut rep, &json!({"engine":"ewire","check":"c12","from":i,"to":i + 1,"thorough":th}), wire_run_case),
                    None => rep.machinery_error("replay history not in the enumeration"),
                }
            }
            _ => {
                check_roundtrip(&mut rep, true);
            }
        }
        rep.finish();
    }
    let thorough = tier == "thorough";
    let (e1, d1) = check_flags(&mut rep);
    let (e2, d2, s2) = check_roundtrip(&mut rep, thorough);
    let (e3, d3, s3) = check_frames(&mut rep);
    let e4 = check_checksum_sweeps(&mut rep, thorough);
    let agg = crate::netrun::run_sharded(&mut rep, "C12", tier, wire_cases, 16);
    let e5 = agg.stats_sum.get("wire_replies").copied().unwrap_or(0.0) as u64;
    rep.cov("wire_messages_sent", agg.stats_sum.get("wire_messages").copied().unwrap_or(0.0) as u64);
    rep.cov("wire_reply_frames_judged", e5);
    rep.cov("wire_classes", json!(agg.stats_sum.keys().filter_map(|k| k.strip_prefix("class:").map(|s| s.to_string())).collect::<Vec<_>>()));
    rep.cov("wire_rule", "the real DhcpService (run loop, recvdhcp, real netlink-fed NetInfo, raw transmit) on port 67 on one end of a veth pair in a private network namespace; every history of 2 (thorough 3) messages over {2 clients} x {DISCOVER, REQUEST selecting, REQUEST with ciaddr = own / the other client's / a foreign address} x flags {0, 0x8000} (thorough + 0x0001, 0x7fff, 0xffff) sent as real frames from the other end; every reply frame captured there must verify (lengths, IPv4 and UDP checksum, payload decodes, xid) and be IPv4-addressed to 255.255.255.255 iff the broadcast bit was set, otherwise to the address it assigns; plus a configuration whose replies exceed 548 octets, asked with the client's maximum message size absent / 300 / 576 / 1000 / 1500: the payload on the wire must decode to the reply the handler computes for that request");
    rep.cov("evaluations", e1 + e2 + e3 + e4 + e5);
    rep.cov("distinct_nontrivial", d1 + d2 + d3);
    rep.cov("rule", "flags: all 65536 values; round trip: header variants x hlen 0..16 x sname/file boundary lengths (full product) + all option sets of size <=3 over 4 (thorough 6) codes x boundary lengths + every option code 1..254 x every one-octet value 0..255 (sname/file empty and in use) and x lengths 0/2/3/4, each also decoded by an independent RFC 2131/3396 decoder; frames: every payload length 0..1472 x 5 patterns x 3 address tuples; checksum sweeps: all 65536 values of the first payload word and of the low half of the source address, for 4 (thorough 11) payload lengths x 2 (3) fills -- every value the one's-complement sum can take for that frame shape. distinct = outcome/shape classes (flags: (observed,expected) pairs; round trip: header/length classes; frames: length x pattern)");
    rep.cov("exhaustive", true);
    rep.cov("parts", json!({"flags": e1, "roundtrip_and_wire_dual": e2, "frames": e3, "checksum_word_sweeps": e4}));
    let mut samples = s2;
    samples.extend(s3);
    samples.push(json!({"flags": "0x0000..=0xffff"}));
    rep.cov("samples", samples);
    rep.assume("wire part: client frames are unfragmented and the relay agent field giaddr is zero (relayed replies are not exercised)");
    rep.assume("a transmitted UDP checksum of 0 is accepted as 'no checksum' (RFC 768)");
    rep.finish()
}
