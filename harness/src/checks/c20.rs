//! C20: the lease listing and the lease gauges report the lease store truthfully.
//! (a) gauges: every store reachable by the E-HIST search x boundary clocks, read through the real
//!     /metrics endpoint (which calls the real DhcpService::update_metrics);
//! (b) listing: stores built by real DISCOVERs whose host-name / client-identifier bytes are
//!     enumerated, GET /api/v1/leases.json parsed by a strict JSON parser and compared with the rows.
use crate::common::report::{Report, Violation};
use crate::common::{clock, panics};
use crate::ehist::*;
use crate::httprig::{HttpRig, Via};
use erbium::dhcp::pool::{self, rusqlite};
use serde_json::{Value, json};

fn scratch() -> String {
    let base = if std::path::Path::new("/dev/shm").is_dir() { "/dev/shm" } else { "/tmp" };
    let d = format!("{}/erbium-verif-c20-{}", base, std::process::id());
    std::fs::create_dir_all(&d).expect("scratch");
    d
}

fn gauge(body: &str, name: &str) -> Option<i64> {
    body.lines().find(|l| l.starts_with(name) && l[name.len()..].starts_with(' ')).and_then(|l| l[name.len()..].trim().parse::<f64>().ok()).map(|f| f as i64)
}

fn gauges_part(rep: &mut Report, thorough: bool) -> (u64, u64, Vec<Value>) {
    let cfgs = match all_cfgs() {
        Ok(c) => c,
        Err(e) => {
            rep.machinery_error(e);
            return (0, 0, vec![]);
        }
    };
    // reachable stores from the same search as C01
    let spec = AlphabetSpec { rfc4361_clients: false, cfgs: &["K1", "K2", "K3"], clients: 2, addrs: &["192.0.2.9", "192.0.2.10", "198.51.100.10"], ticks: &[150, 300, 301] };
    let alpha = build_alphabet(&cfgs, &spec);
    let depth = if thorough { 4 } else { 3 };
    let (stats, _found) = match bfs(&cfgs, &alpha, depth, 120.0, 3_000_000, depth) {
        Ok(x) => x,
        Err(e) => {
            rep.machinery_error(e);
            return (0, 0, vec![]);
        }
    };
    let dir = scratch();
    let path = format!("{dir}/gauges.sqlite");
    let _ = std::fs::remove_file(&path);
    clock::set_secs(NOW0 as u64);
    let pool = match rusqlite::Connection::open(&path).map_err(|e| e.to_string()).and_then(|c| pool::Pool::verif_with_conn(c).map_err(|e| e.to_string())) {
        Ok(p) => p,
        Err(e) => {
            rep.machinery_error(e);
            return (0, 0, vec![]);
        }
    };
    let mut rig = match HttpRig::start(2, "", pool) {
        Ok(r) => r,
        Err(e) => {
            rep.machinery_error(e);
            return (0, 0, vec![]);
        }
    };
    let side = rusqlite::Connection::open(&path).expect("side connection");
    let mut n = 0u64;
    let mut classes = std::collections::BTreeSet::new();
    let mut reported = std::collections::BTreeSet::new();
    // include the empty store last as well, after non-empty ones (stale gauges must not survive)
    let mut stores: Vec<State> = stats.reached.iter().map(|(s, _)| s.clone()).collect();
    stores.push(vec![]);
    for st in &stores {
        side.execute("DELETE FROM leases", []).expect("delete");
        for r in st {
            side.execute("INSERT INTO leases (address, clientid, start, expiry, options) VALUES (?1, ?2, ?3, ?4, x'ff')", rusqlite::params![r.ip.to_string(), r.client, NOW0 + r.start, NOW0 + r.expiry]).expect("insert");
        }
        let mut nows: Vec<i64> = vec![NOW0];
        for r in st {
            for d in [-1, 0, 1] {
                nows.push(NOW0 + r.expiry + d);
            }
        }
        nows.sort();
        nows.dedup();
        for (ni, now) in nows.into_iter().enumerate() {
            n += 1;
            clock::set_secs(now as u64);
            // the first scrape after every change of the store is a contended one: the harness holds
            // the lease store's mutex, as a packet handler in the middle of a request does, while
            // the scrape is in flight and releases it 40 rounds later.  The values served must be
            // those of the store as it is, not those of the previous scrape.
            let contended = ni == 0;
            let case = json!({"engine":"c20","part":"gauges","rows": state_json(st), "now_rel": now - NOW0, "store_mutex_held_during_scrape": contended});
            let r = if contended {
                let m = rig.dhcp.verif_pool();
                let mut guard = m.try_lock_owned().ok();
                if guard.is_none() {
                    rep.machinery_error("could not take the lease store mutex");
                }
                rig.get_hooked(Via::V6, "/metrics", &mut |round| {
                    if round == 40 {
                        guard.take();
                    }
                })
            } else {
                rig.get(Via::V6, "/metrics")
            };
            match r {
                Err(e) => {
                    rep.violation(Violation::new("metrics-unavailable", format!("GET /metrics failed: {e}"), case));
                    break;
                }
                Ok((status, _h, body)) => {
                    let body = String::from_utf8_lossy(&body).to_string();
                    let (a, x) = (gauge(&body, "dhcp_active_leases"), gauge(&body, "dhcp_expired_leases"));
                    let future = st.iter().filter(|r| NOW0 + r.expiry > now).count() as i64;
                    let future_or_now = st.iter().filter(|r| NOW0 + r.expiry >= now).count() as i64;
                    let total = st.len() as i64;
                    classes.insert(format!("rows{}:future{}", total.min(3), future.min(3)));
                    // the statement is explicit about the boundary: expiry == now has passed
                    let _ = future_or_now;
                    let ok = status == 200 && matches!((a, x), (Some(a), Some(x)) if a == future && x == total - future);
                    if !ok {
                        let oracle = if total == 0 { "gauges-empty-store" } else { "gauges" };
                        if reported.insert(oracle) {
                            rep.violation(
                                Violation::new(oracle, format!("store with {total} lease(s), {future} expiring in the future: dhcp_active_leases={:?} dhcp_expired_leases={:?} (status {status})", a, x), case).sig("part", "gauges").sig("empty_store", total == 0),
                            );
                        }
                    }
                }
            }
        }
    }
    let ps = rig.stop();
    if let Some(p) = ps.first() {
        rep.violation(Violation::new("panic", format!("task panicked while serving /metrics: {} at {}", p.msg, panics::short_loc(&p.loc)), json!({"engine":"c20","part":"gauges"})).sig("loc", panics::short_loc(&p.loc)));
    }
    let _ = std::fs::remove_dir_all(&dir);
    (n, classes.len() as u64, vec![json!({"part":"gauges","stores": stores.len(), "bfs_depth": stats.depth_completed})])
}

const LISTING_YAML: &str = "dhcp-policies:
  - match-subnet: 10.20.0.0/16
    apply-subnet: 10.20.0.0/21
";

fn dangerous() -> Vec<u8> {
    let mut v: Vec<u8> = vec![b'"', b'\\', b'/', b'\'', 0, 1, 7, 8, 9, 10, 12, 13, 0x1b, 0x1f, 0x7f, 0x80, 0x85, 0xa0, 0xbf, 0xc0, 0xc2, 0xc3, 0xe2, 0xed, 0xef, 0xf0, 0xf4, 0xf5, 0xff, b'a', b' ', b'{', b'}', b'[', b',', b':', b'u', 0xa8, 0xa9, 0x9f];
    v.dedup();
    v
}

fn listing_part(rep: &mut Report, thorough: bool) -> (u64, u64, Vec<Value>) {
    // the values: (host-name option bytes or None, client identifier bytes or None)
    let mut vals: Vec<(Option<Vec<u8>>, Option<Vec<u8>>)> = vec![(None, None), (Some(vec![]), None), (None, Some(vec![]))];
    // further options a client may put into its DISCOVER (they are stored with the lease and read
    // again by the listing): every option code x value lengths 0..4 and 255, no host name
    let mut extras: Vec<(u8, Vec<u8>)> = vec![];
    for code in 1..=254u8 {
        if [12u8, 50, 51, 53, 54, 61].contains(&code) {
            continue;
        }
        for len in [0usize, 1, 2, 3, 4, 255] {
            extras.push((code, vec![if len % 2 == 0 { 0xff } else { 0x01 }; len]));
        }
    }
    for b in 0..=255u8 {
        vals.push((Some(vec![b]), None));
        vals.push((Some(vec![b'h', b, b'z']), None));
        vals.push((None, Some(vec![b, 0x55])));
    }
    let d = dangerous();
    for a in &d {
        for b in &d {
            vals.push((Some(vec![*a, *b]), None));
            if thorough {
                vals.push((Some(vec![b'x', *a, *b, b'y']), Some(vec![*a, *b, 1])));
            }
        }
    }
    if thorough {
        // every two-octet host name, and every three-octet one over the dangerous set
        for a in 0..=255u8 {
            for b in 0..=255u8 {
                vals.push((Some(vec![a, b]), None));
            }
        }
        for a in &d {
            for b in &d {
                for c in &d {
                    vals.push((Some(vec![*a, *b, *c]), None));
                }
            }
        }
    }
    vals.push((Some(vec![b'a'; 255]), None));
    vals.push((Some((0..255u8).collect()), None));
    vals.push((Some(vec![0xe2, 0x80, 0xa8]), None)); // U+2028
    vals.push((Some("h\u{2029}\u{feff}é\u{1F600}".as_bytes().to_vec()), None));
    vals.push((None, Some(vec![0xab; 255])));
    vals.push((None, Some((0..255u8).collect())));
    let conf = match erbium::config::verif_load_config_from_string(&format!("---\n{LISTING_YAML}")) {
        Ok(c) => c,
        Err(e) => {
            rep.machinery_error(format!("listing config: {e}"));
            return (0, 0, vec![]);
        }
    };
    let dir = scratch();
    let mut n = 0u64;
    let mut classes = std::collections::BTreeSet::new();
    let mut samples = vec![];
    let vals: Vec<(Option<Vec<u8>>, Option<Vec<u8>>, Option<(u8, Vec<u8>)>)> = vals.into_iter().map(|(h, c)| (h, c, None)).chain(extras.iter().map(|e| (None, None, Some(e.clone())))).collect();
    let mut extras_not_leased = 0u64;
    for (bi, batch) in vals.chunks(1800).enumerate() {
        let path = format!("{dir}/listing{bi}.sqlite");
        let _ = std::fs::remove_file(&path);
        clock::set_secs(NOW0 as u64);
        let mut p = match rusqlite::Connection::open(&path).map_err(|e| e.to_string()).and_then(|c| pool::Pool::verif_with_conn(c).map_err(|e| e.to_string())) {
            Ok(p) => p,
            Err(e) => {
                rep.machinery_error(e);
                return (n, 0, vec![]);
            }
        };
        // real DISCOVERs
        {
            let g = conf.try_read().expect("conf");
            for (i, (host, cid, extra)) in batch.iter().enumerate() {
                let mut other: std::collections::HashMap<erbium::dhcp::dhcppkt::DhcpOption, Vec<u8>> = Default::default();
                use erbium::dhcp::dhcppkt::*;
                other.insert(OPTION_MSGTYPE, vec![1]);
                if let Some(h) = host {
                    other.insert(OPTION_HOSTNAME, h.clone());
                }
                if let Some(c) = cid {
                    let mut c = c.clone();
                    if !c.is_empty() {
                        c.extend_from_slice(&(i as u16).to_be_bytes());
                    }
                    other.insert(OPTION_CLIENTID, c);
                }
                if let Some((code, v)) = extra {
                    other.insert(DhcpOption::from(*code), v.clone());
                }
                let chaddr = vec![2, 1, (bi as u8), (i >> 8) as u8, i as u8, 7];
                let req = erbium::dhcp::DHCPRequest {
                    pkt: Dhcp { op: OP_BOOTREQUEST, htype: HWTYPE_ETHERNET, hlen: 6, hops: 0, xid: i as u32, secs: 0, flags: 0, ciaddr: "0.0.0.0".parse().unwrap(), yiaddr: "0.0.0.0".parse().unwrap(), siaddr: "0.0.0.0".parse().unwrap(), giaddr: "0.0.0.0".parse().unwrap(), chaddr, sname: vec![], file: vec![], options: DhcpOptions { other } },
                    serverip: "10.20.0.1".parse().unwrap(),
                    ifindex: 1,
                    if_mtu: None,
                    if_router: None,
                };
                match panics::catch(|| erbium::dhcp::handle_pkt(&mut p, &req, Default::default(), &g)) {
                    Ok(Ok(_)) => {}
                    Ok(Err(_)) if extra.is_some() => extras_not_leased += 1,
                    Ok(Err(e)) => {
                        rep.machinery_error(format!("DISCOVER {i} of batch {bi} got no lease: {e}"));
                        return (n, 0, vec![]);
                    }
                    Err(pi) => {
                        rep.violation(Violation::new("discover-panic", format!("DISCOVER with host-name {:02x?} panicked: {}", host, pi.msg), json!({"engine":"c20","part":"listing"})));
                    }
                }
            }
        }
        let mut rows: Vec<(String, String, u64, u64)> = p.get_leases().unwrap_or_default().iter().map(|l| (l.ip.to_string(), l.client_id.iter().map(|b| format!("{:02x}", b)).collect::<Vec<_>>().join(":"), l.start as u64, l.expire as u64)).collect();
        rows.sort();
        let mut rig = match HttpRig::start(4 + bi as u32, &format!("{LISTING_YAML}"), p) {
            Ok(r) => r,
            Err(e) => {
                rep.machinery_error(e);
                return (n, 0, vec![]);
            }
        };
        let r = rig.get(Via::Unix, "/api/v1/leases.json");
        let ps = rig.stop();
        n += batch.len() as u64;
        let case = json!({"engine":"c20","part":"listing","batch":bi,"leases":rows.len()});
        match r {
            Err(e) => rep.violation(Violation::new("listing-unavailable", format!("GET /api/v1/leases.json failed: {e}{}", ps.first().map(|p| format!(" (panic: {} at {})", p.msg, panics::short_loc(&p.loc))).unwrap_or_default()), case).sig("part", "listing")),
            Ok((status, _h, body)) => {
                if status != 200 {
                    rep.violation(Violation::new("listing-status", format!("status {status}"), case.clone()).sig("part", "listing"));
                }
                match serde_json::from_slice::<Value>(&body) {
                    Err(e) => {
                        // show the offending spot
                        let (line, col) = (e.line(), e.column());
                        let l = String::from_utf8_lossy(&body).lines().nth(line.saturating_sub(1)).unwrap_or("").to_string();
                        let lo = col.saturating_sub(40).min(l.len());
                        let mut lo2 = lo;
                        while !l.is_char_boundary(lo2) {
                            lo2 -= 1;
                        }
                        let mut hi = (col + 20).min(l.len());
                        while !l.is_char_boundary(hi) {
                            hi -= 1;
                        }
                        rep.violation(Violation::new("listing-not-json", format!("the listing of {} leases is not valid JSON: {e}; near: {:?}", rows.len(), &l[lo2..hi]), case).sig("part", "listing"));
                        classes.insert("invalid-json".to_string());
                    }
                    Ok(v) => {
                        classes.insert("valid-json".to_string());
                        let mut got: Vec<(String, String, u64, u64)> = v["leases"].as_array().cloned().unwrap_or_default().iter().map(|e| (e["ip"].as_str().unwrap_or("").to_string(), e["client_id"].as_str().unwrap_or("").to_string(), e["start"].as_u64().unwrap_or(u64::MAX), e["expire"].as_u64().unwrap_or(u64::MAX))).collect();
                        got.sort();
                        if got != rows {
                            let missing = rows.iter().filter(|r| !got.contains(r)).count();
                            let extra = got.iter().filter(|r| !rows.contains(r)).count();
                            rep.violation(Violation::new("listing-entries", format!("listing has {} entries for {} stored leases ({missing} rows missing, {extra} entries that match no row)", got.len(), rows.len()), case).sig("part", "listing"));
                        }
                        if samples.len() < 2 {
                            samples.push(json!({"part":"listing","leases":rows.len(),"first_entry": v["leases"].get(5)}));
                        }
                    }
                }
            }
        }
    }
    // a store that went through the schema upgrade: rows written by an older version (no options
    // column) are still leases, and the listing must show every one of them
    {
        let path = format!("{dir}/upgraded.sqlite");
        let _ = std::fs::remove_file(&path);
        clock::set_secs(NOW0 as u64);
        let made = rusqlite::Connection::open(&path).map_err(|e| e.to_string()).and_then(|c| {
            c.execute_batch("CREATE TABLE leases (address TEXT NOT NULL, chaddr BLOB, clientid BLOB, start INTEGER NOT NULL, expiry INTEGER NOT NULL, PRIMARY KEY (address));").map_err(|e| e.to_string())?;
            for i in 0..5u8 {
                c.execute("INSERT INTO leases (address, chaddr, clientid, start, expiry) VALUES (?1, ?2, ?3, ?4, ?5)", rusqlite::params![format!("10.20.1.{}", 10 + i), vec![2u8, 0, 0, 0, 1, i], vec![2u8, 0, 0, 0, 1, i], NOW0 - 100, NOW0 + 200 + i as i64]).map_err(|e| e.to_string())?;
            }
            Ok(())
        });
        match made.and_then(|_| rusqlite::Connection::open(&path).map_err(|e| e.to_string())).and_then(|c| pool::Pool::verif_with_conn(c).map_err(|e| e.to_string())) {
            Err(e) => rep.violation(Violation::new("listing-unavailable", format!("a version-0 lease database does not open: {e}"), json!({"engine":"c20","part":"listing","store":"upgraded-v0"})).sig("part", "listing")),
            Ok(mut p) => {
                let rows = p.get_leases().map(|l| l.len()).unwrap_or(0);
                match HttpRig::start(19, &format!("{LISTING_YAML}"), p) {
                    Err(e) => rep.machinery_error(e),
                    Ok(mut rig) => {
                        let r = rig.get(Via::Unix, "/api/v1/leases.json");
                        let _ = rig.stop();
                        n += 5;
                        let case = json!({"engine":"c20","part":"listing","store":"upgraded-v0","leases":5});
                        match r {
                            Err(e) => rep.violation(Violation::new("listing-unavailable", format!("GET /api/v1/leases.json failed on an upgraded store: {e}"), case).sig("part", "listing")),
                            Ok((_, _, body)) => match serde_json::from_slice::<Value>(&body) {
                                Err(e) => rep.violation(Violation::new("listing-not-json", format!("the listing of an upgraded store is not valid JSON: {e}"), case).sig("part", "listing")),
                                Ok(v) => {
                                    let got = v["leases"].as_array().map(|a| a.len()).unwrap_or(0);
                                    classes.insert("upgraded-store".to_string());
                                    if got != 5 || rows != 5 {
                                        rep.violation(Violation::new("listing-entries", format!("a store written by the previous schema version holds 5 leases; after the upgrade the listing has {got} entries (get_leases: {rows})"), case).sig("part", "listing").sig("store", "upgraded"));
                                    }
                                }
                            },
                        }
                    }
                }
            }
        }
    }
    let _ = std::fs::remove_dir_all(&dir);
    rep.cov("listing_extra_options", json!({"leases_with_one_further_option": extras.len() as u64 - extras_not_leased, "not_leased": extras_not_leased, "rule": "one lease per (option code 1..254 except 12/50/51/53/54/61, value length 0/1/2/3/4/255) carried in the DISCOVER, no host name: the listing must still be valid JSON with one entry per row"}));
    (n, classes.len() as u64, samples)
}

pub fn run(tier: &str, replay: Option<Value>) -> ! {
    let mut rep = Report::new("C20", if replay.is_some() { "quick" } else { tier }, "model_checking");
    let thorough = tier == "thorough";
    crate::enet::set_shard(30);
    if let Some(case) = replay {
        rep.replay_mode = true;
        let case = if case.get("case").is_some() { case["case"].clone() } else { case };
        if case["part"].as_str() == Some("listing") {
            listing_part(&mut rep, true);
        } else {
            gauges_part(&mut rep, false);
        }
        rep.finish();
    }
    let (n1, c1, mut s1) = gauges_part(&mut rep, thorough);
    let (n2, c2, s2) = listing_part(&mut rep, thorough);
    clock::unset();
    s1.extend(s2);
    rep.cov("states", (c1 + c2).max(1));
    rep.cov("transitions", n1 + n2);
    rep.cov("traces_validated_against_impl", n1 + n2);
    rep.cov("evaluations", n1 + n2);
    rep.cov("distinct_nontrivial", c1 + c2);
    rep.cov("rule", "gauges: every lease store reachable by the exact-state search over handle_pkt (depth 3, thorough 4; plus the empty store after non-empty ones) x now in {each row's expiry -1, +0, +1}, read through GET /metrics of the real HTTP API on the real DhcpService, the first scrape after every store change with the lease store mutex held by the harness while the request is in flight; listing: one real DISCOVER per value of host-name option (every single octet, every octet between two letters, every pair of a 40-octet dangerous set -- thorough: every two-octet name and every triple of the dangerous set --, lengths 0/1/255, UTF-8 specials) and client identifier (every octet, empty, 255 octets), listing parsed by serde_json and compared entry by entry with the rows; plus a store written by the previous schema version (5 leases, no options column) after its upgrade. states = distinct (row count, future count) / validity classes; transitions = gauge readings + leases listed");
    rep.cov("exhaustive", true);
    rep.cov("parts", json!({"gauge_readings": n1, "leases_listed": n2}));
    rep.cov("samples", s1);
    rep.assume("gauges are whole-second comparisons: active = #(expiry > now), expired = #(expiry <= now), judged exactly, including the instant expiry == now");
    rep.finish()
}
