//! C17: router advertisements carry exactly the configured values in RFC format.
//! YAML -> real loader -> real builder (hook) -> real serialiser -> independent ND decoder
//! (RFC 4861 4.2/4.6, RFC 8106 5, RFC 8781 4, RFC 8910 2.3) -> compared with expected(config).
use crate::common::panics;
use crate::common::report::{Report, Violation, pick_samples};
use erbium::radv::{RaAdvService, icmppkt};
use rayon::prelude::*;
use serde_json::{Value, json};
use std::net::Ipv6Addr;

// ---------------------------------------------------------------------------
// Independent decoder
// ---------------------------------------------------------------------------

#[derive(Clone, Debug, PartialEq, Eq, Default)]
pub struct Pio {
    pub len: u8,
    pub l: bool,
    pub a: bool,
    pub valid: u32,
    pub preferred: u32,
    pub prefix: [u8; 16],
}

#[derive(Clone, Debug, PartialEq, Eq, Default)]
pub struct Ra {
    pub hop: u8,
    pub m: bool,
    pub o: bool,
    pub lifetime: u16,
    pub reachable: u32,
    pub retrans: u32,
    pub slla: Vec<Vec<u8>>,
    pub mtu: Vec<u32>,
    pub pios: Vec<Pio>,
    pub rdnss: Vec<(u32, Vec<[u8; 16]>)>,
    pub dnssl: Vec<(u32, Vec<Vec<Vec<u8>>>)>,
    pub pref64: Vec<(u32, u8, [u8; 12])>, // (lifetime s, prefix length, 96 bits)
    pub portal: Vec<Vec<u8>>,
}

pub fn decode_ra(b: &[u8]) -> Result<Ra, String> {
    if b.len() < 16 {
        return Err("shorter than an RA header".into());
    }
    if b.len() % 8 != 0 {
        return Err(format!("message length {} is not a multiple of 8", b.len()));
    }
    if b[0] != 134 || b[1] != 0 {
        return Err("type/code".into());
    }
    if b[5] & 0x3f != 0 {
        // bits other than M,O: Prf/Proxy etc. are not configurable here, must be zero
        return Err(format!("reserved flag bits set: {:#x}", b[5]));
    }
    let mut ra = Ra {
        hop: b[4],
        m: b[5] & 0x80 != 0,
        o: b[5] & 0x40 != 0,
        lifetime: u16::from_be_bytes([b[6], b[7]]),
        reachable: u32::from_be_bytes([b[8], b[9], b[10], b[11]]),
        retrans: u32::from_be_bytes([b[12], b[13], b[14], b[15]]),
        ..Default::default()
    };
    let mut i = 16;
    while i < b.len() {
        let t = b[i];
        let l = b[i + 1] as usize * 8;
        if l == 0 {
            return Err(format!("option {t} has length 0"));
        }
        if i + l > b.len() {
            return Err(format!("option {t} (length {l}) runs off the message"));
        }
        let v = &b[i + 2..i + l];
        let u32at = |o: usize| u32::from_be_bytes([v[o], v[o + 1], v[o + 2], v[o + 3]]);
        match t {
            1 => {
                if l != 8 {
                    return Err(format!("SLLA option length {l}"));
                }
                ra.slla.push(v.to_vec());
            }
            5 => {
                if l != 8 {
                    return Err(format!("MTU option length {l}"));
                }
                if v[0] != 0 || v[1] != 0 {
                    return Err("MTU reserved field not zero".into());
                }
                ra.mtu.push(u32at(2));
            }
            3 => {
                if l != 32 {
                    return Err(format!("PIO option length {l}"));
                }
                if v[1] & 0x3f != 0 {
                    return Err(format!("PIO reserved1 bits set: {:#x}", v[1]));
                }
                if u32at(10) != 0 {
                    return Err("PIO reserved2 not zero".into());
                }
                let mut prefix = [0u8; 16];
                prefix.copy_from_slice(&v[14..30]);
                let plen = v[0];
                if plen > 128 {
                    return Err(format!("PIO prefix length {plen} > 128"));
                }
                let bits = u128::from_be_bytes(prefix);
                let mask: u128 = if plen == 0 { 0 } else { !0u128 << (128 - plen as u32) };
                if bits & !mask != 0 {
                    return Err(format!("PIO /{plen}: bits beyond the prefix length are not zero ({})", Ipv6Addr::from(prefix)));
                }
                ra.pios.push(Pio { len: plen, l: v[1] & 0x80 != 0, a: v[1] & 0x40 != 0, valid: u32at(2), preferred: u32at(6), prefix });
            }
            25 => {
                if l < 8 || (l - 8) % 16 != 0 {
                    return Err(format!("RDNSS option length {l}"));
                }
                if v[0] != 0 || v[1] != 0 {
                    return Err("RDNSS reserved not zero".into());
                }
                let addrs = v[6..]
                    .chunks(16)
                    .map(|c| {
                        let mut a = [0u8; 16];
                        a.copy_from_slice(c);
                        a
                    })
                    .collect();
                ra.rdnss.push((u32at(2), addrs));
            }
            31 => {
                if l < 8 {
                    return Err(format!("DNSSL option length {l}"));
                }
                if v[0] != 0 || v[1] != 0 {
                    return Err("DNSSL reserved not zero".into());
                }
                let d = &v[6..];
                let mut names = vec![];
                let mut j = 0;
                while j < d.len() {
                    if d[j] == 0 {
                        // padding: everything to the end must be zero
                        if d[j..].iter().any(|x| *x != 0) {
                            return Err("DNSSL: data after padding".into());
                        }
                        break;
                    }
                    let mut labels = vec![];
                    loop {
                        if j >= d.len() {
                            return Err("DNSSL: name not terminated".into());
                        }
                        let ll = d[j] as usize;
                        j += 1;
                        if ll == 0 {
                            break;
                        }
                        if ll > 63 {
                            return Err(format!("DNSSL: label length {ll}"));
                        }
                        if j + ll > d.len() {
                            return Err("DNSSL: label runs off the option".into());
                        }
                        labels.push(d[j..j + ll].to_vec());
                        j += ll;
                    }
                    names.push(labels);
                }
                ra.dnssl.push((u32at(2), names));
            }
            38 => {
                if l != 16 {
                    return Err(format!("PREF64 option length {l}"));
                }
                let w = u16::from_be_bytes([v[0], v[1]]);
                let plc = w & 7;
                let plen = match plc {
                    0 => 96,
                    1 => 64,
                    2 => 56,
                    3 => 48,
                    4 => 40,
                    5 => 32,
                    x => return Err(format!("PREF64 prefix length code {x} is reserved")),
                };
                let mut p = [0u8; 12];
                p.copy_from_slice(&v[2..14]);
                ra.pref64.push((((w >> 3) as u32) * 8, plen, p));
            }
            37 => {
                let end = v.iter().rposition(|x| *x != 0).map(|p| p + 1).unwrap_or(0);
                if v[..end].contains(&0) {
                    return Err("captive portal URI contains NUL".into());
                }
                ra.portal.push(v[..end].to_vec());
            }
            other => return Err(format!("unexpected option type {other}")),
        }
        i += l;
    }
    Ok(ra)
}

// ---------------------------------------------------------------------------
// Configuration grammar with semantics
// ---------------------------------------------------------------------------

/// What a field value means for the wire: an exact value, or unrepresentable (reject or clamp to max).
#[derive(Clone, Debug, PartialEq)]
pub enum Want<T> {
    Is(T),
    Unrep(T), // acceptable: load error, or exactly this clamped value
    Reject,   // acceptable: load error only (no meaningful clamp)
}

#[derive(Clone, Debug)]
pub struct Choice<T: Clone> {
    pub yaml: Option<String>, // None = key absent
    pub want: Want<T>,
}

fn ch<T: Clone>(yaml: Option<&str>, want: Want<T>) -> Choice<T> {
    Choice { yaml: yaml.map(|s| s.to_string()), want }
}

#[derive(Clone, Debug)]
pub struct PrefixChoice {
    pub yaml: String,
    pub want: Want<Pio>,
}

fn pio(addr: &str, len: u8, l: bool, a: bool, valid: u32, preferred: u32) -> Pio {
    Pio { len, l, a, valid, preferred, prefix: addr.parse::<Ipv6Addr>().unwrap().octets() }
}

pub fn prefix_alphabet() -> Vec<PrefixChoice> {
    vec![
        PrefixChoice { yaml: "{prefix: '2001:db8::/64'}".into(), want: Want::Is(pio("2001:db8::", 64, true, true, 2592000, 604800)) },
        // host bits written: the bits beyond the length are reserved and must go out as zero
        PrefixChoice { yaml: "{prefix: '2001:db8::1/64', valid: 1h, preferred: 30m}".into(), want: Want::Is(pio("2001:db8::", 64, true, true, 3600, 1800)) },
        PrefixChoice { yaml: "{prefix: '::/0', on-link: false, autonomous: false, valid: 0, preferred: 0}".into(), want: Want::Is(pio("::", 0, false, false, 0, 0)) },
        PrefixChoice { yaml: "{prefix: '2001:db8::/128', valid: 4294967295, preferred: 4294967295, on-link: true, autonomous: false}".into(), want: Want::Is(pio("2001:db8::", 128, true, false, 0xffff_ffff, 0xffff_ffff)) },
        PrefixChoice { yaml: "{prefix: '2001:db8:1::/48', valid: 4294967296, preferred: 8589934592}".into(), want: Want::Unrep(pio("2001:db8:1::", 48, true, true, 0xffff_ffff, 0xffff_ffff)) },
        PrefixChoice { yaml: "{prefix: '2001:db8::/129'}".into(), want: Want::Reject },
        PrefixChoice { yaml: "{prefix: '2001:db8:ffff:ffff:ffff:ffff:ffff:ffff/33', autonomous: false}".into(), want: Want::Is(pio("2001:db8:8000::", 33, true, false, 2592000, 604800)) },
    ]
}

#[derive(Clone, Debug)]
pub struct Cfg {
    pub top: bool,
    pub hop: Choice<u8>,
    pub managed: Choice<bool>,
    pub other: Choice<bool>,
    pub lifetime: Choice<u16>,
    pub lifetime_unspecified: bool,
    pub reachable: Choice<u32>,
    pub retrans: Choice<u32>,
    pub mtu: Choice<Option<u32>>,
    pub mtu_from_interface: bool,
    pub prefixes: Vec<usize>,
    pub rdnss: usize,
    pub rdnss_lifetime: usize,
    pub dnssl: usize,
    pub dnssl_lifetime: usize,
    pub pref64: usize,
    pub pref64_lifetime: usize,
    pub portal: usize,
    pub ll: bool,
    pub if_mtu: Option<u32>,
}

pub const SELF6: &str = "2001:db8:0:1::1";
pub const DEFAULT_LIFETIME: u64 = 1800;

pub fn hop_choices() -> Vec<Choice<u8>> {
    vec![ch(None, Want::Is(0)), ch(Some("0"), Want::Is(0)), ch(Some("64"), Want::Is(64)), ch(Some("255"), Want::Is(255)), ch(Some("256"), Want::Unrep(255)), ch(Some("null"), Want::Is(0)), ch(Some("-1"), Want::Reject)]
}
pub fn bool_choices() -> Vec<Choice<bool>> {
    vec![ch(None, Want::Is(false)), ch(Some("true"), Want::Is(true)), ch(Some("false"), Want::Is(false))]
}
pub fn lifetime_choices() -> Vec<(Choice<u16>, bool)> {
    vec![
        (ch(None, Want::Is(DEFAULT_LIFETIME as u16)), true),
        (ch(Some("null"), Want::Is(0)), false),
        (ch(Some("0"), Want::Is(0)), false),
        (ch(Some("1800"), Want::Is(1800)), false),
        (ch(Some("30m"), Want::Is(1800)), false),
        (ch(Some("9000"), Want::Is(9000)), false),
        (ch(Some("65535"), Want::Is(65535)), false),
        (ch(Some("65536"), Want::Unrep(65535)), false),
        (ch(Some("1d"), Want::Unrep(65535)), false),
        (ch(Some("4294967296"), Want::Unrep(65535)), false),
    ]
}
pub fn ms_choices() -> Vec<Choice<u32>> {
    vec![ch(None, Want::Is(0)), ch(Some("0"), Want::Is(0)), ch(Some("30s"), Want::Is(30000)), ch(Some("4294967"), Want::Is(4294967000)), ch(Some("4294968"), Want::Unrep(0xffff_ffff)), ch(Some("1w"), Want::Is(604800000)), ch(Some("50d"), Want::Unrep(0xffff_ffff))]
}
pub fn mtu_choices() -> Vec<(Choice<Option<u32>>, bool)> {
    vec![
        (ch(None, Want::Is(None)), true),
        (ch(Some("null"), Want::Is(None)), false),
        (ch(Some("1280"), Want::Is(Some(1280))), false),
        (ch(Some("4294967295"), Want::Is(Some(0xffff_ffff))), false),
        (ch(Some("4294967296"), Want::Unrep(Some(0xffff_ffff))), false),
    ]
}

type Addr = [u8; 16];
fn a6(s: &str) -> Addr {
    s.parse::<Ipv6Addr>().unwrap().octets()
}

/// (yaml for the `dns-servers:` interface key, expected addresses; None = falls back to top level; Some(None) = suppressed)
pub fn rdnss_choices() -> Vec<(Option<&'static str>, Option<Option<Vec<Addr>>>)> {
    vec![
        (None, None),
        (Some("addresses: null"), Some(None)),
        (Some("addresses: ['$self6']"), Some(Some(vec![a6(SELF6)]))),
        (Some("addresses: ['2001:db8::53', '2001:db8::54']"), Some(Some(vec![a6("2001:db8::53"), a6("2001:db8::54")]))),
        (Some("addresses: ['2001:db8::53', '$self6', '::1']"), Some(Some(vec![a6("2001:db8::53"), a6(SELF6), a6("::1")]))),
    ]
}
pub fn opt_lifetime_choices() -> Vec<(Option<&'static str>, Option<Want<u32>>)> {
    // None = default (manual and code disagree on the default: don't-care)
    vec![(None, None), (Some("lifetime: 600"), Some(Want::Is(600))), (Some("lifetime: 0"), Some(Want::Is(0))), (Some("lifetime: 4294967295"), Some(Want::Is(0xffff_ffff))), (Some("lifetime: 4294967296"), Some(Want::Unrep(0xffff_ffff)))]
}
fn dn(s: &str) -> Vec<Vec<u8>> {
    s.split('.').map(|l| l.as_bytes().to_vec()).collect()
}
pub fn dnssl_choices() -> Vec<(Option<String>, Option<Option<Vec<Vec<Vec<u8>>>>>)> {
    let l63 = "x".repeat(63);
    vec![
        (None, None),
        (Some("domains: null".into()), Some(None)),
        (Some("domains: [example.com]".into()), Some(Some(vec![dn("example.com")]))),
        (Some("domains: [a.b.example.com, x]".into()), Some(Some(vec![dn("a.b.example.com"), dn("x")]))),
        (Some(format!("domains: [{l63}.com, abcde.fg]")), Some(Some(vec![dn(&format!("{l63}.com")), dn("abcde.fg")]))),
        (Some("domains: [a.bc.def.ghij.klmno.pqrstu.vwxyz01.example]".into()), Some(Some(vec![dn("a.bc.def.ghij.klmno.pqrstu.vwxyz01.example")]))),
    ]
}
pub fn pref64_choices() -> Vec<(Option<&'static str>, Want<Option<(u8, [u8; 12])>>)> {
    let p = |s: &str| {
        let o = a6(s);
        let mut x = [0u8; 12];
        x.copy_from_slice(&o[..12]);
        x
    };
    vec![
        (None, Want::Is(None)),
        (Some("prefix: '64:ff9b::/96'"), Want::Is(Some((96, p("64:ff9b::"))))),
        (Some("prefix: '2001:db8:64:ff9b::/64'"), Want::Is(Some((64, p("2001:db8:64:ff9b::"))))),
        (Some("prefix: '2001:db8:64:ff00::/56'"), Want::Is(Some((56, p("2001:db8:64:ff00::"))))),
        (Some("prefix: '2001:db8:64::/48'"), Want::Is(Some((48, p("2001:db8:64::"))))),
        (Some("prefix: '2001:db8:6400::/40'"), Want::Is(Some((40, p("2001:db8:6400::"))))),
        (Some("prefix: '2001:db8::/32'"), Want::Is(Some((32, p("2001:db8::"))))),
        (Some("prefix: '2001:db8::/33'"), Want::Reject),
        (Some("prefix: '::/0'"), Want::Reject),
        (Some("prefix: '64:ff9b::/128'"), Want::Reject),
    ]
}
pub fn pref64_lifetime_choices() -> Vec<(Option<&'static str>, Vec<u32>, bool)> {
    // (yaml, acceptable decoded lifetimes, load error also acceptable)
    vec![(None, vec![600], false), (Some("lifetime: 0"), vec![0], false), (Some("lifetime: 600"), vec![600], false), (Some("lifetime: 65528"), vec![65528], false), (Some("lifetime: 601"), vec![600, 608], false), (Some("lifetime: 65536"), vec![65528], true), (Some("lifetime: 18h13m"), vec![65528], true), (Some("lifetime: 1d"), vec![65528], true)]
}
pub fn portal_choices() -> Vec<(Option<String>, Option<Option<Vec<u8>>>)> {
    let mut v: Vec<(Option<String>, Option<Option<Vec<u8>>>)> = vec![(None, None), (Some("null".into()), Some(None))];
    for len in [1usize, 5, 6, 7, 13, 14, 15, 240] {
        let url: String = "https://example.org/abcdefghijklmnopqrstuvwxyz0123456789".chars().cycle().take(len).collect();
        v.push((Some(format!("'{url}'")), Some(Some(url.into_bytes()))));
    }
    v
}

const TOP_YAML: &str = "dns-servers: ['$self6', '192.0.2.53', '2001:db8::1', '$self4']\ndns-search: [top.example, second.example]\ncaptive-portal: 'https://top.example/'\n";

pub fn yaml_of(c: &Cfg) -> String {
    let mut s = String::from("---\n");
    if c.top {
        s.push_str(TOP_YAML);
    }
    s.push_str("router-advertisements:\n  eth0:\n");
    let mut any = false;
    let mut kv = |k: &str, v: &Option<String>, s: &mut String| {
        if let Some(v) = v {
            s.push_str(&format!("    {k}: {v}\n"));
            any = true;
        }
    };
    kv("hop-limit", &c.hop.yaml, &mut s);
    kv("managed", &c.managed.yaml, &mut s);
    kv("other", &c.other.yaml, &mut s);
    kv("lifetime", &c.lifetime.yaml, &mut s);
    kv("reachable", &c.reachable.yaml, &mut s);
    kv("retransmit", &c.retrans.yaml, &mut s);
    kv("mtu", &c.mtu.yaml, &mut s);
    if !c.prefixes.is_empty() {
        let pa = prefix_alphabet();
        let items: Vec<String> = c.prefixes.iter().map(|i| pa[*i].yaml.clone()).collect();
        kv("prefixes", &Some(format!("[{}]", items.join(", "))), &mut s);
    }
    let two = |a: Option<String>, b: Option<&str>| -> Option<String> {
        match (a, b) {
            (None, None) => None,
            (a, b) => Some(format!("{{{}}}", [a, b.map(|x| x.to_string())].into_iter().flatten().collect::<Vec<_>>().join(", "))),
        }
    };
    kv("dns-servers", &two(rdnss_choices()[c.rdnss].0.map(|x| x.to_string()), opt_lifetime_choices()[c.rdnss_lifetime].0), &mut s);
    kv("dns-search", &two(dnssl_choices()[c.dnssl].0.clone(), opt_lifetime_choices()[c.dnssl_lifetime].0), &mut s);
    let p64 = pref64_choices()[c.pref64].0;
    if p64.is_some() {
        kv("pref64", &two(p64.map(|x| x.to_string()), pref64_lifetime_choices()[c.pref64_lifetime].0), &mut s);
    }
    kv("captive-portal", &portal_choices()[c.portal].0, &mut s);
    let _ = any;
    s
}

fn base_cfg(ctx: usize, top: bool) -> Cfg {
    // ctx 0: everything absent; 1: everything present with ordinary values; 2: everything null where null is accepted
    let lt = lifetime_choices();
    let mt = mtu_choices();
    match ctx {
        0 => Cfg {
            top,
            hop: hop_choices()[0].clone(),
            managed: bool_choices()[0].clone(),
            other: bool_choices()[0].clone(),
            lifetime: lt[0].0.clone(),
            lifetime_unspecified: true,
            reachable: ms_choices()[0].clone(),
            retrans: ms_choices()[0].clone(),
            mtu: mt[0].0.clone(),
            mtu_from_interface: true,
            prefixes: vec![],
            rdnss: 0,
            rdnss_lifetime: 0,
            dnssl: 0,
            dnssl_lifetime: 0,
            pref64: 0,
            pref64_lifetime: 0,
            portal: 0,
            ll: true,
            if_mtu: Some(1500),
        },
        1 => Cfg {
            top,
            hop: hop_choices()[2].clone(),
            managed: bool_choices()[1].clone(),
            other: bool_choices()[1].clone(),
            lifetime: lt[3].0.clone(),
            lifetime_unspecified: false,
            reachable: ms_choices()[2].clone(),
            retrans: ms_choices()[2].clone(),
            mtu: mt[2].0.clone(),
            mtu_from_interface: false,
            prefixes: vec![0],
            rdnss: 3,
            rdnss_lifetime: 1,
            dnssl: 2,
            dnssl_lifetime: 1,
            pref64: 1,
            pref64_lifetime: 2,
            portal: 4,
            ll: true,
            if_mtu: Some(1500),
        },
        _ => Cfg {
            top,
            hop: hop_choices()[5].clone(),
            managed: bool_choices()[0].clone(),
            other: bool_choices()[0].clone(),
            lifetime: lt[1].0.clone(),
            lifetime_unspecified: false,
            reachable: ms_choices()[0].clone(),
            retrans: ms_choices()[0].clone(),
            mtu: mt[1].0.clone(),
            mtu_from_interface: false,
            prefixes: vec![],
            rdnss: 1,
            rdnss_lifetime: 0,
            dnssl: 1,
            dnssl_lifetime: 0,
            pref64: 0,
            pref64_lifetime: 0,
            portal: 1,
            ll: false,
            if_mtu: None,
        },
    }
}

type Setter = Box<dyn Fn(&mut Cfg) + Send + Sync>;

/// The option groups of the grammar; each entry of a group sets that group's fields.
fn groups(thorough: bool) -> Vec<(&'static str, Vec<Setter>)> {
    let lt = lifetime_choices();
    let mt = mtu_choices();
    let npre = prefix_alphabet().len();
    let mut gs: Vec<(&'static str, Vec<Setter>)> = vec![];
    // header group: full product hop x M x O
    let mut g: Vec<Setter> = vec![];
    for h in hop_choices() {
        for m in bool_choices() {
            for o in bool_choices() {
                let (h, m, o) = (h.clone(), m.clone(), o.clone());
                g.push(Box::new(move |c: &mut Cfg| {
                    c.hop = h.clone();
                    c.managed = m.clone();
                    c.other = o.clone();
                }));
            }
        }
    }
    gs.push(("header", g));
    let mut g: Vec<Setter> = vec![];
    for (l, unspec) in &lt {
        for r in ms_choices() {
            for t in if thorough { ms_choices() } else { vec![ms_choices()[0].clone(), ms_choices()[4].clone()] } {
                let (l, unspec, r, t) = (l.clone(), *unspec, r.clone(), t.clone());
                g.push(Box::new(move |c: &mut Cfg| {
                    c.lifetime = l.clone();
                    c.lifetime_unspecified = unspec;
                    c.reachable = r.clone();
                    c.retrans = t.clone();
                }));
            }
        }
    }
    gs.push(("timers", g));
    // mtu group: config x interface mtu x link-layer address
    let mut g: Vec<Setter> = vec![];
    for (m, from_if) in &mt {
        for if_mtu in [None, Some(1500u32), Some(0xffff_ffff)] {
            for ll in [false, true] {
                let (m, from_if) = (m.clone(), *from_if);
                g.push(Box::new(move |c: &mut Cfg| {
                    c.mtu = m.clone();
                    c.mtu_from_interface = from_if;
                    c.if_mtu = if_mtu;
                    c.ll = ll;
                }));
            }
        }
    }
    gs.push(("mtu", g));
    // prefixes: all lists of length 0..2 (thorough 0..3)
    let mut lists: Vec<Vec<usize>> = vec![vec![]];
    for i in 0..npre {
        lists.push(vec![i]);
        for j in 0..npre {
            lists.push(vec![i, j]);
            if thorough {
                for k in 0..npre {
                    lists.push(vec![i, j, k]);
                }
            }
        }
    }
    let mut g: Vec<Setter> = vec![];
    for l in lists {
        g.push(Box::new(move |c: &mut Cfg| c.prefixes = l.clone()));
    }
    gs.push(("prefixes", g));
    let mut g: Vec<Setter> = vec![];
    for r in 0..rdnss_choices().len() {
        for l in 0..opt_lifetime_choices().len() {
            g.push(Box::new(move |c: &mut Cfg| {
                c.rdnss = r;
                c.rdnss_lifetime = l;
            }));
        }
    }
    gs.push(("rdnss", g));
    let mut g: Vec<Setter> = vec![];
    for r in 0..dnssl_choices().len() {
        for l in 0..opt_lifetime_choices().len() {
            g.push(Box::new(move |c: &mut Cfg| {
                c.dnssl = r;
                c.dnssl_lifetime = l;
            }));
        }
    }
    gs.push(("dnssl", g));
    let mut g: Vec<Setter> = vec![];
    for p in 0..pref64_choices().len() {
        for l in 0..pref64_lifetime_choices().len() {
            g.push(Box::new(move |c: &mut Cfg| {
                c.pref64 = p;
                c.pref64_lifetime = l;
            }));
        }
    }
    gs.push(("pref64", g));
    let mut g: Vec<Setter> = vec![];
    for p in 0..portal_choices().len() {
        g.push(Box::new(move |c: &mut Cfg| c.portal = p));
    }
    gs.push(("portal", g));
    gs
}

/// Every way erbium.conf(5) lets a duration be written ("numbers suffixed with s, m, h or d;
/// multiple units can be combined, and if the unit is left off it is assumed to be seconds", e.g.
/// "4h20m5" = 15605): every non-empty subset of the four units, in descending and in ascending
/// order, with and without a trailing unit-less number, written tight and with spaces.
/// (spelling, seconds)
pub fn duration_spellings() -> Vec<(String, u64)> {
    let units: [(&str, u64, u64); 4] = [("d", 86400, 2), ("h", 3600, 3), ("m", 60, 4), ("s", 1, 5)];
    let mut out: Vec<(String, u64)> = vec![("4h20m5".into(), 15605), ("15605".into(), 15605)];
    for mask in 1u32..16 {
        let parts: Vec<(String, u64)> = (0..4).filter(|i| mask & (1 << i) != 0).map(|i| (format!("{}{}", units[i].2, units[i].0), units[i].1 * units[i].2)).collect();
        let mut orders = vec![parts.clone()];
        if parts.len() > 1 {
            orders.push(parts.iter().rev().cloned().collect());
        }
        for o in orders {
            for trailing in [false, true] {
                for sep in ["", " "] {
                    let mut words: Vec<String> = o.iter().map(|p| p.0.clone()).collect();
                    let mut secs: u64 = o.iter().map(|p| p.1).sum();
                    if trailing {
                        words.push("7".into());
                        secs += 7;
                    }
                    out.push((words.join(sep), secs));
                }
            }
        }
    }
    out.sort();
    out.dedup();
    out
}

pub fn all_cfgs(thorough: bool) -> Vec<(String, Cfg)> {
    let mut out: Vec<(String, Cfg)> = vec![];
    let gs = groups(thorough);
    // for the pairwise products the prefix group is cut to lists of length <= 1 (8 entries) and the
    // timers group to the lifetime axis, or the products explode without adding interactions
    let pair_cap = |name: &str, len: usize| -> usize {
        match name {
            "prefixes" => len.min(8),
            _ => len,
        }
    };
    for ctx in 0..3 {
        for top in [false, true] {
            let b = base_cfg(ctx, top);
            out.push((format!("base{ctx}"), b.clone()));
            // every group alone: its full product on the base context
            for (name, g) in &gs {
                for set in g {
                    let mut c = b.clone();
                    set(&mut c);
                    out.push(((*name).into(), c));
                }
            }
            // every duration spelling of the manual, as the reachable time (milliseconds on the
            // wire, 32 bits: every spelling's value is representable) and as the router lifetime
            // where it fits 16 bits
            if ctx == 0 {
                for (sp, secs) in duration_spellings() {
                    let mut c = b.clone();
                    c.reachable = ch(Some(&format!("'{sp}'")), Want::Is((secs * 1000) as u32));
                    if secs <= 65535 {
                        c.lifetime = ch(Some(&format!("'{sp}'")), Want::Is(secs as u16));
                        c.lifetime_unspecified = false;
                    }
                    out.push(("durations".into(), c));
                }
            }
            // every pair of groups, full product of the two (cross-group interactions:
            // one option's field read by another option's serialiser, shared scratch values, ...)
            {
                for i in 0..gs.len() {
                    for j in i + 1..gs.len() {
                        let (ni, gi) = (&gs[i].0, &gs[i].1);
                        let (nj, gj) = (&gs[j].0, &gs[j].1);
                        let (li, lj) = (pair_cap(ni, gi.len()), pair_cap(nj, gj.len()));
                        let step_i = if *ni == "timers" { 5 } else { 1 };
                        let step_j = if *nj == "timers" { 5 } else { 1 };
                        for si in gi.iter().take(li).step_by(step_i) {
                            for sj in gj.iter().take(lj).step_by(step_j) {
                                let mut c = b.clone();
                                si(&mut c);
                                sj(&mut c);
                                out.push((format!("{ni}x{nj}"), c));
                            }
                        }
                    }
                }
            }
            // thorough: every triple of the smaller groups
            if thorough {
                let small: Vec<usize> = (0..gs.len()).filter(|i| gs[*i].1.len() <= 60).collect();
                for (a, &i) in small.iter().enumerate() {
                    for (bb, &j) in small.iter().enumerate().skip(a + 1) {
                        for &k in small.iter().skip(bb + 1) {
                            for si in gs[i].1.iter() {
                                for sj in gs[j].1.iter() {
                                    for sk in gs[k].1.iter() {
                                        let mut c = b.clone();
                                        si(&mut c);
                                        sj(&mut c);
                                        sk(&mut c);
                                        out.push((format!("{}x{}x{}", gs[i].0, gs[j].0, gs[k].0), c));
                                    }
                                }
                            }
                        }
                    }
                }
            }
        }
    }
    out
}

// ---------------------------------------------------------------------------
// Oracle
// ---------------------------------------------------------------------------

fn may_reject(c: &Cfg) -> bool {
    let unrep = |w: &dyn std::any::Any| -> bool { let _ = w; false };
    let _ = unrep;
    fn r<T>(w: &Want<T>) -> bool {
        !matches!(w, Want::Is(_))
    }
    r(&c.hop.want)
        || r(&c.lifetime.want)
        || r(&c.reachable.want)
        || r(&c.retrans.want)
        || r(&c.mtu.want)
        || c.prefixes.iter().any(|i| r(&prefix_alphabet()[*i].want))
        || opt_lifetime_choices()[c.rdnss_lifetime].1.as_ref().map(r).unwrap_or(false)
        || opt_lifetime_choices()[c.dnssl_lifetime].1.as_ref().map(r).unwrap_or(false)
        || r(&pref64_choices()[c.pref64].1)
        || (pref64_choices()[c.pref64].0.is_some() && pref64_lifetime_choices()[c.pref64_lifetime].2)
}

fn must_reject(c: &Cfg) -> Option<String> {
    if matches!(c.hop.want, Want::Reject) {
        return Some("hop-limit".into());
    }
    for i in &c.prefixes {
        if matches!(prefix_alphabet()[*i].want, Want::Reject) {
            return Some(format!("prefix {}", prefix_alphabet()[*i].yaml));
        }
    }
    if matches!(pref64_choices()[c.pref64].1, Want::Reject) {
        return Some(format!("pref64 {:?}", pref64_choices()[c.pref64].0));
    }
    None
}

fn val<T: Clone>(w: &Want<T>) -> Option<T> {
    match w {
        Want::Is(v) | Want::Unrep(v) => Some(v.clone()),
        Want::Reject => None,
    }
}

/// Compare the decoded RA with what the configuration means.  Returns (oracle, text) per mismatch.
pub fn compare(c: &Cfg, ra: &Ra) -> Vec<(&'static str, String)> {
    let mut out = vec![];
    macro_rules! field {
        ($name:expr, $oracle:expr, $got:expr, $want:expr) => {
            if let Some(w) = val(&$want) {
                if $got != w {
                    out.push(($oracle, format!("{} is {:?}, configuration means {:?}", $name, $got, w)));
                }
            }
        };
    }
    field!("hop limit", "hop-limit", ra.hop, c.hop.want);
    field!("managed flag", "flags", ra.m, c.managed.want);
    field!("other flag", "flags", ra.o, c.other.want);
    field!("router lifetime", "router-lifetime", ra.lifetime, c.lifetime.want);
    field!("reachable time (ms)", "reachable", ra.reachable, c.reachable.want);
    field!("retrans timer (ms)", "retransmit", ra.retrans, c.retrans.want);
    // SLLA
    let want_slla: Vec<Vec<u8>> = if c.ll { vec![vec![2, 0, 0, 0, 0, 1]] } else { vec![] };
    if ra.slla != want_slla {
        out.push(("slla", format!("source link-layer options {:?}, expected {:?}", ra.slla, want_slla)));
    }
    // MTU
    let want_mtu: Option<Option<u32>> = if c.mtu_from_interface { Some(c.if_mtu) } else { val(&c.mtu.want) };
    if let Some(w) = want_mtu {
        let got = match ra.mtu.as_slice() {
            [] => Some(None),
            [m] => Some(Some(*m)),
            _ => None,
        };
        if got != Some(w) {
            out.push(("mtu", format!("MTU options {:?}, configuration means {:?}", ra.mtu, w)));
        }
    }
    // prefixes, in order
    let pa = prefix_alphabet();
    let want_p: Vec<Pio> = c.prefixes.iter().filter_map(|i| val(&pa[*i].want)).collect();
    if ra.pios != want_p {
        let first = ra.pios.iter().zip(want_p.iter()).position(|(a, b)| a != b);
        out.push(("prefix-info", format!("prefix options differ (count {} vs {}, first difference at {:?}): got {:?} want {:?}", ra.pios.len(), want_p.len(), first, first.map(|i| &ra.pios[i]), first.map(|i| &want_p[i]))));
    }
    // RDNSS
    let top_rdnss: Vec<Addr> = if c.top { vec![a6(SELF6), a6("2001:db8::1")] } else { vec![a6(SELF6)] }; // loader default dns-servers = [$self4, $self6]
    let want_r: Option<Vec<Addr>> = match &rdnss_choices()[c.rdnss].1 {
        None => Some(top_rdnss),
        Some(None) => None,
        Some(Some(v)) => Some(v.clone()),
    };
    match (&want_r, ra.rdnss.as_slice()) {
        (None, []) => {}
        (None, got) => out.push(("rdnss", format!("dns-servers is null but {} RDNSS option(s) were sent", got.len()))),
        (Some(w), []) => {
            if !w.is_empty() {
                out.push(("rdnss", format!("RDNSS option missing, expected {:?}", w.iter().map(|a| Ipv6Addr::from(*a)).collect::<Vec<_>>())));
            }
        }
        (Some(w), [(lt, got)]) => {
            if got != w {
                out.push((
                    "rdnss",
                    format!("RDNSS addresses {:?}, configuration means {:?}", got.iter().map(|a| Ipv6Addr::from(*a)).collect::<Vec<_>>(), w.iter().map(|a| Ipv6Addr::from(*a)).collect::<Vec<_>>()),
                ));
            }
            if let Some(wl) = opt_lifetime_choices()[c.rdnss_lifetime].1.as_ref().and_then(val) {
                if rdnss_choices()[c.rdnss].0.is_some() || opt_lifetime_choices()[c.rdnss_lifetime].0.is_some() {
                    if *lt != wl {
                        out.push(("rdnss-lifetime", format!("RDNSS lifetime {lt}, configured {wl}")));
                    }
                }
            }
        }
        (_, got) => out.push(("rdnss", format!("{} RDNSS options", got.len()))),
    }
    // DNSSL
    let top_dnssl: Vec<Vec<Vec<u8>>> = if c.top { vec![dn("top.example"), dn("second.example")] } else { vec![] };
    let want_d: Option<Vec<Vec<Vec<u8>>>> = match &dnssl_choices()[c.dnssl].1 {
        None => Some(top_dnssl),
        Some(None) => None,
        Some(Some(v)) => Some(v.clone()),
    };
    match (&want_d, ra.dnssl.as_slice()) {
        (None, []) => {}
        (None, got) => out.push(("dnssl", format!("dns-search is null but {} DNSSL option(s) were sent", got.len()))),
        (Some(w), []) => {
            if !w.is_empty() {
                out.push(("dnssl", "DNSSL option missing".to_string()));
            }
        }
        (Some(w), [(lt, got)]) => {
            if got != w {
                out.push(("dnssl", format!("DNSSL names {:?}, configuration means {:?}", got.iter().map(crate::refdns::name_str).collect::<Vec<_>>(), w.iter().map(crate::refdns::name_str).collect::<Vec<_>>())));
            }
            if let Some(wl) = opt_lifetime_choices()[c.dnssl_lifetime].1.as_ref().and_then(val) {
                if *lt != wl {
                    out.push(("dnssl-lifetime", format!("DNSSL lifetime {lt}, configured {wl}")));
                }
            }
        }
        (_, got) => out.push(("dnssl", format!("{} DNSSL options", got.len()))),
    }
    // PREF64
    if let Some(w) = val(&pref64_choices()[c.pref64].1) {
        match (w, ra.pref64.as_slice()) {
            (None, []) => {}
            (None, got) => out.push(("pref64", format!("no pref64 configured but {:?} sent", got))),
            (Some((plen, bits)), [(lt, gl, gb)]) => {
                if *gl != plen || *gb != bits {
                    out.push(("pref64-prefix", format!("PREF64 decodes to /{gl} {:02x?}, configured /{plen} {:02x?}", gb, bits)));
                }
                let ok = &pref64_lifetime_choices()[c.pref64_lifetime].1;
                if !ok.contains(lt) {
                    out.push(("pref64-lifetime", format!("PREF64 lifetime decodes to {lt}s, configured {:?} (acceptable {:?})", pref64_lifetime_choices()[c.pref64_lifetime].0, ok)));
                }
            }
            (Some(_), got) => out.push(("pref64", format!("{} PREF64 options, expected 1", got.len()))),
        }
    }
    // captive portal
    let want_cp: Option<Vec<u8>> = match &portal_choices()[c.portal].1 {
        None => {
            if c.top {
                Some(b"https://top.example/".to_vec())
            } else {
                None
            }
        }
        Some(x) => x.clone(),
    };
    match (&want_cp, ra.portal.as_slice()) {
        (None, []) => {}
        (Some(w), [g]) if g == w => {}
        (w, g) => out.push(("captive-portal", format!("captive portal options {:?}, configuration means {:?}", g.iter().map(|x| String::from_utf8_lossy(x).to_string()).collect::<Vec<_>>(), w.as_ref().map(|x| String::from_utf8_lossy(x).to_string())))),
    }
    out
}

pub fn judge(group: &str, c: &Cfg) -> (String, Vec<Violation>) {
    let yaml = yaml_of(c);
    let case = json!({"engine":"c17","group":group,"yaml":yaml,"ll":c.ll,"if_mtu":c.if_mtu});
    let mk = |oracle: &str, what: String| Violation::new(oracle, what, case.clone()).sig("oracle", oracle);
    let loaded = panics::catch(|| erbium::config::verif_load_config_from_string(&yaml));
    let conf = match loaded {
        Err(p) => return ("load-panic".into(), vec![mk("load-panic", format!("loader panicked: {} at {}", p.msg, panics::short_loc(&p.loc))).sig("loc", panics::short_loc(&p.loc))]),
        Ok(Err(e)) => {
            if may_reject(c) {
                return ("rejected-unrepresentable".into(), vec![]);
            }
            return ("rejected".into(), vec![mk("valid-config-rejected", format!("loader rejected a representable configuration: {e}"))]);
        }
        Ok(Ok(conf)) => conf,
    };
    if let Some(why) = must_reject(c) {
        // the value has no clamp: an accepted configuration must at least not be emitted wrongly; judged below by the decoder
        let _ = why;
    }
    let built = panics::catch(|| {
        let g = conf.try_read().expect("conf lock");
        let ll = if c.ll { Some([2u8, 0, 0, 0, 0, 1]) } else { None };
        RaAdvService::verif_build(&g, "eth0", ll, c.if_mtu, SELF6.parse().unwrap(), std::time::Duration::from_secs(DEFAULT_LIFETIME)).map(|adv| icmppkt::serialise(&icmppkt::Icmp6::RtrAdvert(adv)))
    });
    let wire = match built {
        Err(p) => return ("build-panic".into(), vec![mk("build-panic", format!("building/serialising the advertisement panicked: {} at {}", p.msg, panics::short_loc(&p.loc))).sig("loc", panics::short_loc(&p.loc))]),
        Ok(None) => return ("no-interface".into(), vec![mk("no-interface", "the loader produced no configuration for eth0".into())]),
        Ok(Some(w)) => w,
    };
    let ra = match decode_ra(&wire) {
        Err(e) => {
            let oracle = if e.contains("beyond the prefix length") {
                "prefix-host-bits"
            } else if e.contains("PREF64 prefix length code") {
                "pref64-plc"
            } else if e.contains("PIO prefix length") {
                "prefix-length"
            } else {
                "rfc-format"
            };
            return (format!("undecodable:{oracle}"), vec![mk(oracle, format!("RFC decoder rejects the advertisement: {e}"))]);
        }
        Ok(ra) => ra,
    };
    let mism = compare(c, &ra);
    let mut vs = vec![];
    if let Some(why) = must_reject(c) {
        if mism.is_empty() {
            vs.push(mk("accepted-invalid", format!("configuration value with no wire representation ({why}) was accepted and something was emitted for it")));
        }
    }
    for (oracle, what) in mism {
        vs.push(mk(oracle, what));
    }
    (format!("built:{}opts", (ra.slla.len() + ra.mtu.len() + ra.pios.len() + ra.rdnss.len() + ra.dnssl.len() + ra.pref64.len() + ra.portal.len()).min(9)), vs)
}

// ---------------------------------------------------------------------------
// On the wire: the real RaAdvService on a veth pair, solicited with a real RS frame
// ---------------------------------------------------------------------------

fn wire_cfgs(thorough: bool) -> Vec<(String, Cfg)> {
    // the single-group products on the three base contexts (what the quick function part was
    // before the pairwise products), with the interface facts of the veth rig
    let gs = groups(thorough);
    let mut out = vec![];
    for ctx in 0..3 {
        for top in [false, true] {
            let b = base_cfg(ctx, top);
            out.push((format!("base{ctx}"), b.clone()));
            if ctx == 0 && !top {
                for (sp, secs) in duration_spellings().into_iter().step_by(if thorough { 1 } else { 4 }) {
                    let mut c = b.clone();
                    c.reachable = ch(Some(&format!("'{sp}'")), Want::Is((secs * 1000) as u32));
                    out.push(("durations".into(), c));
                }
            }
            for (name, g) in &gs {
                if *name == "mtu" {
                    continue; // interface mtu / link-layer variations are facts of the rig here
                }
                let cap = if thorough { g.len() } else { g.len().min(60) };
                for set in g.iter().take(cap) {
                    let mut c = b.clone();
                    set(&mut c);
                    out.push(((*name).into(), c));
                }
            }
        }
    }
    for (_, c) in out.iter_mut() {
        c.ll = true;
        c.if_mtu = Some(1500);
    }
    out
}

pub fn wire_cases(tier: &str) -> Vec<Value> {
    let n = wire_cfgs(tier == "thorough").len();
    let mut out = vec![];
    let chunk = 150;
    for route in ["none", "peer", "elsewhere"] {
        let mut i = 0;
        while i < n {
            out.push(json!({"engine":"ewire","check":"c17","route":route,"from":i,"to":(i + chunk).min(n),"thorough":tier == "thorough"}));
            i += chunk;
        }
    }
    out.extend(wire_hist_cases(tier));
    out
}

// Address histories: addresses are added to and removed from the advertising interface WHILE the
// service runs; after every change a solicitation is answered.  What `$self6` stands for, and which
// prefixes the top-level `addresses` imply, must follow the interface as it is NOW.
const HIST_ADDRS: [(&str, &str, u8); 3] = [("G1", "2001:db8:0:1::1", 64), ("G2", "2001:db8:0:2::1", 64), ("U", "fd00:0:0:1::1", 64)];

/// every sequence of applicable add/remove events up to `depth` (G1 is present at the start)
fn addr_histories(depth: usize) -> Vec<Vec<String>> {
    fn rec(present: [bool; 3], left: usize, cur: &mut Vec<String>, out: &mut Vec<Vec<String>>) {
        if !cur.is_empty() {
            out.push(cur.clone());
        }
        if left == 0 {
            return;
        }
        for i in 0..3 {
            let mut p = present;
            p[i] = !p[i];
            cur.push(format!("{}{}", if present[i] { "del" } else { "add" }, HIST_ADDRS[i].0));
            rec(p, left - 1, cur, out);
            cur.pop();
        }
    }
    let mut out = vec![];
    rec([true, false, false], depth, &mut vec![], &mut out);
    // only maximal histories and those not a prefix of another are needed, but short ones are cheap
    // and give the shortest counterexample: keep all
    out
}

fn wire_hist_cases(tier: &str) -> Vec<Value> {
    let mut out = vec![];
    for mode in ["explicit", "default", "implied"] {
        for h in addr_histories(if tier == "thorough" { 4 } else { 2 }) {
            // a history is run whole; its prefixes are judged on the way, so keep only those that
            // are not a proper prefix of another one of the list
            out.push(json!({"engine":"ewire","check":"c17","kind":"addr-history","mode":mode,"events":h}));
        }
    }
    let all: Vec<Vec<String>> = out.iter().map(|c| c["events"].as_array().unwrap().iter().map(|e| e.as_str().unwrap().to_string()).collect()).collect();
    out.into_iter().filter(|c| {
        let e: Vec<String> = c["events"].as_array().unwrap().iter().map(|e| e.as_str().unwrap().to_string()).collect();
        !all.iter().any(|o| o.len() > e.len() && o[..e.len()] == e[..])
    }).collect()
}

fn wire_run_addr_history(case: &Value) -> crate::netrun::CaseResult {
    use crate::ewire::*;
    use crate::netrun::CaseResult;
    if !crate::enet::ISOLATED.load(std::sync::atomic::Ordering::SeqCst) {
        return CaseResult::machinery("the wire part needs a private network namespace (unshare failed)");
    }
    teardown_veth();
    if let Err(e) = setup_veth(Route6::None) {
        return CaseResult::machinery(format!("veth set-up: {e}"));
    }
    let mode = case["mode"].as_str().unwrap_or("explicit");
    let yaml = match mode {
        "explicit" => "---\nrouter-advertisements:\n  eth0:\n    dns-servers:\n      addresses: ['$self6']\n",
        "default" => "---\nrouter-advertisements:\n  eth0:\n    lifetime: 600s\n",
        _ => "---\naddresses: ['2001:db8:0:1::/64', '2001:db8:0:2::/64', 'fd00:0:0:1::/64', 192.0.2.0/24]\n",
    };
    let mut res = CaseResult::ok(format!("wire:addr-history:{mode}"));
    let conf = match erbium::config::verif_load_config_from_string(yaml) {
        Ok(c) => c,
        Err(e) => return CaseResult::machinery(format!("address-history configuration rejected: {e}")),
    };
    let mut w = match WireRt::new() {
        Ok(w) => w,
        Err(e) => return CaseResult::machinery(e),
    };
    crate::common::clock::set_secs(1_700_000_000);
    let netinfo = w.rt.block_on(erbium_net::netinfo::SharedNetInfo::new());
    w.pump(4);
    let mut wire = match Wire::open() {
        Ok(x) => x,
        Err(e) => return CaseResult::machinery(e),
    };
    let svc = {
        let _g = w.rt.enter();
        match RaAdvService::new(netinfo.clone(), conf) {
            Ok(s) => std::sync::Arc::new(s),
            Err(e) => return CaseResult::machinery(format!("RaAdvService::new: {}", e)),
        }
    };
    let h = w.rt.spawn(svc.clone().run());
    w.pump(6);
    let events: Vec<String> = case["events"].as_array().cloned().unwrap_or_default().iter().filter_map(|e| e.as_str().map(|s| s.to_string())).collect();
    let mut mon = match NlMonitor::open() {
        Ok(m) => m,
        Err(e) => return CaseResult::machinery(e),
    };
    let mut present = [true, false, false];
    let mut judged = 0u64;
    // step 0 = before any change, then after every event
    for step in 0..=events.len() {
        if step > 0 {
            let ev = &events[step - 1];
            let (add, tag) = if let Some(t) = ev.strip_prefix("add") { (true, t) } else { (false, ev.strip_prefix("del").unwrap_or("")) };
            let Some(i) = HIST_ADDRS.iter().position(|a| a.0 == tag) else { return CaseResult::machinery(format!("unknown event {ev}")) };
            let r = if add { addr6_add(&mut mon, HIST_ADDRS[i].1, HIST_ADDRS[i].2) } else { addr6_del(&mut mon, HIST_ADDRS[i].1, HIST_ADDRS[i].2) };
            if let Err(e) = r {
                return CaseResult::machinery(format!("event {ev}: {e}"));
            }
            present[i] = add;
            // let the service's netlink listener see the notification
            w.pump(12);
        }
        let sub = json!({"engine":"ewire","check":"c17","kind":"addr-history","mode":mode,"events":events[..step].to_vec()});
        let mk = |oracle: &str, what: String| Violation::new(oracle, format!("after the interface's addresses changed at run time ({}): {what}", if step == 0 { "no change yet".to_string() } else { events[..step].join(", ") }), sub.clone()).sig("oracle", oracle).sig("part", "wire-history");
        wire.poll();
        let mark = wire.rx.len();
        if let Err(e) = wire.send(&rs_frame(&PEER_MAC, true)) {
            return CaseResult::machinery(e);
        }
        let mut got: Option<Vec<u8>> = None;
        for _ in 0..200 {
            w.pump(3);
            wire.poll();
            for f in &wire.rx[mark..] {
                if let Some((smac, _src, _dst, _hop, icmp, _ok)) = as_ra(f) {
                    if smac == SRV_MAC {
                        got = Some(icmp);
                        break;
                    }
                }
            }
            if got.is_some() {
                break;
            }
        }
        wire.rx.clear();
        let ps = panics::take_all();
        if let Some(p) = ps.first() {
            res.violations.push(mk("service-panic", format!("the service task panicked: {} at {}", p.msg, panics::short_loc(&p.loc))));
            break;
        }
        // the interface's addresses: the kernel's own list (ground truth, independent of the service's
        // view and of the harness's book-keeping of its events)
        let kernel = match kernel_ipv6_addrs() {
            Ok(v) => v,
            Err(e) => return CaseResult::machinery(e),
        };
        let current: Vec<[u8; 16]> = kernel.iter().map(|(a, _)| a.octets()).collect();
        let mut want_pios: Vec<(u8, [u8; 16])> = vec![];
        for (ip, l) in &kernel {
            // the prefixes listed under the top-level addresses of the implied-mode configuration
            if !HIST_ADDRS.iter().any(|(_, a, _)| a.parse::<std::net::Ipv6Addr>().map(|x| x == *ip).unwrap_or(false)) {
                continue;
            }
            let mut net = ip.octets();
            for b in net.iter_mut().skip(*l as usize / 8) {
                *b = 0;
            }
            want_pios.push((*l, net));
        }
        want_pios.sort();
        let Some(icmp) = got else {
            // implied mode with no address inside the listed prefixes: nothing to advertise
            if !(mode == "implied" && want_pios.is_empty()) {
                res.violations.push(mk("no-advertisement", "a router solicitation got no router advertisement".into()));
            }
            continue;
        };
        judged += 1;
        match decode_ra(&icmp) {
            Err(e) => res.violations.push(mk("rfc-format", format!("RFC decoder rejects the advertisement: {e}"))),
            Ok(ra) => {
                let show = |a: &[u8; 16]| std::net::Ipv6Addr::from(*a).to_string();
                let servers: Vec<[u8; 16]> = ra.rdnss.iter().flat_map(|(_, v)| v.iter().copied()).collect();
                if servers.len() != 1 {
                    res.violations.push(mk("self6", format!("the advertisement names {} recursive DNS servers ({:?}), the configuration names exactly one ($self6)", servers.len(), servers.iter().map(show).collect::<Vec<_>>())));
                } else if !current.contains(&servers[0]) {
                    res.violations.push(mk("self6", format!("$self6 was advertised as {}, which is not an address of the interface (it has {:?})", show(&servers[0]), current.iter().map(show).collect::<Vec<_>>())));
                }
                if mode == "implied" {
                    let mut got_pios: Vec<(u8, [u8; 16])> = ra.pios.iter().map(|p| (p.len, p.prefix)).collect();
                    got_pios.sort();
                    if got_pios != want_pios {
                        res.violations.push(mk("implied-prefixes", format!("prefixes advertised: {:?}; the listed prefixes the interface has an address in: {:?}", got_pios.iter().map(|(l, p)| format!("{}/{l}", show(p))).collect::<Vec<_>>(), want_pios.iter().map(|(l, p)| format!("{}/{l}", show(p))).collect::<Vec<_>>())));
                    }
                }
            }
        }
    }
    h.abort();
    drop(svc);
    w.pump(3);
    drop(wire);
    drop(w);
    teardown_veth();
    crate::common::clock::unset();
    res.stats = json!({"wire_history_advertisements": judged, "wire_histories": 1});
    res
}

pub fn wire_run_case(case: &Value) -> crate::netrun::CaseResult {
    use crate::ewire::*;
    use crate::netrun::CaseResult;
    if case["kind"].as_str() == Some("addr-history") {
        return wire_run_addr_history(case);
    }
    if !crate::enet::ISOLATED.load(std::sync::atomic::Ordering::SeqCst) {
        return CaseResult::machinery("the wire part needs a private network namespace (unshare failed)");
    }
    let route = match case["route"].as_str() {
        Some("peer") => Route6::ViaPeerSide,
        Some("elsewhere") => Route6::ViaElsewhere,
        _ => Route6::None,
    };
    teardown_veth();
    if let Err(e) = setup_veth(route) {
        return CaseResult::machinery(format!("veth set-up: {e}"));
    }
    let mut res = CaseResult::ok(format!("wire:{}", case["route"].as_str().unwrap_or("")));
    let cfgs = wire_cfgs(case["thorough"].as_bool().unwrap_or(false));
    let (from, to) = (case["from"].as_u64().unwrap_or(0) as usize, case["to"].as_u64().unwrap_or(0) as usize);
    crate::common::clock::set_secs(1_700_000_000);
    let mut wire = match Wire::open() {
        Ok(x) => x,
        Err(e) => return CaseResult::machinery(e),
    };
    let mut n = 0u64;
    let mut answered = 0u64;
    let mut n_unsol = 0u64;
    for (ci, (group, c)) in cfgs.iter().enumerate().take(to).skip(from) {
        // a runtime (and a netlink-fed NetInfo) of its own for every configuration: `run()` spawns
        // its two loops as detached tasks, which outlive an abort of `run()` itself -- only dropping
        // the runtime ends them, closes their sockets and keeps one configuration's service from
        // answering for the next
        let mut w = match WireRt::new() {
            Ok(w) => w,
            Err(e) => return CaseResult::machinery(e),
        };
        let netinfo = w.rt.block_on(erbium_net::netinfo::SharedNetInfo::new());
        w.pump(4);
        // every third configuration also lists, at the top level, the prefix the interface's global
        // address lies in ("simple mode" addresses): the interface's own router-advertisements
        // section must still be what is advertised
        let mut yaml = yaml_of(c);
        if ci % 3 == 1 {
            yaml = yaml.replacen("---\n", "---\naddresses: ['2001:db8:0:1::/64', 192.0.2.0/24]\n", 1);
        }
        let Ok(Ok(conf)) = panics::catch(|| erbium::config::verif_load_config_from_string(&yaml)) else {
            continue; // rejections and loader panics are judged by the function part
        };
        n += 1;
        let sub = json!({"engine":"ewire","check":"c17","route":case["route"],"group":group,"yaml":yaml,"index":ci,"thorough":case["thorough"]});
        let mk = |oracle: &str, what: String| Violation::new(oracle, format!("on the wire (default route: {}): {what}", case["route"].as_str().unwrap_or("")), sub.clone()).sig("oracle", oracle).sig("part", "wire");
        let svc = {
            let _g = w.rt.enter();
            match RaAdvService::new(netinfo.clone(), conf) {
                Ok(s) => std::sync::Arc::new(s),
                Err(e) => return CaseResult::machinery(format!("RaAdvService::new: {}", e)),
            }
        };
        let h = w.rt.spawn(svc.clone().run());
        w.pump(6);
        wire.poll();
        let mark = wire.rx.len();
        if let Err(e) = wire.send(&rs_frame(&PEER_MAC, true)) {
            return CaseResult::machinery(e);
        }
        let mut got: Option<(std::net::Ipv6Addr, std::net::Ipv6Addr, u8, Vec<u8>, bool)> = None;
        for _ in 0..200 {
            w.pump(3);
            wire.poll();
            for f in &wire.rx[mark..] {
                if let Some((smac, src, dst, hop, icmp, ok)) = as_ra(f) {
                    if smac == SRV_MAC {
                        got = Some((src, dst, hop, icmp, ok));
                        break;
                    }
                }
            }
            if got.is_some() {
                break;
            }
        }
        // the periodic (unsolicited) advertisement: the service sleeps a random 200..600 s between
        // them; after 600 virtual seconds at least one has gone out, to all nodes
        let mut unsolicited: Vec<(std::net::Ipv6Addr, std::net::Ipv6Addr, u8, Vec<u8>, bool)> = vec![];
        if got.is_some() && ci % 2 == 0 {
            wire.poll();
            let mark2 = wire.rx.len();
            w.advance(std::time::Duration::from_secs(600));
            for _ in 0..30 {
                w.pump(3);
                wire.poll();
            }
            for f in &wire.rx[mark2..] {
                if let Some((smac, src, dst, hop, icmp, ok)) = as_ra(f) {
                    if smac == SRV_MAC {
                        unsolicited.push((src, dst, hop, icmp, ok));
                    }
                }
            }
            if unsolicited.is_empty() {
                res.violations.push(mk("no-unsolicited-advertisement", "600 s went by without a periodic router advertisement on an interface that answers solicitations".into()));
            }
        }
        h.abort();
        drop(svc);
        w.pump(3);
        drop(netinfo);
        drop(w);
        wire.poll();
        wire.rx.clear();
        let ps = panics::take_all();
        let Some((src, dst, hop, icmp, ck_ok)) = got else {
            res.violations.push(mk("no-advertisement", format!("a router solicitation got no router advertisement{}", ps.first().map(|p| format!(" (service task panicked: {} at {})", p.msg, panics::short_loc(&p.loc))).unwrap_or_default())));
            continue;
        };
        answered += 1;
        if !ck_ok {
            res.violations.push(mk("icmp-checksum", "the ICMPv6 checksum of the advertisement does not verify".into()));
        }
        if hop != 255 {
            res.violations.push(mk("ip-hop-limit", format!("the advertisement was sent with IPv6 hop limit {hop}, RFC 4861 requires 255")));
        }
        if src != ll_of(&SRV_MAC) {
            res.violations.push(mk("ra-source", format!("the advertisement's source {src} is not the interface's link-local address {}", ll_of(&SRV_MAC))));
        }
        let all_nodes: std::net::Ipv6Addr = "ff02::1".parse().unwrap();
        if dst != all_nodes && dst != ll_of(&PEER_MAC) {
            res.violations.push(mk("ra-destination", format!("the advertisement went to {dst}, neither all-nodes nor the solicitor")));
        }
        match decode_ra(&icmp) {
            Err(e) => res.violations.push(mk("rfc-format", format!("RFC decoder rejects the advertisement: {e}"))),
            Ok(ra) => {
                // what the configuration means in THIS environment: an interface without a
                // configured lifetime is a default router only if the default route leaves elsewhere
                let mut c2 = c.clone();
                if c2.lifetime_unspecified {
                    c2.lifetime.want = Want::Is(if route == Route6::ViaElsewhere { DEFAULT_LIFETIME as u16 } else { 0 });
                }
                for (oracle, what) in compare(&c2, &ra) {
                    res.violations.push(mk(oracle, what));
                }
                // every periodic advertisement says the same, to all nodes, as correctly
                for (usrc, udst, uhop, uicmp, uok) in &unsolicited {
                    n_unsol += 1;
                    let all_nodes: std::net::Ipv6Addr = "ff02::1".parse().unwrap();
                    if !*uok || *uhop != 255 || *usrc != ll_of(&SRV_MAC) || *udst != all_nodes {
                        res.violations.push(mk("unsolicited-envelope", format!("periodic advertisement: checksum ok {uok}, hop limit {uhop}, source {usrc}, destination {udst} (must verify, 255, the link-local address, ff02::1)")));
                    }
                    match decode_ra(uicmp) {
                        Err(e) => res.violations.push(mk("rfc-format", format!("RFC decoder rejects the periodic advertisement: {e}"))),
                        Ok(ura) => {
                            for (oracle, what) in compare(&c2, &ura) {
                                res.violations.push(mk(oracle, format!("periodic advertisement: {what}")));
                            }
                        }
                    }
                }
            }
        }
    }
    drop(wire);
    teardown_veth();
    crate::common::clock::unset();
    res.stats = json!({"wire_configs": n, "wire_advertisements": answered, "wire_unsolicited_advertisements": n_unsol});
    res
}

pub fn run(tier: &str, replay: Option<Value>) -> ! {
    let mut rep = Report::new("C17", if replay.is_some() { "quick" } else { tier }, "exploration");
    let thorough = tier == "thorough";
    let cfgs = all_cfgs(thorough || replay.is_some());
    if let Some(case) = replay {
        rep.replay_mode = true;
        let case = if case.get("case").is_some() { case["case"].clone() } else { case };
        if case["engine"].as_str() == Some("ewire") && case["kind"].as_str() == Some("addr-history") {
            crate::enet::isolate_network();
            crate::netrun::replay_one(&mut rep, &case, wire_run_case);
            rep.finish();
        }
        if case["engine"].as_str() == Some("ewire") {
            // one configuration on the wire: the case names its index in the wire list of its tier
            crate::enet::isolate_network();
            match (case["index"].as_u64(), case["thorough"].as_bool()) {
                (Some(i), Some(th)) if (i as usize) < wire_cfgs(th).len() => {
                    let one = json!({"engine":"ewire","check":"c17","route":case["route"],"from":i,"to":i + 1,"thorough":th});
                    crate::netrun::replay_one(&mut rep, &one, wire_run_case);
                }
                _ => rep.machinery_error("replay case does not name its index in the wire list"),
            }
            rep.finish();
        }
        let y = case["yaml"].as_str().unwrap_or("");
        let mut hit = false;
        for (g, c) in &cfgs {
            if yaml_of(c) == y && c.ll == case["ll"].as_bool().unwrap_or(true) && c.if_mtu.map(|x| x as u64) == case["if_mtu"].as_u64() {
                hit = true;
                for v in judge(g, c).1 {
                    rep.violation(v);
                }
                break;
            }
        }
        if !hit {
            rep.machinery_error("replay case not found in the grammar");
        }
        rep.finish();
    }
    let outs: Vec<(String, String, Vec<Violation>, String)> = cfgs
        .par_iter()
        .map(|(g, c)| {
            let (cls, vs) = judge(g, c);
            (g.clone(), cls, vs, yaml_of(c))
        })
        .collect();
    let mut classes = std::collections::BTreeSet::new();
    let mut distinct_yaml = std::collections::BTreeSet::new();
    let mut samples = vec![];
    for (g, cls, vs, y) in outs {
        classes.insert(format!("{g}:{cls}"));
        if distinct_yaml.insert(crate::common::util::fnv64(y.as_bytes())) && distinct_yaml.len() % 97 == 0 {
            samples.push(json!({"group": g, "outcome": cls, "yaml": y}));
        }
        for v in vs {
            rep.violation(v);
        }
    }
    // the same oracle on advertisements captured from the real service on a veth pair
    let agg = crate::netrun::run_sharded(&mut rep, "C17", tier, wire_cases, 16);
    let wire_n = agg.stats_sum.get("wire_advertisements").copied().unwrap_or(0.0) as u64;
    rep.cov("wire_configurations_loaded", agg.stats_sum.get("wire_configs").copied().unwrap_or(0.0) as u64);
    rep.cov("wire_advertisements_judged", wire_n);
    rep.cov("wire_unsolicited_advertisements_judged", agg.stats_sum.get("wire_unsolicited_advertisements").copied().unwrap_or(0.0) as u64);
    rep.cov("wire_address_histories", json!({"histories": agg.stats_sum.get("wire_histories").copied().unwrap_or(0.0) as u64, "advertisements_judged": agg.stats_sum.get("wire_history_advertisements").copied().unwrap_or(0.0) as u64, "rule": "while the real service runs, IPv6 addresses (a second global one, a unique-local one, the first global one) are added to and removed from the advertising interface with `ip addr add/del` -- every applicable sequence of such events up to the depth (quick 2, thorough 4) x 3 configurations ($self6 written in the interface's section; the default dns-servers; no interface section but top-level addresses); before the first and after every event a solicitation is answered: the recursive DNS server advertised for $self6 must be an address the interface has NOW, and the prefixes implied by the top-level addresses must be exactly those the interface has an address in NOW"}));
    rep.cov("wire_rule", "the real RaAdvService (real netlink-fed NetInfo, real raw ICMPv6 socket) on one end of a veth pair in a private network namespace, one instance per configuration; a router solicitation frame is sent from the other end and the advertisement captured there is decoded by the same RFC decoder and compared with expected(configuration, environment), for three environments: no IPv6 default route, default route out of the advertising interface, default route out of another interface; every third configuration additionally lists the interface's own prefix under the top-level addresses (the explicit section must still win). Also judged: ICMPv6 checksum, IPv6 hop limit 255, link-local source, destination. For every second configuration the paused clock is then advanced by 600 s and the periodic (unsolicited) advertisements that go out are captured and judged the same way (destination ff02::1)");
    rep.cov("evaluations", cfgs.len() as u64 + wire_n);
    rep.cov("distinct_nontrivial", distinct_yaml.len() as u64);
    rep.cov("rule", "interface configurations from the grammar (full product inside each group: header, timers, mtu x interface-mtu x lladdr, prefix lists of length <=2 (thorough <=3) over 7 prefixes, rdnss x lifetime, dnssl x lifetime, pref64 x lifetime, captive portal; every duration spelling of the manual -- each subset of the units d/h/m/s in both orders, with/without a trailing unit-less number, tight and spaced -- as reachable time and router lifetime) x top-level defaults {absent,present} x 3 base contexts {all absent, all present, all null}; the full product of every PAIR of groups (prefix lists cut to length <=1, timers sampled every 5th); thorough also every TRIPLE of the groups with <= 60 entries; distinct = distinct YAML documents that reached the loader");
    rep.cov("exhaustive", true);
    rep.cov("outcome_classes", json!(classes));
    rep.cov("samples", pick_samples(&samples, 6, rep.seed));
    rep.assume("function part: the hook verif_build repeats the two 4-line matches of build_announcement that map the mtu/lifetime ConfigValue onto the values netinfo would supply (the wire part executes the real build_announcement)");
    rep.assume("don't-care: default RDNSS/DNSSL lifetimes (manual and code disagree), empty RDNSS/DNSSL option present vs absent, option order across option types");
    rep.finish()
}
