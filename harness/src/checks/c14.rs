//! C14: DNS decode/encode round trip incl. name compression, against the real parser/serialiser
//! and an independent strict decoder.
use crate::common::panics;
use crate::common::report::{Report, Violation, pick_samples};
use crate::common::util::{hex, unhex};
use crate::refdns::{self as rd, Msg, Name, Rdata, Rr};
use erbium::dns::{dnspkt, verif};
use rayon::prelude::*;
use serde_json::{Value, json};

fn label63() -> Vec<u8> {
    vec![b'x'; 63]
}

pub fn names(depth: usize) -> Vec<Name> {
    let labels: Vec<Vec<u8>> = vec![b"a".to_vec(), b"b".to_vec(), label63()];
    let mut out: Vec<Name> = vec![vec![]];
    let mut level: Vec<Name> = vec![vec![]];
    for _ in 0..depth {
        let mut next = vec![];
        for n in &level {
            for l in &labels {
                let mut m = vec![l.clone()];
                m.extend(n.iter().cloned());
                next.push(m);
            }
        }
        out.extend(next.iter().cloned());
        level = next;
    }
    out
}

pub const TYPES: [u16; 12] = [rd::T_A, rd::T_TXT, rd::T_NS, rd::T_CNAME, rd::T_PTR, rd::T_MX, rd::T_RT, rd::T_AFSDB, rd::T_RP, rd::T_SOA, rd::T_NAPTR, 65280];

pub fn mk_rr(t: u16, owner: &Name, n1: &Name, n2: &Name, ttl: u32) -> Rr {
    let rdata = match t {
        rd::T_NS | rd::T_CNAME | rd::T_PTR => Rdata::Name(n1.clone()),
        rd::T_MX | rd::T_RT | rd::T_AFSDB => Rdata::PrefName(10, n1.clone()),
        rd::T_RP => Rdata::TwoNames(n1.clone(), n2.clone()),
        rd::T_SOA => Rdata::Soa(n1.clone(), n2.clone(), [1, 2, 3, 4, 0xffff_ffff]),
        rd::T_NAPTR => Rdata::Naptr(1, 2, b"U".to_vec(), vec![], b"!^.*$!x!".to_vec(), n1.clone()),
        rd::T_A => Rdata::Raw(vec![192, 0, 2, 1]),
        rd::T_TXT => Rdata::Raw(b"\x03abc".to_vec()),
        _ => Rdata::Raw(vec![]),
    };
    Rr { name: owner.clone(), rtype: t, class: 1, ttl, rdata }
}

fn two_names(t: u16) -> bool {
    t == rd::T_RP || t == rd::T_SOA
}

pub fn base_pkt(q: &Name) -> dnspkt::DNSPkt {
    dnspkt::DNSPkt {
        qid: 0x4242,
        rd: true,
        tc: false,
        aa: false,
        qr: true,
        opcode: dnspkt::OPCODE_QUERY,
        cd: false,
        ad: false,
        ra: true,
        rcode: dnspkt::NOERROR,
        bufsize: 512,
        edns_ver: None,
        edns_do: false,
        question: dnspkt::Question { qdomain: rd::to_domain(q), qclass: dnspkt::CLASS_IN, qtype: dnspkt::RR_A },
        answer: vec![],
        nameserver: vec![],
        additional: vec![],
        edns: None,
    }
}

pub struct Outcome {
    pub class: String,
    pub viol: Option<Violation>,
    pub bytes: Option<Vec<u8>>,
}

/// The structured-message oracle: encode with erbium, decode with erbium and with the strict decoder.
pub fn judge_structured(m: &dnspkt::DNSPkt, family: &str, case: Value) -> Outcome {
    let r = panics::catch(|| {
        let wire = m.serialise();
        let back = verif::parse(&wire);
        (wire, back)
    });
    let mk = |oracle: &str, what: String, extra: &[(&str, String)]| {
        let mut v = Violation::new(oracle, what, case.clone()).sig("family", family);
        for (k, val) in extra {
            v = v.sig(k, val);
        }
        Some(v)
    };
    match r {
        Err(p) => Outcome { class: format!("{family}:panic"), viol: mk("encode-panic", format!("serialise/parse panicked: {} at {}", p.msg, panics::short_loc(&p.loc)), &[("loc", panics::short_loc(&p.loc))]), bytes: None },
        Ok((wire, back)) => {
            let over16k = wire.len() > 0x4000;
            let sz = if over16k { "over16k" } else { "le16k" };
            let viol = match back {
                Err(e) => mk("reparse-failed", format!("erbium cannot decode its own encoding ({} octets): {e}", wire.len()), &[("size", sz.into())]),
                Ok(b) if &b != m => mk("roundtrip-differs", format!("decode(encode(m)) != m for a {} octet message; first difference: {}", wire.len(), first_diff(&b, m)), &[("size", sz.into())]),
                Ok(_) => match rd::decode(&wire) {
                    Err(e) => mk("strict-decode", format!("independent strict decoder rejects erbium's {} octet encoding: {e}", wire.len()), &[("size", sz.into())]),
                    Ok((sm, _st)) => {
                        let want = rd::msg_from_erbium(m);
                        if sm != want {
                            mk("strict-differs", format!("independent decoder reads a different message: {}", first_diff_msg(&sm, &want)), &[("size", sz.into())])
                        } else {
                            None
                        }
                    }
                },
            };
            let ptrs = rd::decode(&wire).map(|(_, s)| s.pointers).unwrap_or(0);
            Outcome { class: format!("{family}:{}:ptr{}", sz, ptrs.min(6)), viol, bytes: Some(wire) }
        }
    }
}

fn first_diff(a: &dnspkt::DNSPkt, b: &dnspkt::DNSPkt) -> String {
    first_diff_msg(&rd::msg_from_erbium(a), &rd::msg_from_erbium(b))
}

fn first_diff_msg(a: &Msg, b: &Msg) -> String {
    if a.id != b.id || a.flags != b.flags {
        return format!("header {:#06x}/{:#06x} vs {:#06x}/{:#06x}", a.id, a.flags, b.id, b.flags);
    }
    if a.question != b.question {
        return format!("question {:?} vs {:?}", a.question, b.question);
    }
    for (sn, x, y) in [("answer", &a.answer, &b.answer), ("authority", &a.authority, &b.authority), ("additional", &a.additional, &b.additional)] {
        if x.len() != y.len() {
            return format!("{sn} has {} vs {} records", x.len(), y.len());
        }
        for (i, (p, q)) in x.iter().zip(y.iter()).enumerate() {
            if p != q {
                return format!("{sn}[{i}]: {:?} vs {:?}", p, q);
            }
        }
    }
    "none".into()
}

fn put(p: &mut dnspkt::DNSPkt, section: usize, r: &Rr) {
    let e = rd::rr_to_erbium(r);
    match section {
        0 => p.answer.push(e),
        1 => p.nameserver.push(e),
        _ => p.additional.push(e),
    }
}

struct Gen {
    evals: u64,
    classes: std::collections::BTreeSet<String>,
    samples: Vec<Value>,
    bases: Vec<Vec<u8>>,
}

fn absorb(rep: &mut Report, g: &mut Gen, outs: Vec<Outcome>, keep_bases_every: usize) {
    for (i, o) in outs.into_iter().enumerate() {
        g.evals += 1;
        g.classes.insert(o.class);
        if let Some(v) = o.viol {
            if g.samples.len() < 40 {
                g.samples.push(v.case.clone());
            }
            rep.violation(v);
        }
        if let Some(b) = o.bytes {
            if keep_bases_every > 0 && i % keep_bases_every == 0 && b.len() < 400 {
                g.bases.push(b);
            }
        }
    }
}

fn family_single(rep: &mut Report, g: &mut Gen, depth: usize) {
    let ns = names(depth);
    let qs: Vec<Name> = vec![vec![], rd::name("a"), rd::name("a.b"), rd::name("b.a"), vec![label63(), b"a".to_vec()]];
    let n2s: Vec<Name> = vec![vec![], rd::name("a"), rd::name("b.a")];
    let mut cases = vec![];
    for (qi, q) in qs.iter().enumerate() {
        for section in 0..3usize {
            for t in TYPES {
                for (oi, o) in ns.iter().enumerate() {
                    let n1s: Vec<usize> = if matches!(t, rd::T_A | rd::T_TXT | 65280) { vec![0] } else { (0..ns.len()).collect() };
                    for n1 in n1s {
                        let n2r: Vec<usize> = if two_names(t) { (0..n2s.len()).collect() } else { vec![0] };
                        for n2 in n2r {
                            cases.push((qi, section, t, oi, n1, n2));
                        }
                    }
                }
            }
        }
    }
    let outs: Vec<Outcome> = cases
        .par_iter()
        .map(|(qi, section, t, oi, n1, n2)| {
            let mut p = base_pkt(&qs[*qi]);
            put(&mut p, *section, &mk_rr(*t, &ns[*oi], &ns[*n1], &n2s[*n2], 300));
            let case = json!({"engine":"c14","family":"single","q":rd::name_str(&qs[*qi]),"section":section,"type":t,"owner":rd::name_str(&ns[*oi]),"n1":rd::name_str(&ns[*n1]),"n2":rd::name_str(&n2s[*n2])});
            judge_structured(&p, "single", case)
        })
        .collect();
    absorb(rep, g, outs, 997);
}

fn family_multi(rep: &mut Report, g: &mut Gen, seqlen: usize) {
    let alphabet: Vec<Rr> = vec![
        mk_rr(rd::T_A, &rd::name("a.b"), &vec![], &vec![], 1),
        mk_rr(rd::T_CNAME, &rd::name("a.b"), &rd::name("b.a.b"), &vec![], 2),
        mk_rr(rd::T_MX, &rd::name("b.a.b"), &rd::name("a.b.a.b"), &vec![], 3),
        mk_rr(rd::T_SOA, &rd::name("b"), &rd::name("a.b"), &rd::name("x.a.b"), 4),
        mk_rr(rd::T_NAPTR, &rd::name("x.a.b"), &rd::name("b"), &vec![], 5),
        mk_rr(rd::T_RP, &vec![], &rd::name("a.b"), &rd::name("a.b"), 6),
        mk_rr(rd::T_TXT, &vec![label63(), b"b".to_vec()], &vec![], &vec![], 7),
        mk_rr(rd::T_PTR, &rd::name("A.b"), &vec![label63(), b"b".to_vec()], &vec![], 8),
    ];
    let qs: Vec<Name> = vec![vec![], rd::name("a.b"), rd::name("q")];
    // section splits: non-decreasing assignment of positions to sections
    let mut seqs: Vec<Vec<usize>> = vec![vec![]];
    for _ in 0..seqlen {
        let mut n = vec![];
        for s in &seqs {
            for a in 0..alphabet.len() {
                let mut t = s.clone();
                t.push(a);
                n.push(t);
            }
        }
        seqs = n;
    }
    let mut splits: Vec<Vec<usize>> = vec![vec![]];
    for _ in 0..seqlen {
        let mut n = vec![];
        for s in &splits {
            let lo = *s.last().unwrap_or(&0);
            for sec in lo..3 {
                let mut t = s.clone();
                t.push(sec);
                n.push(t);
            }
        }
        splits = n;
    }
    let mut cases = vec![];
    for (qi, _) in qs.iter().enumerate() {
        for (si, _) in seqs.iter().enumerate() {
            for (pi, _) in splits.iter().enumerate() {
                cases.push((qi, si, pi));
            }
        }
    }
    let outs: Vec<Outcome> = cases
        .par_iter()
        .map(|(qi, si, pi)| {
            let mut p = base_pkt(&qs[*qi]);
            for (k, a) in seqs[*si].iter().enumerate() {
                put(&mut p, splits[*pi][k], &alphabet[*a]);
            }
            let case = json!({"engine":"c14","family":"multi","q":rd::name_str(&qs[*qi]),"records":seqs[*si],"sections":splits[*pi]});
            judge_structured(&p, "multi", case)
        })
        .collect();
    absorb(rep, g, outs, 499);
}

/// Names first written inside record data, referred to later: for every record type that carries
/// names, every name slot, the name "n.e.w" (labels seen nowhere before) is written in that slot of
/// the first record; a second record then uses one of its suffixes as owner or inside its own
/// record data.  A wrong offset remembered for a label written in rdata shows up as a pointer into
/// the wrong place.
fn family_rdata_ref(rep: &mut Report, g: &mut Gen) {
    let newn = rd::name("n.e.w");
    let other = rd::name("o.t.h");
    let suffixes: Vec<Name> = vec![rd::name("n.e.w"), rd::name("e.w"), rd::name("w"), rd::name("x.n.e.w"), rd::name("x.e.w")];
    let qs: Vec<Name> = vec![rd::name("q"), vec![], rd::name("q.w")];
    let owners1: Vec<Name> = vec![rd::name("q"), rd::name("r.q"), vec![]];
    // (type, slot): slot 0 = first name of the rdata, 1 = second
    let mut firsts: Vec<(u16, usize)> = vec![];
    for t in [rd::T_NS, rd::T_CNAME, rd::T_PTR, rd::T_MX, rd::T_RT, rd::T_AFSDB, rd::T_NAPTR] {
        firsts.push((t, 0));
    }
    for t in [rd::T_RP, rd::T_SOA] {
        firsts.push((t, 0));
        firsts.push((t, 1));
    }
    let seconds: Vec<u16> = vec![rd::T_A, rd::T_NS, rd::T_MX, rd::T_AFSDB, rd::T_SOA, rd::T_RP, rd::T_NAPTR];
    let mut cases = vec![];
    for qi in 0..qs.len() {
        for oi in 0..owners1.len() {
            for (fi, _) in firsts.iter().enumerate() {
                for other_slot in 0..3usize {
                    for (si, _) in suffixes.iter().enumerate() {
                        for t2 in &seconds {
                            // where the suffix goes in the second record: 0 = owner, 1 = rdata name 1, 2 = rdata name 2
                            for place in 0..3usize {
                                if place >= 1 && *t2 == rd::T_A {
                                    continue;
                                }
                                if place == 2 && !two_names(*t2) {
                                    continue;
                                }
                                for sec in [(0usize, 0usize), (0, 2), (1, 2)] {
                                    cases.push((qi, oi, fi, other_slot, si, *t2, place, sec));
                                }
                            }
                        }
                    }
                }
            }
        }
    }
    let outs: Vec<Outcome> = cases
        .par_iter()
        .map(|(qi, oi, fi, other_slot, si, t2, place, sec)| {
            let (t1, slot) = firsts[*fi];
            // the other name slot of a two-name type: root, a second new name, or the same new name
            let oth: Name = match other_slot {
                0 => vec![],
                1 => other.clone(),
                _ => newn.clone(),
            };
            let (a, b) = if slot == 0 { (newn.clone(), oth) } else { (oth, newn.clone()) };
            let r1 = mk_rr(t1, &owners1[*oi], &a, &b, 60);
            let sfx = &suffixes[*si];
            let filler = rd::name("f");
            let r2 = match place {
                0 => mk_rr(*t2, sfx, &filler, &filler, 61),
                1 => mk_rr(*t2, &filler, sfx, &filler, 61),
                _ => mk_rr(*t2, &filler, &filler, sfx, 61),
            };
            let mut p = base_pkt(&qs[*qi]);
            put(&mut p, sec.0, &r1);
            put(&mut p, sec.1, &r2);
            let case = json!({"engine":"c14","family":"rdata-ref","q":rd::name_str(&qs[*qi]),"first":{"type":t1,"slot":slot,"owner":rd::name_str(&owners1[*oi]),"other_slot":other_slot},"second":{"type":t2,"place":place,"name":rd::name_str(sfx)},"sections":[sec.0, sec.1]});
            judge_structured(&p, "rdata-ref", case)
        })
        .collect();
    absorb(rep, g, outs, 0);
}

/// Pointer chains: names that extend one another label by label (a, b.a, c.b.a, ...), so that the
/// encoder writes each as one label plus a pointer to the previous one and decoding the k-th
/// follows k-1 pointers.  Every chain length up to the longest a 255-octet name allows (127
/// labels), as successive owners and as successive rdata names.
fn family_chain(rep: &mut Report, g: &mut Gen) {
    let mut cases = vec![];
    for depth in 1..=127usize {
        for shape in 0..3usize {
            cases.push((depth, shape));
        }
    }
    let outs: Vec<Outcome> = cases
        .par_iter()
        .map(|(depth, shape)| {
            // one-octet labels, so that 127 of them still make a legal name (255 octets)
            let label = |i: usize| -> Vec<u8> { vec![b'a' + (i % 26) as u8] };
            let name_of = |k: usize| -> Name { (0..k).rev().map(label).collect() }; // k labels: l(k-1). ... .l0
            let mut p = base_pkt(&name_of(1));
            for k in 2..=*depth {
                let r = match shape {
                    0 => mk_rr(rd::T_A, &name_of(k), &vec![], &vec![], 30),
                    1 => mk_rr(rd::T_CNAME, &name_of(1), &name_of(k), &vec![], 30),
                    _ => mk_rr(rd::T_NS, &name_of(k), &name_of(k), &vec![], 30),
                };
                put(&mut p, if k % 3 == 0 { 1 } else if k % 3 == 1 { 2 } else { 0 }, &r);
            }
            let case = json!({"engine":"c14","family":"chain","depth":depth,"shape":shape});
            let mut o = judge_structured(&p, "chain", case);
            if let Some(v) = o.viol.take() {
                o.viol = Some(v.sig("hops", if *depth > 11 { "over10" } else { "le10" }));
            }
            o
        })
        .collect();
    absorb(rep, g, outs, 0);
}

/// Names are octet strings (RFC 1035 3.1, RFC 2181 11): every octet value may occur in a label,
/// and letter case is data.  For every octet value v: labels made of v alone, of length 1, 2 and 63,
/// and the longest legal name made of v (255 octets on the wire), as question name, owner and
/// record data of six record types, in every pairing of "short" and "longest" name.
fn octet_names(v: u8) -> Vec<Name> {
    vec![
        vec![vec![v], b"a".to_vec()],
        vec![vec![v, v], vec![v]],
        vec![vec![v; 63], b"example".to_vec()],
        vec![vec![b'w', v, b'w'], vec![v; 63], vec![v; 63]],
        vec![vec![v; 63], vec![v; 63], vec![v; 63], vec![v; 61]],
    ]
}

fn octets_pkt(v: u8, qi: usize, ni: usize, t: u16) -> dnspkt::DNSPkt {
    let ns = octet_names(v);
    let mut p = base_pkt(&ns[qi]);
    let other = &ns[(ni + 1) % ns.len()];
    put(&mut p, 0, &mk_rr(t, &ns[qi], &ns[ni], other, 60));
    put(&mut p, 1, &mk_rr(rd::T_NS, &ns[ni], other, &vec![], 60));
    put(&mut p, 2, &mk_rr(rd::T_A, other, &vec![], &vec![], 60));
    p
}

fn family_octets(rep: &mut Report, g: &mut Gen, thorough: bool) {
    let types: Vec<u16> = if thorough { vec![rd::T_CNAME, rd::T_MX, rd::T_RP, rd::T_SOA, rd::T_NAPTR, rd::T_A] } else { vec![rd::T_CNAME, rd::T_SOA] };
    let mut cases = vec![];
    for v in 0..=255u8 {
        for qi in 0..5usize {
            for ni in 0..5usize {
                for t in &types {
                    cases.push((v, qi, ni, *t));
                }
            }
        }
    }
    let outs: Vec<Outcome> = cases
        .par_iter()
        .map(|(v, qi, ni, t)| {
            let case = json!({"engine":"c14","family":"octets","octet":v,"q":qi,"n":ni,"type":t});
            let mut o = judge_structured(&octets_pkt(*v, *qi, *ni, *t), "octets", case);
            if let Some(viol) = o.viol.take() {
                let kind = if v.is_ascii_alphanumeric() { "alnum" } else if (0x21..0x7f).contains(v) { "punct" } else { "non-printable" };
                o.viol = Some(viol.sig("octet-kind", kind));
            }
            o
        })
        .collect();
    absorb(rep, g, outs, 0);
}

/// Every record type value: to the codec a record of a type it gives no meaning to is opaque
/// octets, whatever they look like -- a compression pointer, a name, nothing at all.  For every
/// type 0..65535 that is not one of the name-carrying types (and not OPT), four rdata shapes in the
/// answer and the additional section; decode(encode(m)) = m and the independent decoder agrees.
fn types_pkt(t: u16, shape: usize) -> dnspkt::DNSPkt {
    let q: Name = vec![b"t".to_vec(), b"example".to_vec()];
    let mut p = base_pkt(&q);
    let rdata: Vec<u8> = match shape {
        0 => vec![],
        1 => vec![0xc0, 0x0c],
        2 => vec![3, b'w', b'w', b'w', 0xc0, 0x0c],
        _ => vec![0, 1, 0, 1, 3, b'w', b'w', b'w', 1, b't', 7, b'e', b'x', b'a', b'm', b'p', b'l', b'e', 0],
    };
    for section in [0usize, 2] {
        let r = Rr { name: q.clone(), rtype: t, class: 1, ttl: 77, rdata: Rdata::Raw(rdata.clone()) };
        put(&mut p, section, &r);
        // a name-carrying record after it, so that a wrongly recorded name would be pointed at
        put(&mut p, section, &mk_rr(rd::T_CNAME, &q, &vec![b"www".to_vec(), b"t".to_vec(), b"example".to_vec()], &vec![], 30));
    }
    p
}

fn family_types(rep: &mut Report, g: &mut Gen, thorough: bool) {
    let named: [u16; 11] = [rd::T_NS, rd::T_CNAME, rd::T_PTR, rd::T_MX, rd::T_RT, rd::T_AFSDB, rd::T_RP, rd::T_SOA, rd::T_NAPTR, rd::T_OPT, 0];
    let ts: Vec<u16> = (0..=65535u16).filter(|t| !named.contains(t)).filter(|t| thorough || *t <= 300 || *t % 251 == 0 || *t >= 65280 || (32767..=32770).contains(t)).collect();
    let mut cases = vec![];
    for t in ts {
        for shape in 0..4usize {
            cases.push((t, shape));
        }
    }
    let outs: Vec<Outcome> = cases
        .par_iter()
        .map(|(t, shape)| {
            let case = json!({"engine":"c14","family":"types","type":t,"shape":shape});
            let mut o = judge_structured(&types_pkt(*t, *shape), "types", case);
            // one class per outcome, not per type
            o.class = format!("types:shape{shape}:{}", if o.viol.is_some() { "viol" } else { "ok" });
            o
        })
        .collect();
    absorb(rep, g, outs, 0);
}

/// Large record sets: n records with one and the same owner name (the question's, or another),
/// spread over one, two or three sections -- every n up to 300, and a few larger ones.
fn rrset_pkt(n: usize, own: usize, split: usize) -> dnspkt::DNSPkt {
    let q: Name = vec![b"www".to_vec(), b"example".to_vec(), b"com".to_vec()];
    let owner: Name = match own {
        0 => q.clone(),
        1 => vec![b"set".to_vec(), b"example".to_vec(), b"com".to_vec()],
        _ => vec![b"x".to_vec()],
    };
    let mut p = base_pkt(&q);
    for i in 0..n {
        let mut r = mk_rr(rd::T_A, &owner, &vec![], &vec![], 60);
        r.rdata = Rdata::Raw(vec![10, (i >> 16) as u8, (i >> 8) as u8, i as u8]);
        let section = match split {
            0 => 0,
            1 => i % 2,
            _ => i % 3,
        };
        put(&mut p, section, &r);
    }
    p
}

fn family_rrset(rep: &mut Report, g: &mut Gen, thorough: bool) {
    let mut ns: Vec<usize> = (1..=300).collect();
    ns.extend(if thorough { vec![400, 511, 512, 513, 1000, 2000, 4000] } else { vec![512, 1000] });
    let mut cases = vec![];
    for n in ns {
        for own in 0..3usize {
            for split in 0..3usize {
                if !thorough && n > 40 && n % 8 != 0 && !(120..=136).contains(&n) && !(250..=262).contains(&n) {
                    continue;
                }
                cases.push((n, own, split));
            }
        }
    }
    let outs: Vec<Outcome> = cases
        .par_iter()
        .map(|(n, own, split)| {
            let case = json!({"engine":"c14","family":"rrset","n":n,"owner":own,"split":split});
            let mut o = judge_structured(&rrset_pkt(*n, *own, *split), "rrset", case);
            if let Some(v) = o.viol.take() {
                o.viol = Some(v.sig("records", if *n > 127 { "over127" } else { "le127" }));
            }
            o
        })
        .collect();
    absorb(rep, g, outs, 0);
}

pub fn boundary_pkt(target: usize, follow: usize) -> dnspkt::DNSPkt {
    // header 12 + question (root, 5 octets) = 17; each filler = 1 (root owner) + 10 + rdlen
    let mut p = base_pkt(&vec![]);
    let mut at = 17usize;
    let filler = |len: usize| Rr { name: vec![], rtype: rd::T_TXT, class: 1, ttl: 60, rdata: Rdata::Raw(vec![0x41; len]) };
    while target - at >= 11 + 1000 + 11 {
        put(&mut p, 0, &filler(1000));
        at += 1011;
    }
    // remaining gap >= 11: one or two fillers
    let mut gap = target - at;
    if gap > 11 + 1000 {
        put(&mut p, 0, &filler(500));
        gap -= 511;
    }
    assert!(gap >= 11, "gap {gap}");
    put(&mut p, 0, &filler(gap - 11));
    let probe = rd::name("p.q");
    put(&mut p, 0, &mk_rr(rd::T_A, &probe, &vec![], &vec![], 60));
    match follow {
        0 => put(&mut p, 0, &mk_rr(rd::T_A, &probe, &vec![], &vec![], 61)),
        1 => put(&mut p, 0, &mk_rr(rd::T_CNAME, &rd::name("z"), &probe, &vec![], 62)),
        2 => put(&mut p, 1, &mk_rr(rd::T_MX, &rd::name("s.p.q"), &rd::name("t.s.p.q"), &vec![], 63)),
        3 => put(&mut p, 2, &mk_rr(rd::T_SOA, &rd::name("q"), &probe, &probe, 64)),
        _ => {
            put(&mut p, 1, &mk_rr(rd::T_NS, &rd::name("q"), &rd::name("s.p.q"), &vec![], 65));
            put(&mut p, 2, &mk_rr(rd::T_A, &rd::name("s.p.q"), &vec![], &vec![], 66));
        }
    }
    p
}

fn family_boundary(rep: &mut Report, g: &mut Gen, thorough: bool) {
    let mut targets: Vec<usize> = (0x3fe0..=0x4020).collect();
    targets.extend(0x3f00..0x3f04);
    targets.extend([0x2000, 0x7ff8, 0x8000, 0xbffe, 0xc000, 0xc001]);
    targets.extend(0xff80..=0xffb0);
    if thorough {
        targets.extend((0x0100..0xff00).step_by(0x0101));
    }
    let mut cases = vec![];
    for t in &targets {
        for f in 0..5usize {
            cases.push((*t, f));
        }
    }
    let outs: Vec<Outcome> = cases
        .par_iter()
        .map(|(t, f)| {
            let p = boundary_pkt(*t, *f);
            let case = json!({"engine":"c14","family":"boundary","first_written_at":t,"follow":f});
            let mut o = judge_structured(&p, "boundary", case);
            o.class = format!("{}:{}", o.class, if *t < 0x3ffe { "below" } else if *t < 0x4000 { "straddle" } else { "above" });
            o
        })
        .collect();
    absorb(rep, g, outs, 0);
}

fn family_header(rep: &mut Report, g: &mut Gen) {
    let optsets: Vec<Vec<(u16, Vec<u8>)>> = vec![vec![], vec![(10, vec![1, 2, 3, 4, 5, 6, 7, 8])], vec![(3, vec![]), (15, vec![0, 1, 65])], vec![(65001, vec![0; 300]), (10, vec![9; 24])]];
    let mut cases = vec![];
    for bits in 0..256u32 {
        for opcode in [0u8, 1, 15] {
            for rcode in [0u16, 3, 15, 16, 23, 0xfff] {
                for edns in 0..(1 + optsets.len()) {
                    for bufsize in [512u16, 1232, 65535] {
                        if edns == 0 && (rcode > 15 || bufsize != 512) {
                            continue;
                        }
                        cases.push((bits, opcode, rcode, edns, bufsize));
                    }
                }
            }
        }
    }
    let outs: Vec<Outcome> = cases
        .par_iter()
        .map(|(bits, opcode, rcode, edns, bufsize)| {
            let mut p = base_pkt(&rd::name("a.b"));
            p.qr = bits & 1 != 0;
            p.aa = bits & 2 != 0;
            p.tc = bits & 4 != 0;
            p.rd = bits & 8 != 0;
            p.ra = bits & 16 != 0;
            p.ad = bits & 32 != 0;
            p.cd = bits & 64 != 0;
            p.opcode = dnspkt::Opcode(*opcode);
            p.rcode = dnspkt::RCode(*rcode);
            if *edns > 0 {
                p.edns_ver = Some(0);
                p.edns_do = bits & 128 != 0;
                p.bufsize = *bufsize;
                let mut e = dnspkt::EdnsData::new();
                for (c, d) in &optsets[*edns - 1] {
                    e.set_opt(dnspkt::EdnsOption { code: dnspkt::EdnsCode(*c), data: d.clone() });
                }
                p.edns = Some(e);
            }
            p.qid = (*bits as u16) << 8 | *rcode & 0xff;
            put(&mut p, 0, &mk_rr(rd::T_A, &rd::name("a.b"), &vec![], &vec![], 1));
            let case = json!({"engine":"c14","family":"header","bits":bits,"opcode":opcode,"rcode":rcode,"edns":edns,"bufsize":bufsize});
            judge_structured(&p, "header", case)
        })
        .collect();
    absorb(rep, g, outs, 1999);
}

/// Part 2: whenever the real parser accepts a byte string, re-encoding must decode to the same message.
pub fn judge_bytes(b: &[u8], case: Value) -> (String, Option<Violation>) {
    let r = panics::catch(|| verif::parse(b));
    match r {
        Err(p) => ("parse-panic".into(), None.or(Some(Violation::new("parse-panic", format!("parser panicked: {} at {}", p.msg, panics::short_loc(&p.loc)), case).sig("loc", panics::short_loc(&p.loc))))),
        Ok(Err(_)) => ("rejected".into(), None),
        Ok(Ok(m)) => {
            let r2 = panics::catch(|| {
                let w = m.serialise();
                (verif::parse(&w), w)
            });
            match r2 {
                Err(p) => ("accepted:encode-panic".into(), Some(Violation::new("accepted-encode-panic", format!("decoder accepted the input but re-encoding panicked: {} at {}", p.msg, panics::short_loc(&p.loc)), case).sig("loc", panics::short_loc(&p.loc)))),
                Ok((Err(e), _)) => ("accepted:reparse-failed".into(), Some(Violation::new("accepted-reparse-failed", format!("decoder accepted the input but rejects the re-encoding: {e}"), case))),
                Ok((Ok(m2), w)) => {
                    if m2 != m {
                        ("accepted:differs".into(), Some(Violation::new("accepted-roundtrip-differs", format!("decode(encode(decode(b))) differs: {}", first_diff(&m2, &m)), case)))
                    } else {
                        match rd::decode(&w) {
                            Err(e) => ("accepted:strict-reject".into(), Some(Violation::new("accepted-strict-decode", format!("re-encoding of an accepted input is rejected by the strict decoder: {e}"), case))),
                            Ok(_) => (format!("accepted:an{}:ns{}:ar{}:edns{}", m.answer.len().min(3), m.nameserver.len().min(3), m.additional.len().min(3), m.edns.is_some() as u8), None),
                        }
                    }
                }
            }
        }
    }
}

/// Wire shapes our own encoder never produces but the decoder accepts: several OPT records in one
/// message, OPT records between other additional records, OPT records that differ.  What the decoder
/// makes of them must survive its own encoder.
fn family_wire_shapes(rep: &mut Report, g: &mut Gen) {
    let q = rd::name("w.example");
    let a = |i: u8| Rr { name: rd::name("ns.w.example"), rtype: rd::T_A, class: 1, ttl: 60, rdata: Rdata::Raw(vec![10, 0, 0, i]) };
    let alphabet: Vec<Rr> = vec![
        a(1),
        a(2),
        rd::opt_rr(1232, 0, 0, false, vec![]),
        rd::opt_rr(4096, 0, 0, true, vec![]),
        rd::opt_rr(512, 1, 0, false, vec![(3, vec![0x6e, 0x73])]),
        rd::opt_rr(1232, 0, 0, false, vec![(10, vec![1, 2, 3, 4, 5, 6, 7, 8])]),
    ];
    let mut lists: Vec<Vec<usize>> = vec![vec![]];
    let mut level: Vec<Vec<usize>> = vec![vec![]];
    for _ in 0..3 {
        let mut next = vec![];
        for l in &level {
            for i in 0..alphabet.len() {
                let mut m = l.clone();
                m.push(i);
                next.push(m);
            }
        }
        lists.extend(next.iter().cloned());
        level = next;
    }
    let outs: Vec<(String, Option<Violation>)> = lists
        .par_iter()
        .map(|l| {
            let m = Msg { id: 0x4242, flags: 0x8180, question: vec![(q.clone(), rd::T_A, 1)], answer: vec![a(9)], authority: vec![], additional: l.iter().map(|i| alphabet[*i].clone()).collect() };
            let b = rd::encode(&m, true);
            let case = json!({"engine":"c14","family":"bytes","bytes":crate::common::util::hex(&b),"shape":"additional","records":l});
            judge_bytes(&b, case)
        })
        .collect();
    for (c, v) in outs {
        g.evals += 1;
        g.classes.insert(format!("wire-shape:{c}"));
        if let Some(v) = v {
            rep.violation(v.sig("family", "wire-shapes"));
        }
    }
}

fn family_mutations(rep: &mut Report, g: &mut Gen, thorough: bool) {
    let mut bases = std::mem::take(&mut g.bases);
    bases.sort();
    bases.dedup();
    let max_bases = if thorough { 60 } else { 24 };
    let step = std::cmp::max(1, bases.len() / max_bases);
    let bases: Vec<Vec<u8>> = bases.into_iter().step_by(step).take(max_bases).collect();
    let vals: Vec<u8> = if thorough { (0..=255).collect() } else { vec![0, 1, 2, 0x0c, 0x29, 0x3f, 0x40, 0x7f, 0x80, 0xbf, 0xc0, 0xc1, 0xfe, 0xff] };
    let mut work: Vec<(usize, usize, i32)> = vec![];
    for (bi, b) in bases.iter().enumerate() {
        for off in 0..b.len() {
            for v in &vals {
                work.push((bi, off, *v as i32));
            }
            work.push((bi, off, -1)); // own offset
            work.push((bi, off, -2)); // truncation at off
        }
    }
    let outs: Vec<(String, Option<Violation>)> = work
        .par_iter()
        .map(|(bi, off, v)| {
            let mut b = bases[*bi].clone();
            match *v {
                -2 => b.truncate(*off),
                -1 => b[*off] = *off as u8,
                x => b[*off] = x as u8,
            }
            judge_bytes(&b, json!({"engine":"c14","family":"bytes","bytes":hex(&b)}))
        })
        .collect();
    for (c, v) in outs {
        g.evals += 1;
        g.classes.insert(format!("bytes:{c}"));
        if let Some(v) = v {
            rep.violation(v.sig("family", "bytes"));
        }
    }
    g.samples.push(json!({"family":"bytes","base_messages":bases.len(),"first_base":hex(&bases[0])}));
}

pub fn run(tier: &str, replay: Option<Value>) -> ! {
    let mut rep = Report::new("C14", if replay.is_some() { "quick" } else { tier }, "exploration");
    let thorough = tier == "thorough";
    if let Some(case) = replay {
        rep.replay_mode = true;
        let case = if case.get("case").is_some() { case["case"].clone() } else { case };
        match case["family"].as_str() {
            Some("bytes") => {
                let b = unhex(case["bytes"].as_str().unwrap_or(""));
                if let (_, Some(v)) = judge_bytes(&b, case.clone()) {
                    rep.violation(v.sig("family", "bytes"));
                }
            }
            Some("types") => {
                let p = types_pkt(case["type"].as_u64().unwrap_or(1) as u16, case["shape"].as_u64().unwrap_or(0) as usize);
                if let Some(v) = judge_structured(&p, "types", case.clone()).viol {
                    rep.violation(v);
                }
            }
            Some("rrset") => {
                let p = rrset_pkt(case["n"].as_u64().unwrap_or(1) as usize, case["owner"].as_u64().unwrap_or(0) as usize, case["split"].as_u64().unwrap_or(0) as usize);
                if let Some(v) = judge_structured(&p, "rrset", case.clone()).viol {
                    rep.violation(v);
                }
            }
            Some("octets") => {
                let p = octets_pkt(case["octet"].as_u64().unwrap_or(0) as u8, case["q"].as_u64().unwrap_or(0) as usize, case["n"].as_u64().unwrap_or(0) as usize, case["type"].as_u64().unwrap_or(5) as u16);
                if let Some(v) = judge_structured(&p, "octets", case.clone()).viol {
                    rep.violation(v);
                }
            }
            Some("boundary") => {
                let p = boundary_pkt(case["first_written_at"].as_u64().unwrap_or(0x4000) as usize, case["follow"].as_u64().unwrap_or(0) as usize);
                if let Some(v) = judge_structured(&p, "boundary", case.clone()).viol {
                    rep.violation(v);
                }
            }
            _ => {
                // the structured families are cheap: re-run them all
                let mut g = Gen { evals: 0, classes: Default::default(), samples: vec![], bases: vec![] };
                family_single(&mut rep, &mut g, 3);
                family_multi(&mut rep, &mut g, 3);
                family_rdata_ref(&mut rep, &mut g);
                family_chain(&mut rep, &mut g);
                family_header(&mut rep, &mut g);
            }
        }
        rep.finish();
    }
    let mut g = Gen { evals: 0, classes: Default::default(), samples: vec![], bases: vec![] };
    family_single(&mut rep, &mut g, if thorough { 3 } else { 2 });
    let e1 = g.evals;
    family_multi(&mut rep, &mut g, 3);
    family_rdata_ref(&mut rep, &mut g);
    family_chain(&mut rep, &mut g);
    family_octets(&mut rep, &mut g, thorough);
    family_rrset(&mut rep, &mut g, thorough);
    family_types(&mut rep, &mut g, thorough);
    let e2 = g.evals;
    family_boundary(&mut rep, &mut g, thorough);
    let e3 = g.evals;
    family_header(&mut rep, &mut g);
    let e4 = g.evals;
    family_wire_shapes(&mut rep, &mut g);
    family_mutations(&mut rep, &mut g, thorough);
    let e5 = g.evals;
    rep.cov("evaluations", g.evals);
    rep.cov("distinct_nontrivial", g.classes.len() as u64);
    rep.cov("rule", "structured: every (question, section, type, owner, rdata-name[s]) over names of depth<=2 (thorough 3) on labels {a,b,63x}; every 3-record sequence over an 8-record alphabet x section split; for every name-carrying type and name slot a new name written in record data and one of 5 suffix shapes of it used by a second record (owner or either rdata slot, 7 types) x 3 questions x 3 section pairs; names extending one another label by label to every chain length 1..127 (3 shapes); every record type value the codec gives no meaning to (quick: 0..300, every 251st, 32767..32770, 65280..65535; thorough: all 65525) x 4 opaque rdata shapes (empty, a compression pointer, a label then a pointer, an SRV-like name) x answer / additional section; record sets of n records with one owner name (n = 1..300 -- quick: every n to 40, around 128 and 256, every 8th otherwise -- and up to 4000) x 3 owners x 1-3 sections; for every octet value 0..255 five names made of that octet (labels of 1, 2, 63 octets, up to the longest legal name of 255 wire octets) x question/owner x record data x record type (quick 2, thorough 6); name first written at every offset 0x3fe0..0x4020, 0xff80..0xffb0 (+ sweep) x 5 follow-ups; header/EDNS product. bytes: every additional section of <=3 records over {2 address records, 4 differing OPT records} (several OPT records, OPT between other records) encoded by the reference encoder; base encodings x every offset x byte values (quick 14 boundary values, thorough all 256) + own-offset + every truncation. distinct = (family, size class, pointer count / acceptance shape) classes");
    rep.cov("exhaustive", true);
    rep.cov("parts", json!({"single": e1, "multi": e2 - e1, "boundary": e3 - e2, "header": e4 - e3, "bytes": e5 - e4}));
    let mut samples = pick_samples(&g.samples, 4, rep.seed);
    samples.push(json!({"family":"boundary","first_written_at":0x4000,"follow":0}));
    samples.push(json!({"family":"single","q":"a.b","section":0,"type":15,"owner":"a.b","n1":"b.a","n2":"."}));
    rep.cov("samples", samples);
    rep.assume("structured messages are canonical (bufsize>=512, edns present iff a version is set), as produced by the decoder");
    rep.finish()
}
