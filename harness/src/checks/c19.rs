//! C19: config loading is total, and accepted configurations are safe to serve.
//! (1) structural sweep: every node of several skeleton documents (the shipped example, the man
//!     page examples, a skeleton naming every remaining key and every DHCP option type) replaced by
//!     each wrong-type / boundary value, every prefix length 0..255 in every prefix-shaped scalar,
//!     every duration shape in every scalar, every key removed / misspelt;
//! (2) byte sweep of the shipped texts: every single-octet deletion and substitution by each
//!     structural octet at every offset;
//! (3) every accepted configuration is served: DHCP DISCOVER+REQUEST from 4 receiving addresses,
//!     ACL decisions, the RA built and serialised for every interface, and (for configurations
//!     whose routes differ from the shipped ones) one query per route through the live DNS service.
use crate::common::panics;
use crate::common::report::{Report, Violation};
use erbium::dhcp::{self, dhcppkt, pool};
use rayon::prelude::*;
use serde_json::{Value, json};
use std::collections::{BTreeMap, BTreeSet};
use std::sync::Mutex;
use std::sync::atomic::{AtomicU64, Ordering};
use yaml_rust::{Yaml, YamlEmitter, YamlLoader};

// ---------------------------------------------------------------------------
// Watchdog: a load or serve step that does not return is reported, not waited for
// ---------------------------------------------------------------------------

const HANG_SECS: u64 = 300;

/// Publish the text being loaded/served so that an abort or a hang can name it.
fn guard<T>(text: &str, f: impl FnOnce() -> T) -> T {
    let _g = crate::common::supervise::publish(0, text.as_bytes());
    f()
}

// ---------------------------------------------------------------------------
// Seeds
// ---------------------------------------------------------------------------

fn man_examples() -> Vec<(String, String)> {
    let mut out = vec![];
    for (file, tag) in [("/repo/man/erbium.conf.5", "man5"), ("/repo/man/erbium.8", "man8")] {
        let Ok(text) = std::fs::read_to_string(file) else { continue };
        let mut cur: Option<String> = None;
        let mut k = 0;
        for line in text.lines() {
            if line == ".EX" {
                cur = Some(String::new());
            } else if line == ".EE" {
                if let Some(c) = cur.take() {
                    k += 1;
                    out.push((format!("{tag}-example-{k}"), c.replace("\\fIthe-contents-of-the-top-level-addresses-field\\fP", "192.0.2.0/24")));
                }
            } else if let Some(c) = cur.as_mut() {
                c.push_str(line);
                c.push('\n');
            }
        }
    }
    out
}

fn example_file() -> Vec<(String, String)> {
    let Ok(text) = std::fs::read_to_string("/repo/erbium.conf.example") else { return vec![] };
    let mut un = text.replace("\n#  ", "\n  ").replace("\n# ", "\n");
    un = un.replace("the-contents-of-the-top-level-addresses-field", "192.0.2.0/24");
    vec![("example-file".into(), text), ("example-file-uncommented".into(), un)]
}

const SKELETON: &str = "---
addresses: [192.0.2.0/24, 198.51.100.0/25, 2001:db8::/64]
dns-servers: [$self4, $self6, 192.0.2.53, '2001:db8::53']
dns-search: [example.com, sub.example.org]
captive-portal: https://portal.example.com/
api-listeners: ['/tmp/erbium-verif-none/control', '@erbium-verif', '[::1]:9968', '127.0.0.1:9968']
dns-listeners: ['[::]:53', '127.0.0.1:5353']
default-listen-style: bind-unspecified
acls:
  - match-subnets: [192.0.2.0/24, '2001:db8::/32']
    match-unix: false
    apply-access: [dns-recursion, http, http-metrics, http-leases]
  - match-unix: true
    apply-access: [http-ro, dhcp-client]
dns-routes:
  - domain-suffixes: ['', example.com]
    type: forward
    dns-servers: [192.0.2.53]
  - domain-suffixes: [invalid, a.b.c.invalid]
    type: forge-nxdomain
  - domain-suffixes: [six.example]
    dns-servers: ['2001:db8::53']
router-advertisements:
  eth0:
    hop-limit: 64
    managed: true
    other: false
    lifetime: 1h
    reachable: 30s
    retransmit: 1s
    mtu: 1480
    max-router-advertisement-interval: 600
    captive-portal: https://ra.example.com/
    dns-servers: {addresses: ['2001:db8::53', $self6], lifetime: 1h}
    dns-search: {domains: [ra.example.com], lifetime: 30m}
    pref64: {prefix: '64:ff9b::/96', lifetime: 10m}
    prefixes:
      - {prefix: '2001:db8:0:1::/64', on-link: true, autonomous: false, valid: 30d, preferred: 7d}
      - prefix: '2001:db8:0:2::/64'
  eth1:
dhcp-policies:
  - match-subnet: 192.0.2.0/24
    apply-subnet: 192.0.2.128/26
    apply-default-lease: 1h
    apply-max-lease: 1d
    apply-dns-servers: [192.0.2.53, $self4]
    apply-routers: [192.0.2.1]
    apply-domain-name: example.com
    apply-time-offset: -3600
    apply-default-ttl: 64
    apply-mtu: 1400
    apply-max-size: 1500
    apply-arp-timeout: 1w
    apply-rebind-time: 2h
    apply-renewal-time: 90s
    apply-forward: false
    apply-broadcast: 192.0.2.255
    apply-netmask: null
    apply-client-id: 00:01:02:03
    apply-dns-searches: [example.com, example.org]
    apply-routes:
      - {prefix: 203.0.113.0/24, next-hop: 192.0.2.254}
      - {prefix: 0.0.0.0/0, next-hop: $self4}
    apply-captive-portal: https://dhcp.example.com/
    policies:
      - match-hardware-address: 00:00:5e:00:53:01
        apply-address: 192.0.2.130
      - match-host-name: printer
        match-class-id: null
        apply-range: {start: 192.0.2.140, end: 192.0.2.142}
        policies:
          - {match-user-class: VPN, apply-subnet: 192.0.2.192/28}
  - match-interface: dmz
    apply-address: 198.51.100.7
";

pub fn seeds() -> Vec<(String, String)> {
    let mut s = man_examples();
    s.extend(example_file());
    s.push(("skeleton".into(), SKELETON.into()));
    s
}

// ---------------------------------------------------------------------------
// Judging one text
// ---------------------------------------------------------------------------

#[derive(Default)]
struct Tally {
    loads: AtomicU64,
    accepted: AtomicU64,
    served: AtomicU64,
}

fn yaml_touches_routes(text: &str) -> bool {
    text.contains("dns-routes")
}

/// Resource guard (harness side): does the text imply materialising an IPv4 pool of more than 2^20
/// addresses at load time (apply-range span, apply-subnet prefix)?  Such texts are not loaded:
/// memory exhaustion aborts the process and is not part of the statement.
fn implied_pool_too_big(text: &str) -> bool {
    fn walk(y: &Yaml) -> bool {
        match y {
            Yaml::Array(a) => a.iter().any(walk),
            Yaml::Hash(h) => {
                for (k, v) in h {
                    match k.as_str() {
                        Some("apply-range") => {
                            if let Some(r) = v.as_hash() {
                                let ip = |key: &str| -> Option<u32> {
                                    r.get(&Yaml::String(key.into())).and_then(|x| x.as_str()).and_then(|s| if s == "$self4" { Some(0) } else { s.parse::<std::net::Ipv4Addr>().ok().map(u32::from) })
                                };
                                if let (Some(a), Some(b)) = (ip("start"), ip("end")) {
                                    if b >= a && (b - a) as u64 > (1 << 20) {
                                        return true;
                                    }
                                }
                            }
                        }
                        Some("apply-subnet") => {
                            if let Some(s) = v.as_str() {
                                let mut it = s.split('/');
                                if let (Some(a), Some(l), None) = (it.next(), it.next(), it.next()) {
                                    if a.parse::<std::net::Ipv4Addr>().is_ok() {
                                        if let Ok(l) = l.parse::<u32>() {
                                            if l < 12 {
                                                return true;
                                            }
                                        }
                                    }
                                }
                            }
                        }
                        _ => {}
                    }
                    if walk(v) {
                        return true;
                    }
                }
                false
            }
            _ => false,
        }
    }
    match YamlLoader::load_from_str(text) {
        Ok(docs) => docs.iter().any(walk),
        Err(_) => false,
    }
}

/// load + serve; returns (class, violations)
fn judge_text(text: &str, origin: &str, tally: &Tally, dns_queue: &Mutex<BTreeMap<String, String>>, shipped_routes: &BTreeSet<String>) -> (String, Vec<Violation>) {
    if implied_pool_too_big(text) {
        return ("skipped-pool-over-2^20".into(), vec![]);
    }
    tally.loads.fetch_add(1, Ordering::Relaxed);
    let case = json!({"engine":"c19","origin":origin,"yaml":text});
    let loaded = guard(text, || panics::catch(|| erbium::config::verif_load_config_from_string(text)));
    let conf = match loaded {
        Err(p) => {
            let loc = panics::short_loc(&p.loc);
            return (format!("load-panic:{loc}"), vec![Violation::new("load-panic", format!("the loader panicked ({origin}): {} at {loc}", p.msg), case).sig("phase", "load").sig("loc", loc)]);
        }
        Ok(Err(e)) => {
            let msg = e.to_string();
            if msg.trim().is_empty() {
                return ("rejected-silently".into(), vec![Violation::new("empty-error", "the loader rejected the text with an empty error message".to_string(), case).sig("phase", "load")]);
            }
            if origin == "replay" || !origin.contains('<') && !origin.contains('@') {
                eprintln!("  [{origin}] loader says: {msg}");
            }
            return ("rejected".into(), vec![]);
        }
        Ok(Ok(c)) => c,
    };
    tally.accepted.fetch_add(1, Ordering::Relaxed);
    let mut vs = vec![];
    let g = conf.try_read().expect("conf");
    // pools over 2^20 addresses are loaded but not served (resource exhaustion is not claimed)
    let big = g.addresses.iter().any(|p| matches!(p, erbium::config::Prefix::V4(p4) if p4.prefixlen < 12));
    let served = guard(text, || {
        panics::catch(|| {
            let mut n = 0u64;
            // --- ACLs
            use erbium_net::addr::{ToNetAddr as _, WithPort as _};
            let clients: Vec<erbium_net::addr::NetAddr> = vec![
                std::net::IpAddr::from([192, 0, 2, 7]).with_port(1234),
                "2001:db8::7".parse::<std::net::IpAddr>().unwrap().with_port(1234),
                "::ffff:192.0.2.7".parse::<std::net::IpAddr>().unwrap().with_port(1234),
                "255.255.255.255".parse::<std::net::IpAddr>().unwrap().with_port(1),
                erbium_net::addr::UnixAddr::new("/x").unwrap().to_net_addr(),
            ];
            for c in clients {
                for perm in [erbium::acl::PermissionType::DnsRecursion, erbium::acl::PermissionType::Http, erbium::acl::PermissionType::HttpLeases, erbium::acl::PermissionType::HttpMetrics] {
                    let _ = erbium::acl::require_permission(&g.acls, &erbium::acl::Attributes { addr: c }, perm);
                    n += 1;
                }
            }
            // --- RA for every interface
            for intf in &g.ra.interfaces {
                for (ll, mtu) in [(Some([2u8, 0, 0, 0, 0, 1]), Some(1500u32)), (None, None)] {
                    if let Some(adv) = erbium::radv::RaAdvService::verif_build(&g, &intf.name, ll, mtu, "2001:db8::1".parse().unwrap(), std::time::Duration::from_secs(1800)) {
                        let _ = erbium::radv::icmppkt::serialise(&erbium::radv::icmppkt::Icmp6::RtrAdvert(adv));
                        n += 1;
                    }
                }
            }
            // --- DHCP
            if !big {
                crate::common::clock::set_secs(crate::ehist::NOW0 as u64);
                let mut p = pool::Pool::new_in_memory().expect("pool");
                for serverip in ["192.0.2.1", "198.51.100.1", "203.0.113.1", "10.0.0.1"] {
                    for (mac, host) in [([0u8, 0, 0x5e, 0, 0x53, 1], None), ([0, 0, 0x5e, 0, 0x53, 0xf0], Some("printer")), ([2, 9, 9, 9, 9, 9], Some("myhost"))] {
                        for mtype in [1u8, 3] {
                            let mut other: std::collections::HashMap<dhcppkt::DhcpOption, Vec<u8>> = Default::default();
                            other.insert(dhcppkt::OPTION_MSGTYPE, vec![mtype]);
                            other.insert(dhcppkt::OPTION_PARAMLIST, (1..=254u8).collect());
                            other.insert(dhcppkt::OPTION_USERCLASS, b"VPN".to_vec());
                            if let Some(h) = host {
                                other.insert(dhcppkt::OPTION_HOSTNAME, h.as_bytes().to_vec());
                            }
                            let req = dhcp::DHCPRequest {
                                pkt: dhcppkt::Dhcp { op: dhcppkt::OP_BOOTREQUEST, htype: dhcppkt::HWTYPE_ETHERNET, hlen: 6, hops: 0, xid: 1, secs: 0, flags: 0, ciaddr: [0, 0, 0, 0].into(), yiaddr: [0, 0, 0, 0].into(), siaddr: [0, 0, 0, 0].into(), giaddr: [0, 0, 0, 0].into(), chaddr: mac.to_vec(), sname: vec![], file: vec![], options: dhcppkt::DhcpOptions { other } },
                                serverip: serverip.parse().unwrap(),
                                ifindex: 1,
                                if_mtu: Some(1500),
                                if_router: Some("192.0.2.254".parse().unwrap()),
                            };
                            n += 1;
                            if let Ok(reply) = dhcp::handle_pkt(&mut p, &req, Default::default(), &g) {
                                dhcp::verif::log_options(&reply);
                                let _ = reply.serialise();
                            }
                        }
                    }
                }
            }
            n
        })
    });
    match served {
        Err(p) => {
            let loc = panics::short_loc(&p.loc);
            vs.push(Violation::new("serve-panic", format!("an accepted configuration ({origin}) made a handler panic: {} at {loc}", p.msg), case.clone()).sig("phase", "serve").sig("loc", loc));
        }
        Ok(n) => {
            tally.served.fetch_add(n, Ordering::Relaxed);
        }
    }
    // DNS routes: queue for the live-service pass when the routes differ from the shipped ones
    if yaml_touches_routes(text) {
        let sig = format!("{:?}", g.dns_routes);
        if !shipped_routes.contains(&sig) {
            let mut q = dns_queue.lock().unwrap();
            // every distinct route table is kept (the smallest text producing it, so the choice does not
            // depend on thread timing); the live pass serves them in sorted order
            match q.get_mut(&sig) {
                Some(t) => {
                    if (text.len(), text) < (t.len(), t.as_str()) {
                        *t = text.to_string();
                    }
                }
                None => {
                    q.insert(sig, text.to_string());
                }
            }
        }
    }
    ("accepted".into(), vs)
}

// ---------------------------------------------------------------------------
// (1) structural sweep
// ---------------------------------------------------------------------------

fn emit(y: &Yaml) -> String {
    let mut s = String::new();
    let mut e = YamlEmitter::new(&mut s);
    let _ = e.dump(y);
    s.push('\n');
    s
}

fn subst_values() -> Vec<Yaml> {
    let mut h = yaml_rust::yaml::Hash::new();
    h.insert(Yaml::String("a".into()), Yaml::Integer(1));
    vec![
        Yaml::Null,
        Yaml::Boolean(true),
        Yaml::Integer(0),
        Yaml::Integer(-1),
        Yaml::Integer(i64::MAX),
        Yaml::Integer(i64::MIN),
        Yaml::Real("1.5".into()),
        // YAML floats at and beyond the edges of f64 (a value parsed as a float may be converted to
        // an integer or a duration further down)
        Yaml::Real("0.5".into()),
        Yaml::Real(".inf".into()),
        Yaml::Real("-.inf".into()),
        Yaml::Real(".nan".into()),
        Yaml::Real("inf".into()),
        Yaml::Real("infinity".into()),
        Yaml::Real("1e20".into()),
        Yaml::Real("2e19".into()),
        Yaml::Real("1e400".into()),
        Yaml::Real("-1e20".into()),
        Yaml::Real("1e-400".into()),
        Yaml::String("".into()),
        Yaml::String("x".into()),
        Yaml::Array(vec![]),
        Yaml::Array(vec![Yaml::Array(vec![])]),
        Yaml::Hash(yaml_rust::yaml::Hash::new()),
        Yaml::Hash(h),
        Yaml::Array(vec![Yaml::Null]),
        Yaml::Integer(256),
        Yaml::Integer(65536),
        Yaml::Integer(1 << 32),
        Yaml::String("$self4".into()),
        Yaml::String("$self6".into()),
        Yaml::String("/".into()),
        Yaml::String("1/2/3".into()),
    ]
}

fn duration_values() -> Vec<Yaml> {
    ["s", "1x", "5 m", "99999999999999999999d", "1w2d3h4m5s", "18446744073709551615", "307445734561825861m", "1_0s", "ms", "5w5w5w5w5w5w5w5w5w5w5w5w5w5w5w5w5w", "-5s", "0"].iter().map(|s| Yaml::String(s.to_string())).collect()
}

/// Name- and text-shaped values at the limits of what the wire formats can carry (a DNS label holds
/// at most 63 octets, a name 255, a DHCP option 255, a DNSSL/RDNSS option 8*255).
fn name_values() -> Vec<Yaml> {
    let l63 = "a".repeat(63);
    let l64 = "b".repeat(64);
    let l255 = "c".repeat(255);
    vec![
        format!("{l63}.example"),
        format!("{l64}.example"),
        format!("{l255}.example"),
        format!("{l63}.{l63}.{l63}.{}", "d".repeat(61)),
        format!("{l63}.{l63}.{l63}.{l63}.example"),
        "e".repeat(300),
        "f".repeat(2100),
        "a..b".into(),
        ".".into(),
        ".example".into(),
        "example.".into(),
        "ex ample.test".into(),
        "\u{e9}\u{e9}.example".into(),
        "*.example".into(),
        (0..130).map(|i| format!("l{i}")).collect::<Vec<_>>().join("."),
    ]
    .into_iter()
    .map(Yaml::String)
    .collect()
}

/// all paths to nodes (as index sequences); a path step is (is_hash_key?, index)
fn paths(y: &Yaml, cur: &mut Vec<usize>, out: &mut Vec<Vec<usize>>) {
    out.push(cur.clone());
    match y {
        Yaml::Array(a) => {
            for (i, c) in a.iter().enumerate() {
                cur.push(i);
                paths(c, cur, out);
                cur.pop();
            }
        }
        Yaml::Hash(h) => {
            for (i, (_k, v)) in h.iter().enumerate() {
                cur.push(i);
                paths(v, cur, out);
                cur.pop();
            }
        }
        _ => {}
    }
}

fn get<'a>(y: &'a Yaml, p: &[usize]) -> &'a Yaml {
    if p.is_empty() {
        return y;
    }
    match y {
        Yaml::Array(a) => get(&a[p[0]], &p[1..]),
        Yaml::Hash(h) => get(h.iter().nth(p[0]).unwrap().1, &p[1..]),
        _ => y,
    }
}

fn replace(y: &Yaml, p: &[usize], new: &Yaml) -> Yaml {
    if p.is_empty() {
        return new.clone();
    }
    match y {
        Yaml::Array(a) => Yaml::Array(a.iter().enumerate().map(|(i, c)| if i == p[0] { replace(c, &p[1..], new) } else { c.clone() }).collect()),
        Yaml::Hash(h) => {
            let mut n = yaml_rust::yaml::Hash::new();
            for (i, (k, v)) in h.iter().enumerate() {
                n.insert(k.clone(), if i == p[0] { replace(v, &p[1..], new) } else { v.clone() });
            }
            Yaml::Hash(n)
        }
        _ => y.clone(),
    }
}

/// remove the hash entry / array element at path p (last step), or rename its key
fn remove_or_rename(y: &Yaml, p: &[usize], rename: Option<&str>) -> Yaml {
    if p.len() == 1 {
        return match y {
            Yaml::Array(a) => Yaml::Array(a.iter().enumerate().filter(|(i, _)| *i != p[0] || rename.is_some()).map(|(_, c)| c.clone()).collect()),
            Yaml::Hash(h) => {
                let mut n = yaml_rust::yaml::Hash::new();
                for (i, (k, v)) in h.iter().enumerate() {
                    if i == p[0] {
                        if let Some(suffix) = rename {
                            let nk = match k {
                                Yaml::String(s) => Yaml::String(format!("{s}{suffix}")),
                                other => other.clone(),
                            };
                            n.insert(nk, v.clone());
                        }
                    } else {
                        n.insert(k.clone(), v.clone());
                    }
                }
                Yaml::Hash(n)
            }
            _ => y.clone(),
        };
    }
    match y {
        Yaml::Array(a) => Yaml::Array(a.iter().enumerate().map(|(i, c)| if i == p[0] { remove_or_rename(c, &p[1..], rename) } else { c.clone() }).collect()),
        Yaml::Hash(h) => {
            let mut n = yaml_rust::yaml::Hash::new();
            for (i, (k, v)) in h.iter().enumerate() {
                n.insert(k.clone(), if i == p[0] { remove_or_rename(v, &p[1..], rename) } else { v.clone() });
            }
            Yaml::Hash(n)
        }
        _ => y.clone(),
    }
}

fn key_path_text(y: &Yaml, p: &[usize]) -> String {
    let mut cur = y;
    let mut out = vec![];
    for i in p {
        match cur {
            Yaml::Array(a) => {
                out.push(format!("[{i}]"));
                cur = &a[*i];
            }
            Yaml::Hash(h) => {
                let (k, v) = h.iter().nth(*i).unwrap();
                out.push(k.as_str().unwrap_or("?").to_string());
                cur = v;
            }
            _ => {}
        }
    }
    out.join(".")
}

fn structural_texts(name: &str, text: &str, thorough: bool) -> Vec<(String, String)> {
    let Ok(docs) = YamlLoader::load_from_str(text) else { return vec![] };
    let Some(doc) = docs.first() else { return vec![] };
    let mut ps = vec![];
    paths(doc, &mut vec![], &mut ps);
    let mut out: Vec<(String, String)> = vec![];
    let subs = subst_values();
    let durs = duration_values();
    let names = name_values();
    for p in &ps {
        let kp = key_path_text(doc, p);
        let node = get(doc, p);
        for (i, s) in subs.iter().enumerate() {
            out.push((format!("{name}:{kp}<-subst{i}"), emit(&replace(doc, p, s))));
        }
        let is_scalar = !matches!(node, Yaml::Array(_) | Yaml::Hash(_));
        if is_scalar {
            for (i, s) in durs.iter().enumerate() {
                out.push((format!("{name}:{kp}<-dur{i}"), emit(&replace(doc, p, s))));
            }
            for (i, s) in names.iter().enumerate() {
                out.push((format!("{name}:{kp}<-name{i}"), emit(&replace(doc, p, s))));
            }
            if let Yaml::String(s) = node {
                out.push((format!("{name}:{kp}<-misspelt"), emit(&replace(doc, p, &Yaml::String(format!("{s}x"))))));
                out.push((format!("{name}:{kp}<-upper"), emit(&replace(doc, p, &Yaml::String(s.to_uppercase())))));
                // prefix-shaped scalars: every length, both families, aligned and with host bits
                if s.contains('/') && s.split('/').count() == 2 && s.split('/').nth(1).map(|l| l.parse::<u32>().is_ok()).unwrap_or(false) {
                    let under_apply_subnet = kp.ends_with("apply-subnet");
                    let lens: Vec<u32> = if thorough { (0..=255).collect() } else { (0..=34).chain([48, 63, 64, 65, 95, 96, 97, 104, 127, 128, 129, 130, 200, 255]).collect() };
                    for len in lens {
                        // materialising a pool larger than 2^20 addresses at load time is a resource question, not claimed
                        let skip_v4 = under_apply_subnet && len < 12;
                        for (fam, addr) in [("v4", "192.0.2.0"), ("v4hb", "192.0.2.77"), ("v6", "2001:db8::"), ("v6hb", "2001:db8::77"), ("v4zero", "0.0.0.0"), ("mapped", "::ffff:192.0.2.0"), ("v4top", "255.255.255.255"), ("v4top2", "255.255.255.254"), ("v6top", "ffff:ffff:ffff:ffff:ffff:ffff:ffff:ffff")] {
                            if skip_v4 && fam.starts_with("v4") {
                                continue;
                            }
                            // the top-of-space forms: boundary lengths only in the quick tier
                            if !thorough && fam.contains("top") && ![0u32, 1, 8, 24, 30, 31, 32, 33, 64, 96, 127, 128, 129].contains(&len) {
                                continue;
                            }
                            out.push((format!("{name}:{kp}<-{fam}/{len}"), emit(&replace(doc, p, &Yaml::String(format!("{addr}/{len}"))))));
                        }
                    }
                }
            }
        }
        if !p.is_empty() {
            out.push((format!("{name}:{kp}<-removed"), emit(&remove_or_rename(doc, p, None))));
            out.push((format!("{name}:{kp}<-key-misspelt"), emit(&remove_or_rename(doc, p, Some("x")))));
        }
    }
    // pairs: two duration-valued scalars set to a huge value at once (arithmetic that is safe for
    // either alone may overflow when both bounds are lifted)
    let looks_like_duration = |y: &Yaml| -> bool {
        match y {
            Yaml::String(s) => s.len() <= 6 && s.chars().next().map(|c| c.is_ascii_digit()).unwrap_or(false) && s.chars().last().map(|c| "smhdw".contains(c)).unwrap_or(false) && s[..s.len() - 1].chars().all(|c| c.is_ascii_digit()),
            _ => false,
        }
    };
    let dur_paths: Vec<&Vec<usize>> = ps.iter().filter(|p| looks_like_duration(get(doc, p))).collect();
    let huge = ["4294967295", "18446744073709551615", "-1", "4294967296", "213503982334601d"];
    for (a, pa) in dur_paths.iter().enumerate() {
        for pb in dur_paths.iter().skip(a + 1) {
            for h in huge {
                let d1 = replace(doc, pa, &Yaml::String(h.to_string()));
                let d2 = replace(&d1, pb, &Yaml::String(h.to_string()));
                out.push((format!("{name}:{}+{}<-huge:{h}", key_path_text(doc, pa), key_path_text(doc, pb)), emit(&d2)));
            }
        }
    }
    out
}

// ---------------------------------------------------------------------------
// (2) byte sweep
// ---------------------------------------------------------------------------

const STRUCTURAL: [u8; 17] = [b':', b'-', b'[', b']', b'{', b'}', b',', b'"', b'\'', b'#', b' ', b'\n', b'$', b'/', b'0', b'9', b'\t'];

fn byte_texts(name: &str, text: &str) -> Vec<(String, String)> {
    let b = text.as_bytes();
    let mut out = vec![];
    // skip the licence header comment block (pure comments): start at the first non-comment line
    let start = text.find("\naddresses").or(text.find("\ndns-")).unwrap_or(0);
    for off in start..b.len() {
        let mut d = b.to_vec();
        d.remove(off);
        if let Ok(s) = String::from_utf8(d) {
            out.push((format!("{name}@{off}:del"), s));
        }
        for c in STRUCTURAL {
            if b[off] == c {
                continue;
            }
            let mut d = b.to_vec();
            d[off] = c;
            if let Ok(s) = String::from_utf8(d) {
                out.push((format!("{name}@{off}:={:?}", c as char), s));
            }
        }
    }
    out
}

// ---------------------------------------------------------------------------
// (3) DNS routes through the live service
// ---------------------------------------------------------------------------

#[derive(Default)]
struct DnsTally {
    tables: u64,
    not_loadable: u64,
    queries: u64,
    answered: u64,
    closed: u64,
    silent: u64,
    rig_errors: Vec<String>,
}

fn dns_serve(text: &str, dt: &mut DnsTally) -> Vec<Violation> {
    use crate::enet::{Rig, TcpClient};
    use crate::refdns as rd;
    // take the dns-routes section of the text and serve it on a loopback listener
    let Ok(docs) = YamlLoader::load_from_str(text) else { return vec![] };
    let Some(Yaml::Hash(h)) = docs.first() else { return vec![] };
    let Some(routes) = h.get(&Yaml::String("dns-routes".into())) else { return vec![] };
    let mut nh = yaml_rust::yaml::Hash::new();
    nh.insert(Yaml::String("dns-routes".into()), routes.clone());
    let body = emit(&Yaml::Hash(nh));
    let body = body.trim_start_matches("---").trim_start().to_string();
    let yaml = format!("---\ndns-listeners: {{LISTENERS}}\n{body}");
    let case = json!({"engine":"c19","origin":"dns-serve","yaml":text});
    let spec = crate::enet::RigSpec { listeners: vec!["::1".into()], n_upstreams: 0, yaml };
    let mut rig = match Rig::start(&spec) {
        Ok(r) => r,
        Err(e) if e.starts_with("rig config rejected") => {
            dt.not_loadable += 1; // not loadable in this reduced form: nothing to serve
            return vec![];
        }
        Err(e) => {
            dt.rig_errors.push(e);
            return vec![];
        }
    };
    dt.tables += 1;
    // names: each configured suffix, with a label in front, and an unrelated name
    let mut names: Vec<String> = vec!["unrelated.test".into(), "".into()];
    if let Yaml::Array(rs) = routes {
        for r in rs {
            if let Some(Yaml::Array(sufs)) = r.as_hash().and_then(|h| h.get(&Yaml::String("domain-suffixes".into()))) {
                for s in sufs {
                    if let Some(s) = s.as_str() {
                        if s.is_ascii() && !s.contains("..") && !s.contains('\\') && s.split('.').all(|l| l.len() < 64) {
                            names.push(s.to_string());
                            names.push(format!("x.{s}"));
                        }
                    }
                }
            }
        }
    }
    let mut vs = vec![];
    for (i, n) in names.iter().enumerate().take(12) {
        let q = rd::encode(&rd::query(i as u16, &rd::name(n.trim_end_matches('.')), rd::T_A, 1, true, None), false);
        dt.queries += 1;
        match TcpClient::connect(None, rig.listen_addr(0)) {
          Err(e) => dt.rig_errors.push(format!("connect: {e}")),
          Ok(mut c) => {
            let _ = c.conn.send_frame(&q);
            for _ in 0..60 {
                rig.pump(4);
                c.poll();
                if !c.conn.frames_in.is_empty() || c.conn.eof {
                    break;
                }
            }
            // a forward route to an unreachable server answers after its retries: let time pass
            if c.conn.frames_in.is_empty() && !c.conn.eof {
                for _ in 0..80 {
                    rig.advance(std::time::Duration::from_secs(2));
                    c.poll();
                    if !c.conn.frames_in.is_empty() || c.conn.eof {
                        break;
                    }
                }
            }
            if !c.conn.frames_in.is_empty() {
                dt.answered += 1;
            } else if c.conn.eof {
                dt.closed += 1;
            } else {
                dt.silent += 1;
                if std::env::var("VERIF_C19_TRACE").is_ok() {
                    eprintln!("silent: name {n:?} routes {}", body.replace('\n', " | "));
                }
            }
          }
        }
        let ps = crate::common::panics::take_all();
        if let Some(p) = ps.first() {
            let loc = panics::short_loc(&p.loc);
            vs.push(Violation::new("serve-panic", format!("an accepted dns-routes configuration made the DNS service panic on a query for '{n}': {} at {loc}", p.msg), case.clone()).sig("phase", "serve").sig("loc", loc));
            break;
        }
    }
    let _ = rig.stop();
    vs
}

pub fn run(tier: &str, replay: Option<Value>) -> ! {
    let mut rep = Report::new("C19", if replay.is_some() { "quick" } else { tier }, "exploration");
    if !crate::common::supervise::install_if_child("VERIF_C19_CHILD", HANG_SECS) {
        crate::common::supervise::supervise("C19", tier, "exploration", &replay, "VERIF_C19_CHILD", HANG_SECS, &|_tag, b, how, hang| {
            let text = String::from_utf8_lossy(b).to_string();
            Violation::new(if hang { "non-termination" } else { "abort" }, format!("loading/serving this configuration {how}"), json!({"engine":"c19","yaml":text})).sig("how", if hang { "hang" } else { "abort" })
        });
    }
    let thorough = tier == "thorough";
    crate::enet::set_shard(29);
    // own network namespace (loopback only) before any other thread exists: forward routes of the
    // mutated texts name arbitrary addresses, and whether those are routable must not depend on
    // the machine the check runs on (without a route the send fails at once and the client gets
    // SERVFAIL; with one, a TCP connect would sit in the kernel's real-time SYN timer)
    let isolated = crate::enet::isolate_network();
    let tally = Tally::default();
    let dns_queue: Mutex<BTreeMap<String, String>> = Mutex::new(BTreeMap::new());
    let seeds = seeds();
    // routes of the shipped texts are served once, mutated ones when they differ
    let mut shipped_routes: BTreeSet<String> = BTreeSet::new();
    if let Some(case) = replay {
        rep.replay_mode = true;
        let case = if case.get("case").is_some() { case["case"].clone() } else { case };
        let text = case["yaml"].as_str().unwrap_or("").to_string();
        panics::set_quiet(false);
        let (c, vs) = judge_text(&text, "replay", &tally, &dns_queue, &shipped_routes);
        eprintln!("  outcome: {c}");
        rep.violations_from(vs);
        rep.violations_from(dns_serve(&text, &mut DnsTally::default()));
        rep.finish();
    }
    if seeds.len() < 3 {
        rep.machinery_error("could not read the shipped examples under /repo");
        rep.finish();
    }
    // every shipped text must load
    let mut classes: BTreeSet<String> = BTreeSet::new();
    for (name, text) in &seeds {
        let (c, vs) = judge_text(text, name, &tally, &dns_queue, &shipped_routes);
        if c != "accepted" && name != "example-file" || c == "rejected" {
            rep.violation(Violation::new("shipped-example-rejected", format!("shipped text '{name}' does not load: {c}"), json!({"engine":"c19","origin":name,"yaml":text})).sig("phase", "load"));
        }
        rep.violations_from(vs);
        if let Ok(Ok(conf)) = panics::catch(|| erbium::config::verif_load_config_from_string(text)) {
            shipped_routes.insert(format!("{:?}", conf.try_read().unwrap().dns_routes));
        }
    }
    let mut dt = DnsTally::default();
    for (_s, t) in std::mem::take(&mut *dns_queue.lock().unwrap()) {
        rep.violations_from(dns_serve(&t, &mut dt));
    }
    for (_n, t) in &seeds {
        rep.violations_from(dns_serve(t, &mut dt));
    }
    // generate
    let mut texts: Vec<(String, String)> = vec![];
    for (name, text) in &seeds {
        if name == "example-file" {
            continue; // comments only: covered by the byte sweep
        }
        texts.extend(structural_texts(name, text, thorough));
    }
    let n_struct = texts.len();
    for (name, text) in &seeds {
        if !thorough && name == "example-file" {
            continue;
        }
        texts.extend(byte_texts(name, text));
    }
    let n_bytes = texts.len() - n_struct;
    let found: Mutex<Vec<Violation>> = Mutex::new(vec![]);
    let cls: Mutex<BTreeSet<String>> = Mutex::new(BTreeSet::new());
    texts.par_iter().for_each(|(origin, text)| {
        let (c, vs) = judge_text(text, origin, &tally, &dns_queue, &shipped_routes);
        cls.lock().unwrap().insert(c);
        if !vs.is_empty() {
            let mut f = found.lock().unwrap();
            for v in vs {
                // one per (oracle, location)
                if !f.iter().any(|x| x.oracle == v.oracle && x.sig == v.sig) {
                    f.push(v);
                }
            }
        }
    });
    classes.extend(cls.into_inner().unwrap());
    rep.violations_from(found.into_inner().unwrap());
    // live DNS pass for the queued route variants
    let q = std::mem::take(&mut *dns_queue.lock().unwrap());
    let n_dns = q.len();
    let mut seen = BTreeSet::new();
    for (_sig, t) in q {
        for v in dns_serve(&t, &mut dt) {
            if seen.insert(format!("{:?}", v.sig)) {
                rep.violation(v);
            }
        }
    }
    if let Some(e) = dt.rig_errors.first() {
        rep.machinery_error(&format!("live DNS pass: {} rig failure(s), first: {e}", dt.rig_errors.len()));
    }
    crate::common::clock::unset();
    rep.cov("evaluations", tally.loads.load(Ordering::Relaxed));
    rep.cov("distinct_nontrivial", tally.accepted.load(Ordering::Relaxed));
    rep.cov("rule", "texts = shipped examples (man page .EX blocks, erbium.conf.example commented and uncommented) and a skeleton naming every remaining key and DHCP option type; structural sweep: every node <- 32 wrong-type/boundary values (incl. YAML floats: fractions, infinities, NaN, 1e20, 1e400), every scalar <- 12 duration shapes and 15 name/text shapes at the wire limits (labels of 63/64/255 octets, names of 255 and more, empty labels, 130 labels, 300 and 2100 octets), misspelt/upper-cased, every prefix-shaped scalar <- every length (quick: 0..34 and boundaries; thorough 0..255) x 9 address forms (network, host bits set, zero, v4-mapped, top of the IPv4 / IPv6 space), every entry removed / key misspelt, every PAIR of duration-valued scalars set to each of 5 huge values at once; byte sweep: every offset x {deletion, 17 structural octets}. Every accepted text is served (ACL decisions, RA build+serialise per interface, DISCOVER+REQUEST from 4 receiving addresses x 3 clients; route variants through the live DNS service). distinct_nontrivial = texts the loader accepted (and that were therefore served)");
    rep.cov("exhaustive", true);
    rep.cov("parts", json!({"structural_texts": n_struct, "byte_texts": n_bytes, "accepted_and_served": tally.accepted.load(Ordering::Relaxed), "serve_steps": tally.served.load(Ordering::Relaxed), "own_network_namespace": isolated, "route_variants_distinct": n_dns, "route_tables_served_live": dt.tables, "route_texts_not_loadable_standalone": dt.not_loadable, "live_queries": dt.queries, "live_answered": dt.answered, "live_closed_without_answer": dt.closed, "live_silent_after_160s": dt.silent}));
    rep.cov("outcome_classes", json!(classes));
    rep.cov("samples", json!(seeds.iter().map(|(n, t)| json!({"seed": n, "octets": t.len()})).collect::<Vec<_>>()));
    rep.assume("configurations whose IPv4 pools exceed 2^20 addresses are loaded but not served, and apply-subnet prefixes shorter than /12 and apply-range spans over 2^20 are not loaded (resource exhaustion is not claimed)");
    rep.finish()
}
