//! C16: REFUSED replies are rate-bounded per source, quiet clients still get one, cookies exempt
//! only when valid.
//! (1) exhaustive arrival/advance histories on the real `IpRateLimiter::check` under the virtual
//!     clock; (2) the live service: REFUSED-provoking UDP queries from one source, datagrams
//!     counted and sized at the client; (3) the cookie matrix on the live service.
use crate::common::report::{Report, Violation};
use crate::common::{clock, panics};
use crate::enet::{Rig, RigSpec, TcpClient, UdpClient};
use crate::netrun::{self, CaseResult};
use crate::refdns as rd;
use erbium::dns::verif::RateLimiter;
use rayon::prelude::*;
use serde_json::{Value, json};
use std::net::IpAddr;
use std::time::Duration;

const T0: u64 = 1_700_000_000;

#[derive(Clone, Copy, Debug)]
enum Op {
    Arrive(u32),
    Advance(u64),
}

fn ops(b: u32, r: u32) -> Vec<Op> {
    let p = (b / r) as u64; // refill period
    let min = 200u32; // the minimum charge of the listener (mod.rs should_ratelimit)
    let mut v = vec![Op::Arrive(min), Op::Arrive(min + 100), Op::Arrive(b.max(min)), Op::Arrive(b + 1)];
    v.extend([1u64, 10, p - 1, p, p + 1, 2 * p].iter().map(|d| Op::Advance(*d)));
    v
}

fn block_on<F: std::future::Future>(f: F) -> F::Output {
    futures::executor::block_on(f)
}

/// Run one history on a fresh limiter; returns (violations, number of grants, outcome class)
fn run_history(h: &[usize], alphabet: &[Op], b: u32, r: u32, src: IpAddr) -> (Vec<(&'static str, String)>, String) {
    let lim = RateLimiter::new();
    let mut now = T0;
    clock::set_secs(now);
    let mut grants: Vec<(u64, u32)> = vec![];
    let mut last_arrival: Option<u64> = None;
    let mut out = vec![];
    let mut cls = String::new();
    let min = 200u32;
    for (step, oi) in h.iter().enumerate() {
        match alphabet[*oi] {
            Op::Advance(d) => {
                now += d;
                clock::set_secs(now);
                cls.push('t');
            }
            Op::Arrive(cost) => {
                let g = block_on(lim.check(src, cost as usize));
                cls.push(if g { 'G' } else { 'd' });
                if g {
                    grants.push((now, cost));
                }
                // liveness: silent for >= the refill period (or never seen), a minimum-cost reply must be granted
                let idle = match last_arrival {
                    None => true,
                    Some(t) => now - t >= (b / r) as u64,
                };
                if idle && cost == min && !g {
                    out.push(("idle-grant", format!("step {step}: source idle for {}s (refill period {}s) but a minimum-cost ({min}) REFUSED was not granted (capacity {b}, rate {r}/s)", last_arrival.map(|t| (now - t).to_string()).unwrap_or("ever".into()), b / r)));
                }
                last_arrival = Some(now);
            }
        }
    }
    // safety: over every window the granted volume is bounded by a fixed burst plus rate x time
    // (two buckets per source: burst 2B, rate 2R)
    for i in 0..grants.len() {
        let mut sum = 0u64;
        for j in i..grants.len() {
            sum += grants[j].1 as u64;
            let dt = grants[j].0 - grants[i].0;
            let bound = 2 * b as u64 + 2 * r as u64 * (dt + 1);
            if sum > bound {
                out.push(("volume-bound", format!("{sum} tokens granted within {dt}s, bound is 2x{b} + 2x{r}x({dt}+1) = {bound}")));
                break;
            }
        }
    }
    (out, cls)
}

fn function_part(rep: &mut Report, thorough: bool) -> (u64, u64, Vec<Value>) {
    let (b, r) = RateLimiter::params();
    let alphabet = ops(b, r);
    let depth = if thorough { 8 } else { 6 };
    let n = alphabet.len();
    let src: IpAddr = "192.0.2.77".parse().unwrap();
    // enumerate all histories of length 1..=depth; shard by the first two ops
    let mut roots: Vec<Vec<usize>> = vec![];
    for a in 0..n {
        for bb in 0..n {
            roots.push(vec![a, bb]);
        }
    }
    let results: Vec<(u64, std::collections::BTreeSet<String>, Vec<Violation>)> = roots
        .par_iter()
        .map(|root| {
            let mut count = 0u64;
            let mut classes = std::collections::BTreeSet::new();
            let mut viols: Vec<Violation> = vec![];
            let mut stack: Vec<Vec<usize>> = vec![root.clone()];
            while let Some(h) = stack.pop() {
                count += 1;
                let (vs, cls) = run_history(&h, &alphabet, b, r, src);
                // class: grant pattern compressed
                let k: String = cls.chars().filter(|c| *c != 't').collect();
                if classes.len() < 2000 {
                    classes.insert(k);
                }
                for (oracle, what) in vs {
                    if !viols.iter().any(|v| v.oracle == oracle) {
                        let hist: Vec<String> = h.iter().map(|i| format!("{:?}", alphabet[*i])).collect();
                        viols.push(
                            Violation::new(oracle, format!("history {:?}: {what}", hist), json!({"engine":"c16","part":"function","history":h}))
                                .sig("part", "function")
                                .sig("min_cost_gt_capacity", 200 > b),
                        );
                    }
                }
                if h.len() < depth {
                    for a in 0..n {
                        let mut g = h.clone();
                        g.push(a);
                        stack.push(g);
                    }
                }
            }
            (count, classes, viols)
        })
        .collect();
    let mut total = 0;
    let mut classes = std::collections::BTreeSet::new();
    let mut seen = std::collections::BTreeSet::new();
    for (c, cl, vs) in results {
        total += c;
        classes.extend(cl);
        for v in vs {
            if seen.insert(v.oracle.clone()) {
                rep.violation(v);
            }
        }
    }
    clock::unset();
    (total, classes.len() as u64, vec![json!({"limiter_params": {"capacity": b, "rate_per_s": r}, "alphabet": alphabet.iter().map(|o| format!("{:?}", o)).collect::<Vec<_>>(), "depth": depth})])
}

// ---------------------------------------------------------------------------
// Overlapping checks: the limiter reads a bucket under a read lock and charges it under a write
// lock taken afterwards.  Between the two a task can be descheduled (another worker thread runs,
// or the task's cooperative budget runs out at the second lock) while further queries from the
// same source are checked against the not-yet-charged bucket.  Here K tasks call the real
// `IpRateLimiter::check` on one current-thread runtime; a task is made to yield exactly between
// its check and its charge by spending its cooperative budget down to one unit first (the read
// lock takes the last unit, the write lock then has to yield -- tokio's own scheduling point, no
// hook).  Every task of a round is therefore checked before any is charged.
// What must hold: the charges of overlapping grants are all kept (the bucket goes into debt), so
// the volume over any window stays within burst + rate x time + the overdraft of one round,
// (K-1) x cost per bucket.
// ---------------------------------------------------------------------------

#[derive(Clone, Copy, Debug)]
struct Round {
    tasks: usize,
    cost: u32,
    /// all tasks yield between check and charge (false: every second one does)
    all: bool,
    /// seconds since the previous round
    gap: u64,
}

fn round_alphabet(thorough: bool) -> Vec<Round> {
    let mut v = vec![];
    let ks: &[usize] = if thorough { &[1, 2, 3, 8, 16] } else { &[1, 2, 16] };
    for &tasks in ks {
        for cost in [200u32, 1000] {
            for all in [true, false] {
                if tasks == 1 && !all {
                    continue;
                }
                for gap in if thorough { vec![0u64, 100, 1000, 3000] } else { vec![0u64, 500, 1000] } {
                    v.push(Round { tasks, cost, all, gap });
                }
            }
        }
    }
    v
}

/// One history of rounds on a fresh limiter.  Returns (violations, largest number of grants in one round).
fn run_rounds(h: &[Round], b: u32, r: u32, src: IpAddr) -> (Vec<(&'static str, String)>, usize) {
    let rt = tokio::runtime::Builder::new_current_thread().build().expect("rt");
    let lim = std::sync::Arc::new(RateLimiter::new());
    let mut now = T0;
    clock::set_secs(now);
    let mut grants: Vec<(u64, u32)> = vec![];
    let mut max_round = 0usize;
    let kmax = h.iter().map(|x| x.tasks).max().unwrap_or(1) as u64;
    let cmax = h.iter().map(|x| x.cost).max().unwrap_or(0) as u64;
    for rd in h {
        now += rd.gap;
        clock::set_secs(now);
        let (tasks, cost, all) = (rd.tasks, rd.cost, rd.all);
        let lim2 = lim.clone();
        let g: usize = rt.block_on(async move {
            let hs: Vec<_> = (0..tasks)
                .map(|i| {
                    let lim = lim2.clone();
                    tokio::spawn(async move {
                        if all || i % 2 == 0 {
                            // a fresh poll has 128 units: leave one
                            for _ in 0..127 {
                                tokio::task::coop::consume_budget().await;
                            }
                        }
                        lim.check(src, cost as usize).await
                    })
                })
                .collect();
            let mut g = 0;
            for h in hs {
                if h.await.unwrap_or(false) {
                    g += 1;
                }
            }
            g
        });
        max_round = max_round.max(g);
        for _ in 0..g {
            grants.push((now, cost));
        }
    }
    let mut out = vec![];
    for i in 0..grants.len() {
        let mut sum = 0u64;
        for j in i..grants.len() {
            sum += grants[j].1 as u64;
            let dt = grants[j].0 - grants[i].0;
            let bound = 2 * b as u64 + 2 * r as u64 * (dt + 1) + 2 * (kmax - 1) * cmax;
            if sum > bound {
                out.push(("volume-bound", format!("{sum} tokens granted within {dt}s to one source whose queries are checked up to {kmax} at a time; bound is 2x{b} + 2x{r}x({dt}+1) + overdraft 2x({kmax}-1)x{cmax} = {bound}")));
                return (out, max_round);
            }
        }
    }
    (out, max_round)
}

fn concurrent_part(rep: &mut Report, thorough: bool) -> (u64, Value) {
    let (b, r) = RateLimiter::params();
    let alpha = round_alphabet(thorough);
    let depth = if thorough { 4 } else { 3 };
    let n = alpha.len();
    let src: IpAddr = "192.0.2.77".parse().unwrap();
    // thorough: the last position only over the rounds that can add volume at once (gap > 0 adds
    // nothing a shorter history does not show) -- no: keep the full product, it is affordable
    let firsts: Vec<usize> = (0..n).collect();
    let results: Vec<(u64, usize, Vec<Violation>)> = firsts
        .par_iter()
        .map(|first| {
            let mut count = 0u64;
            let mut maxg = 0usize;
            let mut viols: Vec<Violation> = vec![];
            let mut idx = vec![0usize; depth - 1];
            loop {
                let mut h = vec![alpha[*first]];
                h.extend(idx.iter().map(|i| alpha[*i]));
                // every prefix is a history of its own (the window oracle covers them all at once)
                let (vs, g) = run_rounds(&h, b, r, src);
                count += 1;
                maxg = maxg.max(g);
                for (oracle, what) in vs {
                    if viols.is_empty() {
                        let hist: Vec<Value> = h.iter().map(|x| json!([x.tasks, x.cost, x.all, x.gap])).collect();
                        viols.push(Violation::new(oracle, format!("rounds (tasks, cost, all-yield, gap s) {}: {what}", serde_json::to_string(&hist).unwrap_or_default()), json!({"engine":"c16","part":"concurrent","rounds":hist})).sig("part", "concurrent"));
                    }
                }
                let mut pos = idx.len();
                loop {
                    if pos == 0 {
                        return (count, maxg, viols);
                    }
                    pos -= 1;
                    idx[pos] += 1;
                    if idx[pos] < n {
                        break;
                    }
                    idx[pos] = 0;
                }
            }
        })
        .collect();
    let mut total = 0;
    let mut maxg = 0;
    let mut seen = false;
    for (c, g, vs) in results {
        total += c;
        maxg = maxg.max(g);
        for v in vs {
            if !seen {
                seen = true;
                rep.violation(v);
            }
        }
    }
    clock::unset();
    (total, json!({"histories": total, "rounds_per_history": depth, "round_alphabet": n, "largest_number_of_grants_in_one_round": maxg, "rule": "every history of this many rounds over {1, 2, 16 (thorough also 3, 8) tasks calling the real IpRateLimiter::check for one source at once} x {cost 200, 1000} x {every task / every second task yields between its check and its charge} x {gap 0, 500, 1000 s (thorough 0, 100, 1000, 3000)}; the yield is tokio's own (cooperative budget exhausted at the write lock); oracle: volume over every window <= 2B + 2R(dt+1) + 2(K-1)cost. largest_number_of_grants_in_one_round > 2 shows that checks really overlapped"}))
}

// ---------------------------------------------------------------------------
// Live service
// ---------------------------------------------------------------------------

const REFUSE_YAML: &str = "---
dns-listeners: {LISTENERS}
dns-routes:
  - domain-suffixes: ['']
    type: forward
    dns-servers: ['{UP0}']
acls:
  - match-subnets: ['127.0.0.99/32']
    apply-access: [dns-recursion]
";

pub fn cases(tier: &str) -> Vec<Value> {
    let mut out = vec![];
    out.push(json!({"engine":"enet","check":"c16","kind":"volume","pattern":"burst-then-quiet"}));
    out.push(json!({"engine":"enet","check":"c16","kind":"volume","pattern":"steady"}));
    out.push(json!({"engine":"enet","check":"c16","kind":"volume","pattern":"two-sources"}));
    // every arrival/advance history of length <= 3 (thorough 4) over 9 events
    let depth = if tier == "thorough" { 4 } else { 3 };
    let mut hs: Vec<Vec<usize>> = vec![vec![]];
    for _ in 0..depth {
        let mut next = vec![];
        for h in &hs {
            for e in 0..9usize {
                let mut g = h.clone();
                g.push(e);
                next.push(g);
            }
        }
        for h in &next {
            // histories ending in an advance observe nothing new
            if *h.last().unwrap() < 6 {
                out.push(json!({"engine":"enet","check":"c16","kind":"hist","events":h}));
                // the same history against a service with three listener sockets, the source's
                // queries spread over them: the bound is per SOURCE, however it reaches the server
                out.push(json!({"engine":"enet","check":"c16","kind":"hist","events":h,"listeners":3}));
            }
        }
        hs = next;
    }
    for cc in ["same", "other"] {
        for a in ["same", "other"] {
            for s in ["same", "other"] {
                for p in [0, 1, 2] {
                    for len in [40, 16, 8, 24] {
                        if tier != "thorough" && len == 24 {
                            continue;
                        }
                        out.push(json!({"engine":"enet","check":"c16","kind":"cookie","cc":cc,"addr":a,"server":s,"rotations":p,"len":len}));
                    }
                }
            }
        }
    }
    // forged cookies: a server part the attacker computes himself under a guessable key (all zero --
    // what a key is before it is initialised or after it is "cleared"), after idle gaps of several
    // key periods; never issued by this server, so never an exemption
    for key in ["zero", "ones"] {
        for idle_h in [0u64, 30, 50, 70, 100, 200] {
            for pre_rot in [0u64, 1] {
                out.push(json!({"engine":"enet","check":"c16","kind":"forged","key":key,"idle_hours":idle_h,"rotations":pre_rot}));
            }
        }
    }
    out
}

fn hmac_sha256(key: &[u8], msg: &[u8]) -> Vec<u8> {
    use sha2::Digest as _;
    let mut k = [0u8; 64];
    if key.len() > 64 {
        k[..32].copy_from_slice(&sha2::Sha256::digest(key));
    } else {
        k[..key.len()].copy_from_slice(key);
    }
    let ipad: Vec<u8> = k.iter().map(|b| b ^ 0x36).collect();
    let opad: Vec<u8> = k.iter().map(|b| b ^ 0x5c).collect();
    let mut h = sha2::Sha256::new();
    h.update(&ipad);
    h.update(msg);
    let inner = h.finalize();
    let mut h = sha2::Sha256::new();
    h.update(&opad);
    h.update(inner);
    h.finalize().to_vec()
}

fn run_forged(case: &Value) -> CaseResult {
    let (b, _r) = RateLimiter::params();
    let mut rig = match start_rig(vec!["127.0.0.1".into()]) {
        Ok(r) => r,
        Err(e) => return CaseResult::machinery(e),
    };
    let mut res = CaseResult::ok("cookie:forged");
    let src: IpAddr = "127.0.0.2".parse().unwrap();
    let other: IpAddr = "127.0.0.3".parse().unwrap();
    let dst = rig.listen_addr(0);
    let cc: Vec<u8> = vec![9, 8, 7, 6, 5, 4, 3, 2];
    // ordinary life before: some key uses, rotations driven by traffic
    for _ in 0..case["rotations"].as_u64().unwrap_or(0) {
        if let Ok(mut t) = TcpClient::connect(Some(other), dst) {
            let _ = t.conn.send_frame(&refused_query(9, "rotate.example", Some(vec![1, 1, 1, 1, 2, 2, 2, 2])));
            for _ in 0..100 {
                rig.pump(4);
                t.poll();
                if !t.conn.frames_in.is_empty() {
                    break;
                }
            }
        }
        rig.advance(Duration::from_secs(37 * 3600));
    }
    // then silence
    let idle = case["idle_hours"].as_u64().unwrap_or(0);
    if idle > 0 {
        rig.advance(Duration::from_secs(idle * 3600));
    }
    // empty the source's bucket so that only an exemption can produce a reply (these queries are
    // also the first key use after the silence)
    let mut c = match UdpClient::new(src) {
        Ok(c) => c,
        Err(e) => return CaseResult::machinery(e),
    };
    let _ = blast(&mut rig, &mut c, dst, 60, "drain");
    let (g, _) = blast(&mut rig, &mut c, dst, 3, "probe");
    if g != 0 {
        let _ = blast(&mut rig, &mut c, dst, 200, "drain2");
        let (g2, _) = blast(&mut rig, &mut c, dst, 3, "probe2");
        if g2 != 0 {
            let _ = rig.stop();
            return CaseResult::machinery(format!("cannot empty the limiter bucket (capacity {b}): {g2} of 3 probes answered"));
        }
    }
    let key: Vec<u8> = if case["key"].as_str() == Some("zero") { vec![0u8; 32] } else { vec![0xffu8; 32] };
    let mut msg = cc.clone();
    msg.extend_from_slice(&[127, 0, 0, 1]); // the address the query is sent to
    msg.extend_from_slice(&[127, 0, 0, 2]); // the address it comes from
    let mut presented = cc.clone();
    presented.extend_from_slice(&hmac_sha256(&key, &msg));
    let before = c.rx.len();
    let _ = c.send(dst, &refused_query(0x77, "forged.example", Some(presented)));
    rig.settle(|_| false);
    c.poll();
    rig.pump(10);
    c.poll();
    if c.rx.len() > before {
        res.violations.push(
            Violation::new("invalid-cookie-exempt", format!("a cookie whose server part was computed by the client under the all-{} key (never issued by this server) exempted it from the limiter, after {} traffic-driven rotation(s) and {idle} h of silence", case["key"].as_str().unwrap_or(""), case["rotations"]), case.clone())
                .sig("part", "cookie")
                .sig("forged", "yes"),
        );
    }
    let ps = rig.stop();
    if let Some(p) = ps.first() {
        res.violations.push(Violation::new("panic", format!("service task panicked: {} at {}", p.msg, panics::short_loc(&p.loc)), case.clone()).sig("loc", panics::short_loc(&p.loc)));
    }
    res.stats = json!({"live_cases": 1});
    res
}

/// a name of about `len` presentation octets (<= 253) ending in `base`
fn long_name(base: &str, len: usize) -> String {
    let mut n = base.to_string();
    while n.len() + 2 <= len.min(253) {
        let l = (len.min(253) - n.len() - 1).min(63);
        n = format!("{}.{}", "x".repeat(l), n);
    }
    n
}

fn sized_query(id: u16, name: &str, edns: bool) -> Vec<u8> {
    let opt = if edns { Some(rd::opt_rr(1232, 0, 0, false, vec![])) } else { None };
    rd::encode(&rd::query(id, &rd::name(name), rd::T_A, 1, true, opt), false)
}

fn refused_query(id: u16, name: &str, cookie: Option<Vec<u8>>) -> Vec<u8> {
    let opt = cookie.map(|c| rd::opt_rr(1232, 0, 0, false, vec![(10, c)])).or_else(|| Some(rd::opt_rr(1232, 0, 0, false, vec![])));
    rd::encode(&rd::query(id, &rd::name(name), rd::T_A, 1, true, opt), false)
}

fn start_rig(listeners: Vec<String>) -> Result<Rig, String> {
    let spec = RigSpec { listeners, n_upstreams: 1, yaml: REFUSE_YAML.into() };
    let mut rig = Rig::start(&spec)?;
    rig.rt.block_on(erbium::dns::verif::reset_cookie_keys());
    Ok(rig)
}

/// send `n` REFUSED-provoking UDP queries from `c`, return (replies received, octets received)
fn blast(rig: &mut Rig, c: &mut UdpClient, dst: std::net::SocketAddr, n: usize, tag: &str) -> (usize, usize) {
    let before = c.rx.len();
    for i in 0..n {
        let _ = c.send(dst, &refused_query(i as u16, &format!("{tag}{i}.example"), None));
        rig.pump(6);
    }
    rig.settle(|_| false);
    c.poll();
    rig.pump(10);
    c.poll();
    let got = c.rx.len() - before;
    let bytes: usize = c.rx[before..].iter().map(|(b, _)| b.len()).sum();
    (got, bytes)
}

/// One arrival/advance history on the live service, reply sizes varied through the query name
/// and EDNS.  Events: 0..5 = a burst of K queries with (name length, EDNS) = (short,120,240)x(yes,no);
/// 6,7,8 = advance 1 s, 100 s, P+1 s.
const HIST_K: usize = 6;
const HIST_LENS: [usize; 3] = [0, 120, 240];
fn run_hist(case: &Value) -> CaseResult {
    let (b, r) = RateLimiter::params();
    let (b, r) = (b as usize, r as usize);
    let p = (b / r) as u64;
    let nl = case["listeners"].as_u64().unwrap_or(1) as usize;
    let mut rig = match start_rig(if nl >= 3 { vec!["127.0.0.1".into(), "127.0.0.3".into(), "127.0.0.4".into()] } else { vec!["127.0.0.1".into()] }) {
        Ok(r) => r,
        Err(e) => return CaseResult::machinery(e),
    };
    let mut res = CaseResult::ok("");
    let mk = |oracle: &str, what: String| Violation::new(oracle, what, case.clone()).sig("part", "live-hist").sig("listeners", if nl > 1 { "several" } else { "one" });
    let mut c = match UdpClient::new("127.0.0.2".parse().unwrap()) {
        Ok(c) => c,
        Err(e) => return CaseResult::machinery(e),
    };
    let evs: Vec<usize> = case["events"].as_array().map(|a| a.iter().filter_map(|x| x.as_u64()).map(|x| x as usize).collect()).unwrap_or_default();
    let mut now = 0u64;
    let mut last_arrival: Option<u64> = None;
    let mut sent: Vec<(u64, usize)> = vec![]; // (virtual second, octets) of every REFUSED received
    let mut cls = String::new();
    let mut qn = 0u16;
    for (step, e) in evs.iter().enumerate() {
        if *e >= 6 {
            let d = [1, 100, p + 1][*e - 6];
            rig.advance(Duration::from_secs(d));
            now += d;
            cls.push('t');
            continue;
        }
        let (len, edns) = (HIST_LENS[*e % 3], *e < 3);
        for k in 0..HIST_K {
            qn += 1;
            // every second query comes from a socket of its own (a new source port on the same
            // address): the bound is per source ADDRESS
            if qn % 2 == 0 {
                c = match UdpClient::new("127.0.0.2".parse().unwrap()) {
                    Ok(c) => c,
                    Err(e) => return CaseResult::machinery(e),
                };
            }
            let before = c.rx.len();
            let q = sized_query(qn, &long_name(&format!("h{qn}.example"), len), edns);
            let dst = rig.listen_addr(if nl > 1 { qn as usize % nl } else { 0 });
            let _ = c.send(dst, &q);
            rig.pump(6);
            rig.settle(|_| false);
            c.poll();
            rig.pump(10);
            c.poll();
            let got = c.rx.len() - before;
            for (bytes, _) in &c.rx[before..] {
                sent.push((now, bytes.len()));
                if let Ok((m, _)) = rd::decode(bytes) {
                    if m.rcode() != 5 {
                        res.violations.push(mk("refused-rcode", format!("expected REFUSED, got rcode {}", m.rcode())));
                    }
                }
                if bytes.len() < q.len() {
                    // the octet bound below presumes reply >= query (the cost 2*reply-query >= reply)
                    return CaseResult::machinery(format!("REFUSED of {} octets for a query of {} octets: harness assumption reply >= query broken", bytes.len(), q.len()));
                }
            }
            if got > 1 {
                res.violations.push(mk("duplicate-reply", format!("{got} replies to one query")));
            }
            let idle = last_arrival.map(|t| now - t >= p).unwrap_or(true);
            if idle && k == 0 && got != 1 {
                res.violations.push(mk("quiet-client-silence", format!("events {evs:?} step {step}: source silent for {} (refill period {p}s) got {got} replies to a refused query with a {len}-octet name (edns {edns})", last_arrival.map(|t| format!("{}s", now - t)).unwrap_or("ever".into()))));
            }
            cls.push(if got == 1 { 'G' } else { 'd' });
            last_arrival = Some(now);
        }
    }
    // every window: octets of REFUSED sent to this source <= 2B + 2R x (dt+1)
    'w: for i in 0..sent.len() {
        let mut sum = 0usize;
        for j in i..sent.len() {
            sum += sent[j].1;
            let dt = (sent[j].0 - sent[i].0) as usize;
            let bound = 2 * b + 2 * r * (dt + 1);
            if sum > bound {
                res.violations.push(mk("volume-bound", format!("events {evs:?}: {sum} octets of REFUSED ({} replies) sent to one source within {dt}s, bound 2x{b}+2x{r}x({dt}+1)={bound}", j - i + 1)));
                break 'w;
            }
        }
    }
    let ps = rig.stop();
    if let Some(p) = ps.first() {
        res.violations.push(mk("panic", format!("service task panicked: {} at {}", p.msg, panics::short_loc(&p.loc))));
    }
    res.class = format!("hist:{}", cls.chars().filter(|c| *c != 't').collect::<String>());
    res.stats = json!({"live_cases": 1});
    res
}

fn run_volume(case: &Value) -> CaseResult {
    let (b, r) = RateLimiter::params();
    let (b, r) = (b as usize, r as usize);
    let mut rig = match start_rig(vec!["127.0.0.1".into()]) {
        Ok(r) => r,
        Err(e) => return CaseResult::machinery(e),
    };
    let dst = rig.listen_addr(0);
    let mut res = CaseResult::ok(format!("volume:{}", case["pattern"].as_str().unwrap_or("")));
    let mk = |oracle: &str, what: String| Violation::new(oracle, what, case.clone()).sig("part", "live").sig("min_cost_gt_capacity", 200 > b);
    let mut c = match UdpClient::new("127.0.0.2".parse().unwrap()) {
        Ok(c) => c,
        Err(e) => return CaseResult::machinery(e),
    };
    let mut log = vec![];
    match case["pattern"].as_str() {
        Some("burst-then-quiet") => {
            // quiet client: its first refused query must be answered
            let (g, bytes) = blast(&mut rig, &mut c, dst, 1, "first");
            log.push(("first", g, bytes));
            if g != 1 {
                res.violations.push(mk("quiet-client-silence", format!("a source that never sent anything got {g} REFUSED replies to its first refused query (limiter capacity {b}, minimum charge 200)")));
            } else if let Ok((m, _)) = rd::decode(&c.rx[0].0) {
                if m.rcode() != 5 {
                    res.violations.push(mk("refused-rcode", format!("expected REFUSED, got rcode {}", m.rcode())));
                }
            }
            // burst: 100 queries at once; volume bounded by the burst
            let (g, bytes) = blast(&mut rig, &mut c, dst, 100, "burst");
            log.push(("burst100", g, bytes));
            if bytes > 2 * b + 2 * r {
                res.violations.push(mk("volume-bound", format!("{bytes} octets of REFUSED sent to one source in one instant, bound 2x{b}+2x{r}")));
            }
            if g >= 100 {
                res.violations.push(mk("not-limited", "100 refused queries in one instant were all answered".into()));
            }
            // quiet for more than the refill period: answered again
            rig.advance(Duration::from_secs((b / r) as u64 + 1));
            let (g, bytes) = blast(&mut rig, &mut c, dst, 1, "after");
            log.push(("after-refill-period", g, bytes));
            if g != 1 {
                res.violations.push(mk("quiet-client-silence", format!("after {}s of silence (refill period {}s) the next refused query got {g} replies", b / r + 1, b / r)));
            }
        }
        Some("steady") => {
            // one query per second for 3 refill periods: volume <= burst + rate x time
            let secs = 3 * (b / r).min(200) as u64;
            let mut total = 0usize;
            let mut n = 0;
            for s in 0..secs {
                let (g, bytes) = blast(&mut rig, &mut c, dst, 2, &format!("s{s}x"));
                n += g;
                total += bytes;
                rig.advance(Duration::from_secs(1));
            }
            log.push(("steady", n, total));
            let bound = 2 * b + 2 * r * (secs as usize + 1);
            if total > bound {
                res.violations.push(mk("volume-bound", format!("{total} octets of REFUSED sent in {secs}s, bound 2x{b}+2x{r}x({secs}+1)={bound}")));
            }
        }
        _ => {
            // another source is not starved by the first one's burst (separate buckets with overwhelming probability)
            let (g1, _) = blast(&mut rig, &mut c, dst, 50, "a");
            let mut c2 = match UdpClient::new("127.0.0.3".parse().unwrap()) {
                Ok(c) => c,
                Err(e) => return CaseResult::machinery(e),
            };
            let (g2, bytes2) = blast(&mut rig, &mut c2, dst, 1, "b");
            log.push(("source-a", g1, 0));
            log.push(("source-b-first", g2, bytes2));
            if g2 != 1 {
                res.violations.push(mk("quiet-client-silence", format!("a second, silent source got {g2} replies to its first refused query after another source's burst")));
            }
        }
    }
    let ps = rig.stop();
    if let Some(p) = ps.first() {
        res.violations.push(mk("panic", format!("service task panicked: {} at {}", p.msg, panics::short_loc(&p.loc))));
    }
    res.stats = json!({"live_cases": 1});
    let _ = log;
    res
}

fn run_cookie(case: &Value) -> CaseResult {
    let (b, _r) = RateLimiter::params();
    let mut rig = match start_rig(vec!["127.0.0.1".into(), "127.0.0.9".into()]) {
        Ok(r) => r,
        Err(e) => return CaseResult::machinery(e),
    };
    let mut res = CaseResult::ok("");
    let a: IpAddr = "127.0.0.2".parse().unwrap();
    let a_other: IpAddr = "127.0.0.3".parse().unwrap();
    let cc: Vec<u8> = vec![1, 2, 3, 4, 5, 6, 7, 8];
    let cc_other: Vec<u8> = vec![8, 7, 6, 5, 4, 3, 2, 1];
    // 1. obtain a server cookie for (cc, a, listener 0) over TCP (no limiter on TCP)
    let mut t = match TcpClient::connect(Some(a), rig.listen_addr(0)) {
        Ok(t) => t,
        Err(e) => return CaseResult::machinery(e),
    };
    let _ = t.conn.send_frame(&refused_query(7, "cookie.example", Some(cc.clone())));
    let mut server_cookie: Option<Vec<u8>> = None;
    for _ in 0..300 {
        rig.pump(4);
        t.poll();
        if let Some(f) = t.conn.frames_in.first() {
            if let Ok((m, _)) = rd::decode(f) {
                if let Some(o) = m.opt() {
                    if let rd::Rdata::Opt(opts) = &o.rdata {
                        server_cookie = opts.iter().find(|(c, _)| *c == 10).map(|(_, d)| d.clone());
                    }
                }
            }
            break;
        }
    }
    let Some(full) = server_cookie else {
        let ps = rig.stop();
        res.violations.push(Violation::new("no-server-cookie", format!("a query carrying a client cookie got no server cookie back{}", ps.first().map(|p| format!(" (panic: {} at {})", p.msg, panics::short_loc(&p.loc))).unwrap_or_default()), case.clone()));
        return res;
    };
    if full.len() < 16 || full[..8] != cc[..] {
        let _ = rig.stop();
        res.violations.push(Violation::new("server-cookie-shape", format!("COOKIE option in the reply is {} octets / does not echo the client cookie", full.len()), case.clone()));
        return res;
    }
    // 2. key rotations: a rotation happens lazily on the first query after the (24..36 h) period
    let rotations = case["rotations"].as_u64().unwrap_or(0);
    for _ in 0..rotations {
        rig.advance(Duration::from_secs(37 * 3600));
        // a query in each period (triggers the lazy rotation)
        let mut t2 = match TcpClient::connect(Some(a_other), rig.listen_addr(0)) {
            Ok(t) => t,
            Err(e) => return CaseResult::machinery(e),
        };
        let _ = t2.conn.send_frame(&refused_query(9, "rotate.example", Some(cc_other.clone())));
        for _ in 0..200 {
            rig.pump(4);
            t2.poll();
            if !t2.conn.frames_in.is_empty() {
                break;
            }
        }
    }
    // 3. the presenting source's bucket must be empty so that only an exemption gets a reply
    let (src, li): (IpAddr, usize) = (if case["addr"].as_str() == Some("same") { a } else { a_other }, if case["server"].as_str() == Some("same") { 0 } else { 1 });
    let dst = rig.listen_addr(li);
    let mut c = match UdpClient::new(src) {
        Ok(c) => c,
        Err(e) => return CaseResult::machinery(e),
    };
    let _ = blast(&mut rig, &mut c, dst, 60, "drain");
    let (g, _) = blast(&mut rig, &mut c, dst, 3, "probe");
    if g != 0 {
        // bucket not empty: cannot distinguish exemption from an ordinary grant; drain more
        let _ = blast(&mut rig, &mut c, dst, 200, "drain2");
        let (g2, _) = blast(&mut rig, &mut c, dst, 3, "probe2");
        if g2 != 0 {
            let _ = rig.stop();
            return CaseResult::machinery(format!("cannot empty the limiter bucket (capacity {b}): {g2} of 3 probes answered"));
        }
    }
    // 4. present the cookie
    let len = case["len"].as_u64().unwrap_or(40) as usize;
    let mut presented = if case["cc"].as_str() == Some("same") { cc.clone() } else { cc_other.clone() };
    presented.extend_from_slice(&full[8..]);
    presented.truncate(len.min(presented.len()));
    let before = c.rx.len();
    let _ = c.send(dst, &refused_query(0x99, "present.example", Some(presented.clone())));
    rig.settle(|_| false);
    c.poll();
    rig.pump(10);
    c.poll();
    let exempt = c.rx.len() > before;
    let want = case["cc"].as_str() == Some("same") && case["addr"].as_str() == Some("same") && case["server"].as_str() == Some("same") && rotations <= 1 && presented.len() == full.len();
    res.class = format!("cookie:{}", if want { "exempt" } else { "not-exempt" });
    if exempt != want {
        res.violations.push(
            Violation::new(
                if want { "valid-cookie-not-exempt" } else { "invalid-cookie-exempt" },
                format!("cookie presented with client-cookie={} source={} server-address={} after {} key rotation(s), {} of {} octets: exempt={exempt}, expected {want}", case["cc"], case["addr"], case["server"], rotations, presented.len(), full.len()),
                case.clone(),
            )
            .sig("part", "cookie"),
        );
    }
    let ps = rig.stop();
    if let Some(p) = ps.first() {
        res.violations.push(Violation::new("panic", format!("service task panicked: {} at {}", p.msg, panics::short_loc(&p.loc)), case.clone()).sig("loc", panics::short_loc(&p.loc)));
    }
    res.stats = json!({"live_cases": 1});
    res
}

pub fn run_case(case: &Value) -> CaseResult {
    match case["kind"].as_str() {
        Some("volume") => run_volume(case),
        Some("hist") => run_hist(case),
        Some("forged") => run_forged(case),
        _ => run_cookie(case),
    }
}

pub fn run(tier: &str, replay: Option<Value>) -> ! {
    let mut rep = Report::new("C16", if replay.is_some() { "quick" } else { tier }, "model_checking");
    if let Some(case) = replay {
        rep.replay_mode = true;
        let case = if case.get("case").is_some() { case["case"].clone() } else { case };
        if case["engine"].as_str() == Some("enet") {
            netrun::replay_one(&mut rep, &case, run_case);
        } else if case["part"].as_str() == Some("concurrent") {
            let (b, r) = RateLimiter::params();
            let h: Vec<Round> = case["rounds"].as_array().cloned().unwrap_or_default().iter().map(|x| Round { tasks: x[0].as_u64().unwrap_or(1) as usize, cost: x[1].as_u64().unwrap_or(200) as u32, all: x[2].as_bool().unwrap_or(true), gap: x[3].as_u64().unwrap_or(0) }).collect();
            let (vs, g) = run_rounds(&h, b, r, "192.0.2.77".parse().unwrap());
            eprintln!("  rounds {:?} -> largest number of grants in one round {g}", h);
            for (o, w) in vs {
                rep.violation(Violation::new(o, w, case.clone()).sig("part", "concurrent"));
            }
            clock::unset();
        } else {
            let (b, r) = RateLimiter::params();
            let alphabet = ops(b, r);
            let h: Vec<usize> = case["history"].as_array().map(|a| a.iter().filter_map(|x| x.as_u64()).map(|x| x as usize).collect()).unwrap_or_default();
            let (vs, cls) = run_history(&h, &alphabet, b, r, "192.0.2.77".parse().unwrap());
            eprintln!("  history {:?} -> {cls}", h.iter().map(|i| format!("{:?}", alphabet[*i])).collect::<Vec<_>>());
            for (o, w) in vs {
                rep.violation(Violation::new(o, w, case.clone()).sig("part", "function").sig("min_cost_gt_capacity", 200 > b));
            }
        }
        rep.finish();
    }
    let (n, classes, samples) = function_part(&mut rep, tier == "thorough");
    let (n_conc, conc) = concurrent_part(&mut rep, tier == "thorough");
    rep.cov("overlapping_checks", conc);
    let n = n + n_conc;
    let agg = netrun::run_sharded(&mut rep, "C16", tier, cases, 16);
    rep.cov("states", classes.max(1));
    rep.cov("transitions", n);
    rep.cov("traces_validated_against_impl", n + agg.executions);
    rep.cov("evaluations", n + agg.executions);
    rep.cov("distinct_nontrivial", classes + agg.classes.len() as u64);
    rep.cov("rule", "limiter: every history of length <= 6 (thorough 8) over {arrival with cost min, min+100, capacity, capacity+1; advance 1, 10, P-1, P, P+1, 2P s} (P = capacity/rate, read from the code) executed on a fresh real IpRateLimiter under the virtual clock; states = distinct grant/deny patterns. live: every arrival/advance history of length <= 3 (thorough 4) over {burst of 6 queries with name length short/120/240 x EDNS yes/no; advance 1, 100, P+1 s} on a fresh real service, REFUSED datagrams counted and sized at the client (every second query from a new source port on the same address), every window judged in octets; 3 long volume patterns; and the full cookie matrix (client cookie x source x server address x 0/1/2 key rotations x cookie length) on the real service; forged cookies (server part computed by the client under the all-zero / all-ones key) after 0/1 traffic-driven rotations and 0..200 h of silence");
    rep.cov("exhaustive", true);
    rep.cov("live_executions", agg.executions);
    rep.cov("live_classes", json!(agg.classes));
    rep.cov("samples", samples);
    rep.assume("per source two of 256 buckets: burst 2B, rate 2R; queries of one source whose checks overlap (checked before any of them is charged) may overdraw a bucket by (K-1) x cost, which is then owed: the window bound of the overlapping part carries that term; true parallelism between worker threads is reduced to this await-granularity overlap");
    rep.assume("whether a cookie the server DID issue is still honoured after a silent gap spanning several rotation periods is don't-care (rotation is lazy); a cookie it never issued is never honoured, whatever the gap");
    rep.finish()
}
