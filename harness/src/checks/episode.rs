//! Upstream-TCP episodes: one exchange whose upstream leg runs over TCP and goes badly in TIME
//! (the upstream answers late, or closes the connection without answering, after D seconds),
//! followed by further exchanges on the same service.  One runner, three judges: the same
//! observations are what C04 (a TCP reply that fits is complete), C05 (nothing an upstream sends,
//! whenever it sends it, stops the service) and C07 (exactly one reply, one's own) each speak about.
//!
//! Shape of a history (one service instance, one upstream, paused clock):
//!   q1   first query, from a UDP client (the upstream's UDP reply is truncated: two of the six
//!        records, TC set -- the forwarder retries over TCP) or from a TCP client;
//!   E    the upstream's TCP side: answer in full after D s, or close without an answer after D s;
//!   ...  time runs on to 130 s after q1 reached the upstream (past the forwarder's own timers);
//!   f*   follow-ups, default environment: the same question over TCP, another one over TCP,
//!        another one over UDP (again truncated over UDP, answered in full over TCP).
use crate::common::panics;
use crate::common::report::Violation;
use crate::enet::{BASE_YAML, Rig, RigSpec, TcpClient, UdpClient};
use crate::refdns::{self as rd, Msg, Rdata, Rr};
use serde_json::{Value, json};
use std::net::{IpAddr, SocketAddr};
use std::time::Duration;

pub const FULL_RECORDS: usize = 6;
pub const PARTIAL_RECORDS: usize = 2;
/// Delays stay below the forwarder's own upstream-connection time-out (120 s): an answer that
/// comes later than that is, for any forwarder with a time-out, a lost answer.
pub const MAX_DELAY_S: u64 = 118;

pub fn delays(thorough: bool) -> Vec<u64> {
    if thorough { (0..=MAX_DELAY_S).collect() } else { vec![0, 4, 6, 30, 61, 100] }
}

pub fn cases(check: &str, thorough: bool) -> Vec<Value> {
    let mut out = vec![];
    for c1 in ["udp", "tcp"] {
        for action in ["reply", "close"] {
            for d in delays(thorough) {
                out.push(json!({"engine":"enet","check":check,"kind":"episode","c1":c1,"action":action,"after_s":d}));
            }
        }
    }
    out
}

fn records(qn: &rd::Name, n: usize) -> Vec<Rr> {
    let h = crate::common::util::fnv64(rd::name_str(qn).to_ascii_lowercase().as_bytes());
    (0..n).map(|i| Rr { name: qn.clone(), rtype: rd::T_A, class: 1, ttl: 300, rdata: Rdata::Raw(vec![10, (h >> 8) as u8, h as u8, i as u8 + 1]) }).collect()
}

fn reply_to(q: &Msg, n: usize, tc: bool) -> Vec<u8> {
    let qn = q.question[0].0.clone();
    let m = Msg { id: q.id, flags: 0x8180 | if tc { 0x0200 } else { 0 }, question: q.question.clone(), answer: records(&qn, n), authority: vec![], additional: vec![rd::opt_rr(1232, 0, 0, false, vec![])] };
    rd::encode(&m, true)
}

#[derive(Clone, Debug)]
pub struct QObs {
    pub label: &'static str,
    pub name: String,
    pub transport: &'static str,
    /// (virtual ms since q1 reached the upstream, decoded reply) in arrival order
    pub replies: Vec<(i64, Msg)>,
    pub undecodable: usize,
    pub closed_without_reply: bool,
}

pub struct Obs {
    pub q1: QObs,
    pub followups: Vec<QObs>,
    pub panics: Vec<panics::PanicInfo>,
    /// the upstream's late answer could be written to the connection (it was still open)
    pub late_reply_delivered: bool,
    pub upstream_tcp_queries: usize,
}

enum Client {
    Udp(UdpClient),
    Tcp(TcpClient),
}

struct Pending {
    obs: QObs,
    client: Client,
    udp_taken: usize,
}

fn send_query(rig: &Rig, label: &'static str, name: &str, transport: &'static str, id: u16) -> Result<Pending, String> {
    let q = rd::query(id, &rd::name(name), rd::T_A, 1, true, Some(rd::opt_rr(1232, 0, 0, false, vec![])));
    let b = rd::encode(&q, false);
    let to: SocketAddr = rig.listen_addr(0);
    let cip: IpAddr = "::1".parse().unwrap();
    let client = if transport == "udp" {
        let c = UdpClient::new(cip)?;
        c.send(to, &b)?;
        Client::Udp(c)
    } else {
        let mut c = TcpClient::connect(None, to)?;
        c.conn.send_frame(&b)?;
        Client::Tcp(c)
    };
    Ok(Pending { obs: QObs { label, name: name.into(), transport, replies: vec![], undecodable: 0, closed_without_reply: false }, client, udp_taken: 0 })
}

fn poll_client(p: &mut Pending, now_ms: i64) {
    let mut raw: Vec<Vec<u8>> = vec![];
    match &mut p.client {
        Client::Udp(c) => {
            c.poll();
            while p.udp_taken < c.rx.len() {
                raw.push(c.rx[p.udp_taken].0.clone());
                p.udp_taken += 1;
            }
        }
        Client::Tcp(c) => {
            c.poll();
            raw.append(&mut c.conn.frames_in);
            if c.conn.eof && p.obs.replies.is_empty() && raw.is_empty() {
                p.obs.closed_without_reply = true;
            }
        }
    }
    for b in raw {
        match rd::decode(&b) {
            Ok((m, _)) => p.obs.replies.push((now_ms, m)),
            Err(_) => p.obs.undecodable += 1,
        }
    }
}

/// The upstream's default behaviour: every UDP query for a name in `tc_names` gets the truncated
/// reply, every other UDP query and every TCP query the full one -- except TCP queries for
/// `hold`, which are left to the episode.  Returns the (connection, frame) of a held query.
struct Up {
    udp_seen: usize,
    tcp_seen: Vec<usize>,
    tcp_queries: usize,
}

fn serve(rig: &mut Rig, up: &mut Up, tc_names: &[String], hold: Option<&str>) -> Result<Option<(usize, Msg)>, String> {
    let mut held = None;
    rig.poll_upstreams();
    let u = &mut rig.upstreams[0];
    while up.udp_seen < u.udp_rx.len() {
        let (b, from) = u.udp_rx[up.udp_seen].clone();
        up.udp_seen += 1;
        let Ok((q, _)) = rd::decode(&b) else { continue };
        if q.question.is_empty() {
            continue;
        }
        let name = rd::name_str(&q.question[0].0).to_ascii_lowercase();
        let tc = tc_names.iter().any(|n| *n == name);
        u.udp_reply(from, &reply_to(&q, if tc { PARTIAL_RECORDS } else { FULL_RECORDS }, tc))?;
    }
    while up.tcp_seen.len() < u.conns.len() {
        up.tcp_seen.push(0);
    }
    for ci in 0..u.conns.len() {
        while up.tcp_seen[ci] < u.conns[ci].frames_in.len() {
            let b = u.conns[ci].frames_in[up.tcp_seen[ci]].clone();
            up.tcp_seen[ci] += 1;
            up.tcp_queries += 1;
            let Ok((q, _)) = rd::decode(&b) else { continue };
            if q.question.is_empty() {
                continue;
            }
            let name = rd::name_str(&q.question[0].0).to_ascii_lowercase();
            if hold == Some(name.as_str()) {
                held = Some((ci, q));
                continue;
            }
            if !u.conns[ci].eof {
                let _ = u.conns[ci].send_frame(&reply_to(&q, FULL_RECORDS, false));
            }
        }
    }
    Ok(held)
}

pub fn run(case: &Value) -> Result<Obs, String> {
    let spec = RigSpec { listeners: vec!["::1".into()], n_upstreams: 1, yaml: BASE_YAML.into() };
    let mut rig = Rig::start(&spec)?;
    let c1: &'static str = if case["c1"].as_str() == Some("tcp") { "tcp" } else { "udp" };
    let action = case["action"].as_str().unwrap_or("reply").to_string();
    let after = case["after_s"].as_u64().unwrap_or(0);
    let q1name = "ep.example";
    let tc_names: Vec<String> = vec![q1name.to_string(), "other-udp.example".to_string()];
    let mut up = Up { udp_seen: 0, tcp_seen: vec![], tcp_queries: 0 };
    let mut p1 = send_query(&rig, "q1", q1name, c1, 0x5101)?;
    // until q1 has reached the upstream over TCP
    let mut held: Option<(usize, Msg)> = None;
    for _ in 0..400 {
        rig.pump(2);
        if let Some(h) = serve(&mut rig, &mut up, &tc_names, Some(q1name))? {
            held = Some(h);
            break;
        }
        poll_client(&mut p1, 0);
    }
    let Some((ci, q_up)) = held else {
        let _ = rig.stop();
        return Err("the first query never reached the upstream over TCP".into());
    };
    // the episode, second by second, to 130 s
    let mut late_reply_delivered = false;
    let mut acted = false;
    for s in 0..=130u64 {
        if s > 0 {
            rig.advance(Duration::from_secs(1));
        }
        if !acted && s >= after {
            acted = true;
            rig.poll_upstreams();
            if action == "reply" {
                let c = &mut rig.upstreams[0].conns[ci];
                if !c.eof && c.send_frame(&reply_to(&q_up, FULL_RECORDS, false)).is_ok() {
                    late_reply_delivered = true;
                }
            } else {
                // close without an answer: shut the socket down (the Conn stays in the list so that
                // connection indices remain stable)
                let c = &mut rig.upstreams[0].conns[ci];
                let _ = c.stream.shutdown(std::net::Shutdown::Both);
                c.eof = true;
            }
        }
        rig.pump(3);
        // retransmissions of q1 over TCP (a new connection after a close) are held as well: the
        // episode is "this upstream does not answer this question in time"; after the action it
        // answers them like everything else
        let _ = serve(&mut rig, &mut up, &tc_names, if acted { None } else { Some(q1name) })?;
        rig.pump(2);
        poll_client(&mut p1, s as i64 * 1000);
    }
    // follow-ups, default environment
    let mut followups = vec![];
    for (i, (label, name, tr)) in [("same-question-tcp", q1name, "tcp"), ("other-tcp", "other-tcp.example", "tcp"), ("other-udp", "other-udp.example", "udp")].into_iter().enumerate() {
        let mut p = send_query(&rig, label, name, tr, 0x5200 + i as u16)?;
        for _ in 0..60 {
            rig.pump(3);
            let _ = serve(&mut rig, &mut up, &tc_names, None)?;
            poll_client(&mut p, 131_000 + i as i64 * 1000);
            if !p.obs.replies.is_empty() || p.obs.closed_without_reply {
                break;
            }
        }
        if p.obs.replies.is_empty() && !p.obs.closed_without_reply {
            // give the forwarder its full retry schedule before calling it silence
            for _ in 0..70 {
                rig.advance(Duration::from_secs(1));
                let _ = serve(&mut rig, &mut up, &tc_names, None)?;
                rig.pump(2);
                poll_client(&mut p, 131_000 + i as i64 * 1000);
                if !p.obs.replies.is_empty() || p.obs.closed_without_reply {
                    break;
                }
            }
        }
        // anything further (a second reply)
        rig.pump(4);
        poll_client(&mut p, 131_000 + i as i64 * 1000);
        followups.push(p.obs);
    }
    poll_client(&mut p1, 135_000);
    let upstream_tcp_queries = up.tcp_queries;
    let q1 = p1.obs.clone();
    drop(p1);
    let panics = rig.stop();
    Ok(Obs { q1, followups, panics, late_reply_delivered, upstream_tcp_queries })
}

fn describe(case: &Value) -> String {
    format!(
        "first query from a {} client; its upstream, asked over TCP, {} after {} s",
        case["c1"].as_str().unwrap_or(""),
        if case["action"].as_str() == Some("close") { "closes the connection without answering" } else { "answers in full" },
        case["after_s"]
    )
}

/// the records of `m`'s answer section are the first n records of the answer to its question
/// (TTLs aside: an answer served from the cache has aged)
fn own_records(m: &Msg) -> bool {
    if m.question.is_empty() {
        return false;
    }
    let want = records(&m.question[0].0, m.answer.len());
    m.answer.len() == want.len() && m.answer.iter().zip(want.iter()).all(|(a, b)| a.name.iter().map(|l| l.to_ascii_lowercase()).eq(b.name.iter().map(|l| l.to_ascii_lowercase())) && a.rtype == b.rtype && a.class == b.class && a.rdata == b.rdata && a.ttl <= b.ttl)
}

fn is_full_answer(m: &Msg) -> bool {
    m.rcode() == 0 && !m.tc() && m.answer.len() == FULL_RECORDS && own_records(m)
}

/// C05: nothing the upstream does -- whenever it does it -- may panic a task or leave the service
/// unable to answer the next well-formed request.
pub fn judge_c05(case: &Value, o: &Obs) -> Vec<Violation> {
    let mut vs = vec![];
    if let Some(p) = o.panics.first() {
        vs.push(Violation::new("live-panic", format!("{}: a service task panicked: {} at {}", describe(case), p.msg, panics::short_loc(&p.loc)), case.clone()).sig("part", "episode").sig("loc", panics::short_loc(&p.loc)));
    }
    for f in &o.followups {
        if !f.replies.iter().any(|(_, m)| m.rcode() == 0 && !m.answer.is_empty()) {
            vs.push(
                Violation::new("still-answers", format!("{}: afterwards a well-formed {} query for {} (upstream answering at once) got {}", describe(case), f.transport, f.name, match f.replies.first() { Some((_, m)) => format!("rcode {}", m.rcode()), None => "no reply".into() }), case.clone())
                    .sig("part", "episode")
                    .sig("followup", f.label),
            );
        }
    }
    vs
}

/// C07: exactly one reply per query, its own answer; SERVFAIL only where the environment lost the answer.
pub fn judge_c07(case: &Value, o: &Obs) -> Vec<Violation> {
    let mut vs = vec![];
    let mk = |oracle: &str, what: String, q: &QObs| Violation::new(oracle, format!("{}: {what}", describe(case)), case.clone()).sig("part", "episode").sig("query", q.label).sig("transport", q.transport);
    for q in std::iter::once(&o.q1).chain(o.followups.iter()) {
        if q.replies.len() != 1 {
            vs.push(mk("exactly-one-reply", format!("the {} query for {} received {} replies{}", q.transport, q.name, q.replies.len(), if q.closed_without_reply { " (its connection was closed)" } else { "" }), q).sig("replies", q.replies.len().min(2).to_string()));
            continue;
        }
        let m = &q.replies[0].1;
        let lost = q.label == "q1" && !(case["action"].as_str() == Some("reply") && o.late_reply_delivered);
        if m.rcode() == 2 && !lost {
            vs.push(mk("servfail-without-fault", format!("the {} query for {} was answered SERVFAIL after {} s although its upstream answer was delivered in full (over a connection the forwarder still had open)", q.transport, q.name, q.replies[0].0 / 1000), q));
        } else if m.rcode() == 0 && !m.tc() && !own_records(m) {
            vs.push(mk("own-answer", format!("the {} query for {} received records that are not the answer to its question", q.transport, q.name), q));
        } else if m.rcode() != 0 && m.rcode() != 2 {
            vs.push(mk("own-answer", format!("the {} query for {} was answered with rcode {}", q.transport, q.name, m.rcode()), q));
        }
    }
    if let Some(p) = o.panics.first() {
        vs.push(Violation::new("exactly-one-reply", format!("{}: a service task panicked: {} at {}", describe(case), p.msg, panics::short_loc(&p.loc)), case.clone()).sig("part", "episode").sig("panic_loc", panics::short_loc(&p.loc)));
    }
    vs
}

/// C04: a reply over TCP whose full answer fits the TCP limit is complete and not marked truncated;
/// the same for a UDP reply whose full answer fits what the client advertised (6 address records do).
pub fn judge_c04(case: &Value, o: &Obs) -> Vec<Violation> {
    let mut vs = vec![];
    for q in std::iter::once(&o.q1).chain(o.followups.iter()) {
        for (_, m) in &q.replies {
            if m.rcode() != 0 {
                continue; // an error reply is C07's subject
            }
            if !is_full_answer(m) {
                vs.push(
                    Violation::new(
                        "fits-but-truncated",
                        format!("{}: the {} query for {} was answered with TC={} and {} of the {} answer records, although the complete answer is some 150 octets", describe(case), q.transport, q.name, m.tc(), m.answer.len(), FULL_RECORDS),
                        case.clone(),
                    )
                    .sig("part", "episode")
                    .sig("query", q.label)
                    .sig("transport", q.transport),
                );
            }
        }
    }
    vs
}

pub fn stats(o: &Obs) -> Value {
    json!({"episodes": 1, "episode_queries": 1 + o.followups.len(), "episode_replies": o.q1.replies.len() + o.followups.iter().map(|f| f.replies.len()).sum::<usize>(), "episode_upstream_tcp_queries": o.upstream_tcp_queries})
}
