//! C11: DHCP policies select and override options exactly as the manual describes.
//! Configurations are written as YAML, loaded by the real loader, requests go through the real
//! handle_pkt; the reply's option map is compared with an independent model of erbium.conf(5).
use crate::common::panics;
use crate::common::report::{Report, Violation};
use erbium::dhcp::{self, dhcppkt, pool};
use rayon::prelude::*;
use serde_json::{Value, json};
use std::collections::BTreeMap;
use std::net::Ipv4Addr;

const M1: [u8; 6] = [2, 0, 0, 0, 0, 0x11];
const M2: [u8; 6] = [2, 0, 0, 0, 0, 0x22];
const IF_S1: &str = "192.0.2.1";
const IF_S2: &str = "198.51.100.1";
const IF_NONE: &str = "203.0.113.1";

#[derive(Clone, Copy, Debug, PartialEq, Eq, PartialOrd, Ord)]
pub enum Match {
    None,
    S1,
    S2,
    Chaddr1,
    HostH,
    HostNull,
    S1AndChaddr1,
}
const MATCHES: [Match; 7] = [Match::None, Match::S1, Match::S2, Match::Chaddr1, Match::HostH, Match::HostNull, Match::S1AndChaddr1];

#[derive(Clone, Debug, PartialEq)]
pub enum Apply {
    None,
    Dns(Vec<&'static str>),
    DnsNull,
    Domain(String),
    Mtu(u16),
    NetmaskNull,
    TzName(String),  // marker options used by the structure sweep
    RootPath(String),
}

#[derive(Clone, Debug)]
pub struct Node {
    pub m: Match,
    pub a: Vec<Apply>,
    pub kids: Vec<Node>,
}

#[derive(Clone, Debug)]
pub struct Req {
    pub serverip: &'static str,
    pub mac: [u8; 6],
    pub host: Option<&'static str>,
    pub params: Vec<u8>,
    pub if_mtu: Option<u32>,
    pub if_router: Option<&'static str>,
}

fn mac_str(m: &[u8; 6]) -> String {
    m.iter().map(|b| format!("{:02x}", b)).collect::<Vec<_>>().join(":")
}

impl Node {
    fn yaml(&self, indent: usize) -> String {
        let mut lines: Vec<String> = vec![];
        match self.m {
            Match::None => {}
            Match::S1 => lines.push("match-subnet: 192.0.2.0/24".into()),
            Match::S2 => lines.push("match-subnet: 198.51.100.0/24".into()),
            Match::Chaddr1 => lines.push(format!("match-hardware-address: {}", mac_str(&M1))),
            Match::HostH => lines.push("match-host-name: h".into()),
            Match::HostNull => lines.push("match-host-name: null".into()),
            Match::S1AndChaddr1 => {
                lines.push("match-subnet: 192.0.2.0/24".into());
                lines.push(format!("match-hardware-address: {}", mac_str(&M1)));
            }
        }
        for a in &self.a {
            match a {
                Apply::None => {}
                Apply::Dns(v) => lines.push(format!("apply-dns-servers: [{}]", v.join(", "))),
                Apply::DnsNull => lines.push("apply-dns-servers: null".into()),
                Apply::Domain(d) => lines.push(format!("apply-domain-name: {d}")),
                Apply::Mtu(m) => lines.push(format!("apply-mtu: {m}")),
                Apply::NetmaskNull => lines.push("apply-netmask: null".into()),
                Apply::TzName(s) => lines.push(format!("apply-tz-name: {s}")),
                Apply::RootPath(s) => lines.push(format!("apply-root-path: {s}")),
            }
        }
        let pad = " ".repeat(indent);
        let mut s = String::new();
        if lines.is_empty() && self.kids.is_empty() {
            return format!("{}- {{}}\n", " ".repeat(indent - 2));
        }
        let mut first = true;
        for l in lines {
            if first {
                s.push_str(&format!("{}- {l}\n", " ".repeat(indent - 2)));
                first = false;
            } else {
                s.push_str(&format!("{pad}{l}\n"));
            }
        }
        if !self.kids.is_empty() {
            if first {
                s.push_str(&format!("{}- policies:\n", " ".repeat(indent - 2)));
            } else {
                s.push_str(&format!("{pad}policies:\n"));
            }
            for k in &self.kids {
                s.push_str(&k.yaml(indent + 4));
            }
        }
        s
    }

    // ---- the model (erbium.conf(5))
    fn conditions_hold(&self, r: &Req) -> Option<bool> {
        // None = the policy has no conditions
        let s1 = r.serverip == IF_S1;
        let s2 = r.serverip == IF_S2;
        match self.m {
            Match::None => None,
            Match::S1 => Some(s1),
            Match::S2 => Some(s2),
            Match::Chaddr1 => Some(r.mac == M1),
            Match::HostH => Some(r.host == Some("h")),
            Match::HostNull => Some(r.host.is_none()),
            Match::S1AndChaddr1 => Some(s1 && r.mac == M1),
        }
    }
    fn applies(&self, r: &Req) -> bool {
        match self.conditions_hold(r) {
            Some(b) => b,
            // "A policy section that contains no matches only matches if one of its subpolicies matches."
            None => self.kids.iter().any(|k| k.applies(r)),
        }
    }
}

type Opts = BTreeMap<u8, Option<Vec<u8>>>;

fn apply_node(n: &Node, r: &Req, o: &mut Opts) {
    for a in &n.a {
        match a {
            Apply::None => {}
            Apply::Dns(v) => {
                o.insert(6, Some(v.iter().flat_map(|s| if *s == "$self4" { r.serverip.parse::<Ipv4Addr>().unwrap().octets() } else { s.parse::<Ipv4Addr>().unwrap().octets() }).collect()));
            }
            Apply::DnsNull => {
                o.insert(6, None);
            }
            Apply::Domain(d) => {
                o.insert(15, Some(d.as_bytes().to_vec()));
            }
            Apply::Mtu(m) => {
                o.insert(26, Some(m.to_be_bytes().to_vec()));
            }
            Apply::NetmaskNull => {
                o.insert(1, None);
            }
            Apply::TzName(s) => {
                o.insert(101, Some(s.as_bytes().to_vec()));
            }
            Apply::RootPath(s) => {
                o.insert(17, Some(s.as_bytes().to_vec()));
            }
        }
    }
    // sibling policies are tried in order, the first that applies is applied; inner overrides outer
    for k in &n.kids {
        if k.applies(r) {
            apply_node(k, r, o);
            break;
        }
    }
}

/// Model(config, request): Some(options) when a reply is expected, None when no reply is expected.
/// The second map holds options the manual leaves open for this case (not judged).
pub fn model(top: bool, nodes: &[Node], r: &Req) -> Option<(BTreeMap<u8, Vec<u8>>, Vec<u8>)> {
    let sip: Ipv4Addr = r.serverip.parse().unwrap();
    let in_s1 = r.serverip == IF_S1;
    let in_s2 = r.serverip == IF_S2;
    if !in_s1 && !in_s2 {
        return None; // no pool for this interface
    }
    let mut o: Opts = BTreeMap::new();
    let mut open: Vec<u8> = vec![];
    // top-level defaults
    if top {
        o.insert(6, Some([sip.octets(), [192, 0, 2, 53]].concat())); // [$self4, 192.0.2.53, (v6 skipped)]
        o.insert(119, Some([&[3u8][..], b"top", &[7], b"example", &[0], &[3], b"sub", &[3], b"org", &[0]].concat()));
        o.insert(114, Some(b"https://top.example/".to_vec()));
    } else {
        // loader default dns-servers = [$self4, $self6]
        o.insert(6, Some(sip.octets().to_vec()));
        // an empty search list: present-but-empty vs absent is not pinned down by the manual
        open.push(119);
    }
    // interface defaults of the matched subnet
    let (mask, bcast) = if in_s1 { ([255, 255, 255, 0], [192, 0, 2, 255]) } else { ([255, 255, 255, 0], [198, 51, 100, 255]) };
    o.insert(1, Some(mask.to_vec()));
    o.insert(28, Some(bcast.to_vec()));
    if let Some(m) = r.if_mtu {
        o.insert(26, Some((m as u16).to_be_bytes().to_vec()));
    }
    if let Some(rt) = r.if_router {
        o.insert(3, Some(rt.parse::<Ipv4Addr>().unwrap().octets().to_vec()));
    }
    // user policies: first applying sibling
    for n in nodes {
        if n.applies(r) {
            apply_node(n, r, &mut o);
            break;
        }
    }
    // only options the client asked for are sent; null removes
    let mut out = BTreeMap::new();
    for (k, v) in o {
        if let Some(v) = v {
            if r.params.contains(&k) {
                out.insert(k, v);
            }
        }
    }
    Some((out, open))
}

const ADDRS: &str = "addresses: [192.0.2.0/24, 198.51.100.0/24]\n";
/// Other ways of writing the same top-level address list: IPv6 prefixes in front of / between the
/// IPv4 ones, and the IPv4 ones swapped.  The meaning for DHCP is the same.
const ADDRS_VARIANTS: [&str; 4] = [
    ADDRS,
    "addresses: ['2001:db8:1::/64', 192.0.2.0/24, 198.51.100.0/24]\n",
    "addresses: [198.51.100.0/24, '2001:db8:1::/64', '2001:db8:2::/64', 192.0.2.0/24]\n",
    "addresses: [198.51.100.0/24, 192.0.2.0/24]\n",
];
thread_local! {
    static ADDRS_VARIANT: std::cell::Cell<usize> = const { std::cell::Cell::new(0) };
}
const TOP: &str = "dns-servers: [$self4, 192.0.2.53, '2001:db8::53']\ndns-search: [top.example, sub.org]\ncaptive-portal: 'https://top.example/'\n";

fn config_yaml(top: bool, nodes: &[Node]) -> String {
    let mut s = String::from("---\n");
    s.push_str(ADDRS_VARIANTS[ADDRS_VARIANT.with(|v| v.get())]);
    if top {
        s.push_str(TOP);
    }
    if !nodes.is_empty() {
        s.push_str("dhcp-policies:\n");
        for n in nodes {
            s.push_str(&n.yaml(4));
        }
    }
    s
}

fn mk_req(r: &Req, mtype: u8) -> dhcp::DHCPRequest {
    let mut other: std::collections::HashMap<dhcppkt::DhcpOption, Vec<u8>> = Default::default();
    other.insert(dhcppkt::OPTION_MSGTYPE, vec![mtype]);
    if !r.params.is_empty() {
        other.insert(dhcppkt::OPTION_PARAMLIST, r.params.clone());
    }
    if let Some(h) = r.host {
        other.insert(dhcppkt::OPTION_HOSTNAME, h.as_bytes().to_vec());
    }
    dhcp::DHCPRequest {
        pkt: dhcppkt::Dhcp { op: dhcppkt::OP_BOOTREQUEST, htype: dhcppkt::HWTYPE_ETHERNET, hlen: 6, hops: 0, xid: 7, secs: 0, flags: 0, ciaddr: [0, 0, 0, 0].into(), yiaddr: [0, 0, 0, 0].into(), siaddr: [0, 0, 0, 0].into(), giaddr: [0, 0, 0, 0].into(), chaddr: r.mac.to_vec(), sname: vec![], file: vec![], options: dhcppkt::DhcpOptions { other } },
        serverip: r.serverip.parse().unwrap(),
        ifindex: 1,
        if_mtu: r.if_mtu,
        if_router: r.if_router.map(|s| s.parse().unwrap()),
    }
}

fn judge_config(top: bool, nodes: &[Node], reqs: &[Req], family: &str) -> (u64, std::collections::BTreeSet<String>, Vec<Violation>) {
    let yaml = config_yaml(top, nodes);
    let mut classes = std::collections::BTreeSet::new();
    let case0 = json!({"engine":"c11","family":family,"yaml":yaml});
    let conf = match panics::catch(|| erbium::config::verif_load_config_from_string(&yaml)) {
        Ok(Ok(c)) => c,
        Ok(Err(e)) => return (0, classes, vec![Violation::new("config-rejected", format!("valid policy configuration rejected: {e}"), case0)]),
        Err(p) => return (0, classes, vec![Violation::new("load-panic", format!("loader panicked: {}", p.msg), case0)]),
    };
    let g = conf.try_read().expect("conf");
    let mut vs = vec![];
    let mut n = 0;
    crate::common::clock::set_secs(crate::ehist::NOW0 as u64);
    let mut p = pool::Pool::new_in_memory().expect("pool");
    for r in reqs {
        for mtype in [1u8, 3] {
            n += 1;
            let req = mk_req(r, mtype);
            let res = panics::catch(|| dhcp::handle_pkt(&mut p, &req, Default::default(), &g));
            let case = json!({"engine":"c11","family":family,"yaml":yaml,"request":{"serverip":r.serverip,"mac":mac_str(&r.mac),"host":r.host,"params":r.params,"if_mtu":r.if_mtu,"if_router":r.if_router,"type":mtype}});
            let want = model(top, nodes, r);
            match (res, want) {
                (Err(pi), _) => vs.push(Violation::new("handler-panic", format!("handle_pkt panicked: {} at {}", pi.msg, panics::short_loc(&pi.loc)), case).sig("loc", panics::short_loc(&pi.loc))),
                (Ok(Err(_)), None) => {
                    classes.insert("no-reply-expected".into());
                }
                (Ok(Err(e)), Some(_)) => vs.push(Violation::new("reply-missing", format!("no reply ({:?}) although the interface has a pool", e), case)),
                (Ok(Ok(_)), None) => vs.push(Violation::new("unexpected-reply", "a reply although no pool is configured for the receiving interface".to_string(), case)),
                (Ok(Ok(reply)), Some((want, open))) => {
                    use dhcppkt::Serialise as _;
                    let mut got: BTreeMap<u8, Vec<u8>> = BTreeMap::new();
                    for (k, v) in &reply.options.other {
                        let mut b = vec![];
                        k.serialise(&mut b);
                        if ![53u8, 54, 51].contains(&b[0]) {
                            got.insert(b[0], v.clone());
                        }
                    }
                    // open options: present-but-empty or absent are both fine
                    for k in &open {
                        if got.get(k).map(|v| v.is_empty()).unwrap_or(false) {
                            got.remove(k);
                        }
                    }
                    classes.insert(format!("reply:{}opts", want.len().min(6)));
                    if got != want {
                        let mut diffs = vec![];
                        for k in got.keys().chain(want.keys()).collect::<std::collections::BTreeSet<_>>() {
                            if got.get(k) != want.get(k) {
                                diffs.push(format!("option {k}: sent {:?}, manual says {:?}", got.get(k).map(|v| crate::common::util::hex(v)), want.get(k).map(|v| crate::common::util::hex(v))));
                            }
                        }
                        let optset: Vec<String> = got.keys().chain(want.keys()).filter(|k| got.get(k) != want.get(k)).map(|k| k.to_string()).collect::<std::collections::BTreeSet<_>>().into_iter().collect();
                        vs.push(Violation::new("options-differ", diffs.join("; "), case).sig("family", family).sig("options", optset.join(",")));
                    }
                }
            }
        }
    }
    (n, classes, vs)
}

fn requests(full: bool) -> Vec<Req> {
    let mut out = vec![];
    let plists: Vec<Vec<u8>> = if full { vec![vec![], vec![6], vec![1, 3, 6, 15, 17, 26, 28, 101, 114, 119]] } else { vec![vec![1, 3, 6, 15, 17, 26, 28, 101, 114, 119]] };
    for sip in [IF_S1, IF_S2, IF_NONE] {
        for mac in [M1, M2] {
            for host in [None, Some("h"), Some("x")] {
                for pl in &plists {
                    out.push(Req { serverip: sip, mac, host, params: pl.clone(), if_mtu: None, if_router: None });
                }
            }
        }
    }
    out
}

fn leaf(m: Match, id: &str, depth: usize) -> Node {
    // marker per depth: the reply shows which node applied at each depth
    let a = match depth {
        0 => Apply::Domain(format!("d{id}")),
        1 => Apply::TzName(format!("t{id}")),
        _ => Apply::RootPath(format!("r{id}")),
    };
    Node { m, a: vec![a], kids: vec![] }
}

fn structure_trees(thorough: bool) -> Vec<Vec<Node>> {
    // depth-2 nodes: a match + 0..2 children
    let mut level1: Vec<Node> = vec![];
    for (i, m) in MATCHES.iter().enumerate() {
        level1.push(leaf(*m, &format!("{i}"), 0));
        for (j, c) in MATCHES.iter().enumerate() {
            let mut n = leaf(*m, &format!("{i}"), 0);
            n.kids.push(leaf(*c, &format!("{i}{j}"), 1));
            level1.push(n.clone());
            for (k, c2) in MATCHES.iter().enumerate() {
                let mut n2 = n.clone();
                n2.kids.push(leaf(*c2, &format!("{i}{j}{k}b"), 1));
                level1.push(n2);
            }
        }
    }
    let mut out: Vec<Vec<Node>> = vec![vec![]];
    for a in &level1 {
        out.push(vec![a.clone()]);
    }
    // width 2 at the top: full product in thorough; quick pairs every node with every leaf-or-one-child node
    let second: Vec<&Node> = if thorough { level1.iter().collect() } else { level1.iter().filter(|n| n.kids.len() <= 1).collect() };
    for a in &level1 {
        for b in &second {
            let mut b2 = (*b).clone();
            // distinct markers for the second sibling
            rename(&mut b2, "s");
            out.push(vec![a.clone(), b2]);
        }
    }
    // depth-3 chains
    for (i, a) in MATCHES.iter().enumerate() {
        for (j, b) in MATCHES.iter().enumerate() {
            for (k, c) in MATCHES.iter().enumerate() {
                let mut n = leaf(*a, &format!("c{i}"), 0);
                let mut n1 = leaf(*b, &format!("c{i}{j}"), 1);
                n1.kids.push(leaf(*c, &format!("c{i}{j}{k}"), 2));
                n.kids.push(n1);
                out.push(vec![n]);
            }
        }
    }
    // width-3 sibling lists of leaves
    for (i, a) in MATCHES.iter().enumerate() {
        for (j, b) in MATCHES.iter().enumerate() {
            for (k, c) in MATCHES.iter().enumerate() {
                out.push(vec![leaf(*a, &format!("w{i}"), 0), leaf(*b, &format!("w{i}{j}"), 0), leaf(*c, &format!("w{i}{j}{k}"), 0)]);
                // and as children of a condition-less parent
                out.push(vec![Node { m: Match::None, a: vec![Apply::Domain("wrap".into())], kids: vec![leaf(*a, &format!("v{i}"), 1), leaf(*b, &format!("v{i}{j}"), 1), leaf(*c, &format!("v{i}{j}{k}"), 1)] }]);
            }
        }
    }
    out
}

fn rename(n: &mut Node, prefix: &str) {
    for a in n.a.iter_mut() {
        match a {
            Apply::Domain(s) | Apply::TzName(s) | Apply::RootPath(s) => *s = format!("{prefix}{s}"),
            _ => {}
        }
    }
    for k in n.kids.iter_mut() {
        rename(k, prefix);
    }
}

fn override_configs() -> Vec<(bool, Vec<Node>, Vec<Req>)> {
    let applies: Vec<Apply> = vec![Apply::None, Apply::Dns(vec!["192.0.2.99"]), Apply::Dns(vec!["$self4", "198.51.100.53"]), Apply::DnsNull, Apply::Domain("d.example".into()), Apply::Mtu(1400), Apply::NetmaskNull];
    let mut out = vec![];
    let plists: Vec<Vec<u8>> = vec![vec![], vec![6], vec![1, 6, 15], vec![1, 3, 6, 15, 26, 28, 114, 119]];
    let mut reqs = vec![];
    for sip in [IF_S1, IF_S2] {
        for (mtu, rt) in [(None, None), (Some(1500u32), Some("192.0.2.254")), (Some(9000), None)] {
            for pl in &plists {
                reqs.push(Req { serverip: sip, mac: M1, host: None, params: pl.clone(), if_mtu: mtu, if_router: rt });
            }
        }
    }
    for top in [false, true] {
        for a in &applies {
            // depth 1
            out.push((top, vec![Node { m: Match::S1, a: vec![a.clone()], kids: vec![] }], reqs.clone()));
            for b in &applies {
                // depth 2: outer then inner
                out.push((top, vec![Node { m: Match::S1, a: vec![a.clone()], kids: vec![Node { m: Match::Chaddr1, a: vec![b.clone()], kids: vec![] }] }], reqs.clone()));
                // outer without conditions (applies because its sub-policy does)
                out.push((top, vec![Node { m: Match::None, a: vec![a.clone()], kids: vec![Node { m: Match::S1, a: vec![b.clone()], kids: vec![] }] }], reqs.clone()));
                for c in &applies {
                    out.push((top, vec![Node { m: Match::S1, a: vec![a.clone()], kids: vec![Node { m: Match::None, a: vec![b.clone()], kids: vec![Node { m: Match::Chaddr1, a: vec![c.clone()], kids: vec![] }] }] }], reqs.clone()));
                }
                // two options in one policy
                if a != b && !matches!((a, b), (Apply::Dns(_), Apply::Dns(_)) | (Apply::Dns(_), Apply::DnsNull) | (Apply::DnsNull, Apply::Dns(_))) && *a != Apply::None && *b != Apply::None {
                    out.push((top, vec![Node { m: Match::HostNull, a: vec![a.clone(), b.clone()], kids: vec![] }], reqs.clone()));
                }
            }
        }
    }
    out
}

// ---------------------------------------------------------------------------
// catalogue: every option erbium.conf can name, one at a time
// ---------------------------------------------------------------------------

/// (name, code, kind) of every option a policy can set by name (erbium.conf(5) and the option table
/// of the DHCP codec, hand-copied; options the server sets itself -- 50, 51, 54, 56-59, 61 -- and
/// options without a value syntax are left out).
const CATALOGUE: [(&str, u8, &str); 66] = [
    ("netmask", 1, "Ip"), ("time-offset", 2, "I32"), ("routers", 3, "IpList"), ("time-servers", 4, "IpList"), ("name-servers", 5, "IpList"), ("dns-servers", 6, "IpList"), ("log-servers", 7, "IpList"), ("quote-servers", 8, "IpList"),
    ("lpr-servers", 9, "IpList"), ("impress-servers", 10, "IpList"), ("rlp-servers", 11, "IpList"), ("host-name", 12, "String"), ("domain-name", 15, "String"), ("root-path", 17, "String"), ("extension-file", 18, "String"),
    ("forward", 19, "Bool"), ("source-route", 20, "Bool"), ("max-reassembly", 21, "Seconds16"), ("default-ttl", 23, "U8"), ("mtu-timeout", 24, "Seconds32"), ("mtu", 26, "U16"), ("mtu-subnet", 27, "Bool"), ("broadcast", 28, "Ip"),
    ("mask-discovery", 29, "Bool"), ("mask-supplier", 30, "Bool"), ("router-discovery", 31, "Bool"), ("router-request", 32, "Ip"), ("trailers", 34, "Bool"), ("arp-timeout", 35, "Seconds32"), ("ethernet", 36, "Bool"), ("tcp-ttl", 37, "U16"),
    ("tcp-keepalive", 38, "Seconds32"), ("tcp-keepalive-garbage", 39, "Bool"), ("nis-domain", 40, "String"), ("nis-servers", 41, "IpList"), ("ntp-servers", 42, "IpList"), ("netbios-namesrv", 44, "IpList"), ("netbios-distsrv", 45, "IpList"),
    ("netbios-type", 46, "U8"), ("netbios-scope", 47, "String"), ("xwindow-font-servers", 48, "IpList"), ("xwindow-display", 49, "IpList"), ("class-id", 60, "String"), ("nisplus-domain", 64, "String"), ("nisplus-servers", 65, "IpList"),
    ("home-agent-servers", 68, "IpList"), ("smtp-servers", 69, "IpList"), ("pop3-servers", 70, "IpList"), ("nntp-servers", 71, "IpList"), ("www-servers", 72, "IpList"), ("finger-servers", 73, "IpList"), ("irc-servers", 74, "IpList"),
    ("streettalk-servers", 75, "IpList"), ("stda-servers", 76, "IpList"), ("user-class", 77, "String"), ("fqdn", 81, "String"), ("tz-rule", 100, "String"), ("tz-name", 101, "String"), ("autoconfig", 103, "Bool"),
    ("subnet-selection", 104, "Ip"), ("ipv6-preferred", 108, "Seconds32"), ("captive-portal", 114, "String"), ("dns-searches", 119, "DomainList"), ("routes", 121, "Routes"), ("wpad-url", 252, "String"),
    // the highest code again under a second spelling of the value, so that 66 entries are 66 checks
    ("wpad-url", 252, "String2"),
];

/// (YAML value, wire value) per kind, by the RFC 2132 / 3397 / 3442 encodings
fn catalogue_value(name: &str, kind: &str) -> (String, Vec<u8>) {
    match kind {
        "Ip" => ("192.0.2.77".into(), vec![192, 0, 2, 77]),
        "IpList" => ("[192.0.2.5, 192.0.2.6]".into(), vec![192, 0, 2, 5, 192, 0, 2, 6]),
        "String" => (format!("'s-{name}'"), format!("s-{name}").into_bytes()),
        "String2" => ("'http://wpad.example/wpad.dat'".into(), b"http://wpad.example/wpad.dat".to_vec()),
        "I32" => ("-3".into(), vec![0xff, 0xff, 0xff, 0xfd]),
        "U8" => ("7".into(), vec![7]),
        "U16" => ("1234".into(), vec![4, 210]),
        "Bool" => ("true".into(), vec![1]),
        "Seconds16" => ("90s".into(), vec![0, 90]),
        "Seconds32" => ("1h".into(), vec![0, 0, 0x0e, 0x10]),
        "DomainList" => ("[example.com]".into(), b"\x07example\x03com\x00".to_vec()),
        "Routes" => ("[{prefix: 10.0.0.0/8, next-hop: 192.0.2.1}]".into(), vec![8, 10, 192, 0, 2, 1]),
        k => panic!("catalogue kind {k}"),
    }
}

fn catalogue_yaml(name: &str, kind: &str) -> String {
    format!("---\ndhcp-policies:\n  - match-subnet: 192.0.2.0/24\n    apply-range: {{start: 192.0.2.10, end: 192.0.2.20}}\n    apply-{name}: {}\n", catalogue_value(name, kind).0)
}

fn catalogue_case(&(name, code, kind): &(&str, u8, &str)) -> (u64, Vec<Violation>) {
    let yaml = catalogue_yaml(name, kind);
    let want_bytes = catalogue_value(name, kind).1;
    let case0 = json!({"engine":"c11","family":"catalogue","yaml":yaml,"option":name,"kind":kind});
    let conf = match panics::catch(|| erbium::config::verif_load_config_from_string(&yaml)) {
        Ok(Ok(c)) => c,
        Ok(Err(e)) => return (0, vec![Violation::new("config-rejected", format!("apply-{name} with a value of its documented type is rejected: {e}"), case0).sig("family", "catalogue")]),
        Err(p) => return (0, vec![Violation::new("load-panic", format!("loader panicked: {}", p.msg), case0).sig("family", "catalogue")]),
    };
    let g = conf.try_read().expect("conf");
    crate::common::clock::set_secs(crate::ehist::NOW0 as u64);
    let mut p = pool::Pool::new_in_memory().expect("pool");
    let mut vs = vec![];
    let mut n = 0;
    // parameter request lists: the option alone, among others (lower and higher codes), not at all, no list
    let lists: Vec<Vec<u8>> = vec![vec![code], vec![200, code, 254], vec![code, 2], vec![200, 254], vec![]];
    for params in &lists {
        for mtype in [1u8, 3] {
            n += 1;
            let r = Req { serverip: IF_S1, mac: M1, host: None, params: params.clone(), if_mtu: None, if_router: None };
            let req = mk_req(&r, mtype);
            let case = json!({"engine":"c11","family":"catalogue","yaml":yaml,"option":name,"kind":kind,"request":{"params":params,"type":mtype}});
            match panics::catch(|| dhcp::handle_pkt(&mut p, &req, Default::default(), &g)) {
                Err(pi) => vs.push(Violation::new("handler-panic", format!("handle_pkt panicked: {} at {}", pi.msg, panics::short_loc(&pi.loc)), case).sig("family", "catalogue")),
                Ok(Err(e)) => vs.push(Violation::new("reply-missing", format!("no reply ({:?}) although the interface has a pool", e), case).sig("family", "catalogue")),
                Ok(Ok(reply)) => {
                    use dhcppkt::Serialise as _;
                    let mut got: Option<Vec<u8>> = None;
                    for (k, v) in &reply.options.other {
                        let mut b = vec![];
                        k.serialise(&mut b);
                        if b[0] == code {
                            got = Some(v.clone());
                        }
                    }
                    let want = if params.contains(&code) { Some(want_bytes.clone()) } else { None };
                    if got != want {
                        vs.push(
                            Violation::new("options-differ", format!("apply-{name} (option {code}), parameter request list {:?}: sent {:?}, manual says {:?}", params, got.as_ref().map(|v| crate::common::util::hex(v)), want.as_ref().map(|v| crate::common::util::hex(v))), case)
                                .sig("family", "catalogue")
                                .sig("option", name)
                                .sig("requested", params.contains(&code))
                                .sig("code-range", if code >= 128 { "128..255" } else if code >= 64 { "64..127" } else { "1..63" }),
                        );
                    }
                }
            }
        }
    }
    (n, vs)
}

/// Every way the manual lets a duration be written, as the value of a seconds-typed option
/// (arp-timeout, option 35, 32 bits) and of a 16-bit one (max-reassembly, option 21) where it fits.
fn duration_case((sp, secs): &(String, u64)) -> (u64, Vec<Violation>) {
    let mut vs = vec![];
    let mut n = 0;
    for (name, code, bits) in [("arp-timeout", 35u8, 32u32), ("max-reassembly", 21, 16)] {
        if bits == 16 && *secs > 65535 {
            continue;
        }
        let yaml = format!("---\ndhcp-policies:\n  - match-subnet: 192.0.2.0/24\n    apply-range: {{start: 192.0.2.10, end: 192.0.2.20}}\n    apply-{name}: '{sp}'\n");
        let case = json!({"engine":"c11","family":"durations","yaml":yaml,"spelling":sp,"seconds":secs});
        let conf = match panics::catch(|| erbium::config::verif_load_config_from_string(&yaml)) {
            Ok(Ok(c)) => c,
            Ok(Err(e)) => {
                vs.push(Violation::new("config-rejected", format!("apply-{name}: '{sp}' (a duration as erbium.conf(5) describes them, {secs} s) is rejected: {e}"), case).sig("family", "durations"));
                continue;
            }
            Err(p) => {
                vs.push(Violation::new("load-panic", format!("loader panicked: {}", p.msg), case).sig("family", "durations"));
                continue;
            }
        };
        let g = conf.try_read().expect("conf");
        crate::common::clock::set_secs(crate::ehist::NOW0 as u64);
        let mut p = pool::Pool::new_in_memory().expect("pool");
        n += 1;
        let r = Req { serverip: IF_S1, mac: M1, host: None, params: vec![code], if_mtu: None, if_router: None };
        match panics::catch(|| dhcp::handle_pkt(&mut p, &mk_req(&r, 1), Default::default(), &g)) {
            Err(pi) => vs.push(Violation::new("handler-panic", format!("handle_pkt panicked: {} at {}", pi.msg, panics::short_loc(&pi.loc)), case).sig("family", "durations")),
            Ok(Err(e)) => vs.push(Violation::new("reply-missing", format!("no reply ({:?})", e), case).sig("family", "durations")),
            Ok(Ok(reply)) => {
                use dhcppkt::Serialise as _;
                let mut got: Option<Vec<u8>> = None;
                for (k, v) in &reply.options.other {
                    let mut b = vec![];
                    k.serialise(&mut b);
                    if b[0] == code {
                        got = Some(v.clone());
                    }
                }
                let want = if bits == 32 { (*secs as u32).to_be_bytes().to_vec() } else { (*secs as u16).to_be_bytes().to_vec() };
                if got.as_ref() != Some(&want) {
                    vs.push(Violation::new("options-differ", format!("apply-{name}: '{sp}' means {secs} s; option {code} sent {:?}", got.map(|v| crate::common::util::hex(&v))), case).sig("family", "durations"));
                }
            }
        }
    }
    (n, vs)
}

// ---------------------------------------------------------------------------
// subnet widths: netmask and broadcast of the matched subnet, for every prefix length
// ---------------------------------------------------------------------------

fn width_yaml(len: u32, override_mask: bool) -> String {
    let server = u32::from(IF_S1.parse::<Ipv4Addr>().unwrap());
    let mask: u32 = if len == 0 { 0 } else { u32::MAX << (32 - len) };
    let net = Ipv4Addr::from(server & mask);
    format!("---\ndhcp-policies:\n  - match-subnet: {net}/{len}\n    apply-address: 192.0.2.77\n{}", if override_mask { "    apply-netmask: 255.255.255.128\n    apply-broadcast: null\n" } else { "" })
}

fn width_case(&(len, override_mask): &(u32, bool)) -> (u64, Vec<Violation>) {
    let yaml = width_yaml(len, override_mask);
    let case0 = json!({"engine":"c11","family":"subnet-width","yaml":yaml,"len":len,"override":override_mask});
    let conf = match panics::catch(|| erbium::config::verif_load_config_from_string(&yaml)) {
        Ok(Ok(c)) => c,
        Ok(Err(e)) => return (0, vec![Violation::new("config-rejected", format!("match-subnet of length {len} rejected: {e}"), case0).sig("family", "subnet-width")]),
        Err(p) => return (0, vec![Violation::new("load-panic", format!("loader panicked: {}", p.msg), case0).sig("family", "subnet-width")]),
    };
    let g = conf.try_read().expect("conf");
    crate::common::clock::set_secs(crate::ehist::NOW0 as u64);
    let mut p = pool::Pool::new_in_memory().expect("pool");
    let server = u32::from(IF_S1.parse::<Ipv4Addr>().unwrap());
    let mask: u32 = if len == 0 { 0 } else { u32::MAX << (32 - len) };
    let mut vs = vec![];
    let mut n = 0;
    for params in [vec![1u8, 28], vec![28u8], vec![1u8], vec![3u8, 6]] {
        for mtype in [1u8, 3] {
            n += 1;
            let r = Req { serverip: IF_S1, mac: M1, host: None, params: params.clone(), if_mtu: None, if_router: None };
            let req = mk_req(&r, mtype);
            let case = json!({"engine":"c11","family":"subnet-width","yaml":yaml,"len":len,"override":override_mask,"request":{"params":params,"type":mtype}});
            match panics::catch(|| dhcp::handle_pkt(&mut p, &req, Default::default(), &g)) {
                Err(pi) => vs.push(Violation::new("handler-panic", format!("handle_pkt panicked: {} at {}", pi.msg, panics::short_loc(&pi.loc)), case).sig("family", "subnet-width")),
                Ok(Err(e)) => vs.push(Violation::new("reply-missing", format!("no reply ({:?}) although the policy matches the receiving address and names an address", e), case).sig("family", "subnet-width")),
                Ok(Ok(reply)) => {
                    use dhcppkt::Serialise as _;
                    let mut got: BTreeMap<u8, Vec<u8>> = BTreeMap::new();
                    for (k, v) in &reply.options.other {
                        let mut b = vec![];
                        k.serialise(&mut b);
                        if b[0] == 1 || b[0] == 28 {
                            got.insert(b[0], v.clone());
                        }
                    }
                    let mut want: BTreeMap<u8, Vec<u8>> = BTreeMap::new();
                    if params.contains(&1) {
                        want.insert(1, if override_mask { vec![255, 255, 255, 128] } else { mask.to_be_bytes().to_vec() });
                    }
                    if params.contains(&28) && !override_mask {
                        want.insert(28, ((server & mask) | !mask).to_be_bytes().to_vec());
                    }
                    if got != want {
                        vs.push(
                            Violation::new("options-differ", format!("match-subnet of length {len}{}, parameter request list {:?}: netmask/broadcast sent {:?}, the matched subnet's are {:?}", if override_mask { " with apply-netmask / apply-broadcast: null" } else { "" }, params, got.iter().map(|(k, v)| (k, crate::common::util::hex(v))).collect::<Vec<_>>(), want.iter().map(|(k, v)| (k, crate::common::util::hex(v))).collect::<Vec<_>>()), case)
                                .sig("family", "subnet-width")
                                .sig("len", if len == 0 { "0" } else if len >= 31 { "31-32" } else { "1-30" }),
                        );
                    }
                }
            }
        }
    }
    (n, vs)
}

pub fn run(tier: &str, replay: Option<Value>) -> ! {
    let mut rep = Report::new("C11", if replay.is_some() { "quick" } else { tier }, "exploration");
    let thorough = tier == "thorough";
    if let Some(case) = replay {
        rep.replay_mode = true;
        let case = if case.get("case").is_some() { case["case"].clone() } else { case };
        let y = case["yaml"].as_str().unwrap_or("").to_string();
        if case["family"].as_str() == Some("durations") {
            let sp = case["spelling"].as_str().unwrap_or("").to_string();
            rep.violations_from(duration_case(&(sp, case["seconds"].as_u64().unwrap_or(0))).1);
            rep.violations.retain(|v| v.case["yaml"] == case["yaml"]);
            rep.finish();
        }
        if case["family"].as_str() == Some("subnet-width") {
            rep.violations_from(width_case(&(case["len"].as_u64().unwrap_or(24) as u32, case["override"].as_bool().unwrap_or(false))).1);
            if let Some(r) = case.get("request") {
                rep.violations.retain(|v| v.case["request"] == *r);
            }
            rep.finish();
        }
        if case["family"].as_str() == Some("catalogue") {
            for e in CATALOGUE.iter() {
                if catalogue_yaml(e.0, e.2) == y {
                    rep.violations_from(catalogue_case(e).1);
                }
            }
            if let Some(r) = case.get("request") {
                rep.violations.retain(|v| v.case["request"] == *r);
            }
            rep.finish();
        }
        // regenerate and find the configuration by its text
        let mut found = false;
        for t in structure_trees(true) {
            for top in [false, true] {
                if config_yaml(top, &t) == y {
                    found = true;
                    let (_, _, vs) = judge_config(top, &t, &requests(true), "structure");
                    rep.violations_from(vs);
                }
            }
        }
        for variant in 0..ADDRS_VARIANTS.len() {
            ADDRS_VARIANT.with(|v| v.set(variant));
            for (top, nodes, reqs) in override_configs() {
                if config_yaml(top, &nodes) == y {
                    found = true;
                    let (_, _, vs) = judge_config(top, &nodes, &reqs, "override");
                    rep.violations_from(vs);
                }
            }
        }
        ADDRS_VARIANT.with(|v| v.set(0));
        if !found {
            rep.machinery_error("replay configuration not found in the grammar");
        }
        if let Some(r) = case.get("request") {
            rep.violations.retain(|v| v.case["request"] == *r);
        }
        rep.finish();
    }
    let trees = structure_trees(thorough);
    let reqs_struct = requests(false);
    let reqs_full = requests(true);
    let outs: Vec<(u64, std::collections::BTreeSet<String>, Vec<Violation>)> = trees
        .par_iter()
        .enumerate()
        .map(|(i, t)| {
            // every 50th tree also with the full parameter-list product and with top-level defaults
            if i % 50 == 0 {
                let mut a = judge_config(false, t, &reqs_full, "structure");
                let b = judge_config(true, t, &reqs_full, "structure");
                a.0 += b.0;
                a.1.extend(b.1);
                a.2.extend(b.2);
                a
            } else {
                judge_config(false, t, &reqs_struct, "structure")
            }
        })
        .collect();
    let ov = override_configs();
    let mut outs2: Vec<(u64, std::collections::BTreeSet<String>, Vec<Violation>)> = ov.par_iter().map(|(top, nodes, reqs)| judge_config(*top, nodes, reqs, "override")).collect();
    // the same override configurations (every 7th) under the other spellings of the address list
    for variant in 1..ADDRS_VARIANTS.len() {
        let more: Vec<(u64, std::collections::BTreeSet<String>, Vec<Violation>)> = ov
            .par_iter()
            .enumerate()
            .filter(|(i, _)| thorough || i % 7 == 0)
            .map(|(_, (top, nodes, reqs))| {
                ADDRS_VARIANT.with(|v| v.set(variant));
                let r = judge_config(*top, nodes, reqs, "override");
                ADDRS_VARIANT.with(|v| v.set(0));
                r
            })
            .collect();
        outs2.extend(more);
    }
    let cat: Vec<(u64, Vec<Violation>)> = CATALOGUE.par_iter().map(catalogue_case).collect();
    let widths: Vec<(u32, bool)> = (0..=32u32).flat_map(|l| [(l, false), (l, true)]).collect();
    let wd: Vec<(u64, Vec<Violation>)> = widths.par_iter().map(width_case).collect();
    let wd_n: u64 = wd.iter().map(|c| c.0).sum();
    outs2.extend(wd.into_iter().map(|(k, vs)| (k, std::collections::BTreeSet::new(), vs)));
    let du: Vec<(u64, Vec<Violation>)> = crate::checks::c17::duration_spellings().par_iter().map(duration_case).collect();
    let du_n: u64 = du.iter().map(|c| c.0).sum();
    outs2.extend(du.into_iter().map(|(k, vs)| (k, std::collections::BTreeSet::new(), vs)));
    let cat_n: u64 = cat.iter().map(|c| c.0).sum();
    outs2.extend(cat.into_iter().map(|(k, vs)| (k, std::collections::BTreeSet::new(), vs)));
    let mut n = 0;
    let mut classes = std::collections::BTreeSet::new();
    let mut seen = std::collections::BTreeSet::new();
    for (k, c, vs) in outs.into_iter().chain(outs2) {
        n += k;
        classes.extend(c);
        for v in vs {
            if seen.insert(format!("{}|{:?}", v.oracle, v.sig)) || rep.violations.len() < 12 {
                rep.violation(v);
            }
        }
    }
    crate::common::clock::unset();
    rep.cov("evaluations", n);
    rep.cov("distinct_nontrivial", (trees.len() + ov.len()) as u64);
    rep.cov("rule", "structure sweep: match alphabet {none, subnet S1, subnet S2, hardware address M1, host-name h, host-name null, S1 and M1}; all policy trees of depth <=2 and width <=2 (quick: second top-level sibling with <=1 child), all depth-3 chains, all width-3 sibling lists (top level and under a condition-less parent); each node sets a marker option per depth so the reply shows which node applied; requests: 3 receiving addresses x 2 hardware addresses x host-name {absent,h,x} (DISCOVER and REQUEST). override sweep: chains of depth 1-3 x apply alphabet {none, dns-servers [v], dns-servers [$self4, v], dns-servers null, domain-name, mtu, netmask null} per level x top-level defaults {absent, present} x interface mtu/router x 4 parameter lists; every 7th of them (thorough: all) again under three other spellings of the top-level address list (IPv6 prefixes in front of / between the IPv4 ones, IPv4 ones swapped). durations: every duration spelling of the manual (106) as the value of a 32-bit and a 16-bit seconds option. subnet widths: match-subnet of every length 0..32 around the receiving address, with and without apply-netmask / apply-broadcast: null, x 4 parameter lists: netmask and broadcast are the matched subnet's unless overridden. catalogue: every option a policy can set by name (65 names, codes 1..252, 11 value syntaxes), one per configuration, with a value of its documented type: sent with exactly the RFC 2132/3397/3442 encoding iff the parameter request list names it (5 lists x DISCOVER/REQUEST). distinct_nontrivial = distinct configurations; evaluations = requests judged against the model");
    rep.cov("exhaustive", true);
    rep.cov("parts", json!({"structure_configs": trees.len(), "override_configs": ov.len(), "catalogue_options": CATALOGUE.len(), "catalogue_requests": cat_n, "subnet_width_requests": wd_n, "duration_spelling_requests": du_n}));
    rep.cov("outcome_classes", json!(classes));
    rep.cov("samples", json!([{"yaml": config_yaml(false, &trees[trees.len() / 3])}, {"yaml": config_yaml(true, &ov[ov.len() / 2].1)}]));
    rep.assume("don't-care: options 53/54/51; an empty search list present-but-empty vs absent; netmask/broadcast when two different match-subnets lie on the applied path (not generated)");
    rep.finish()
}
