//! C02: DHCP leases exactly the addresses the configuration grants that client.
//! (1) `addresses: [net/len]` for every prefix length x server address x reserved addresses: the
//!     pool the real build_default_config computes must equal the documented set;
//! (2) policy trees over a 16-address universe: the pool is drained through the real handle_pkt
//!     with fresh clients until the no-address error, the set of addresses handed out must equal
//!     the reference set for that client.
use crate::common::panics;
use crate::common::report::{Report, Violation};
use erbium::dhcp::{self, dhcppkt, pool};
use rayon::prelude::*;
use serde_json::{Value, json};
use std::collections::BTreeSet;
use std::net::Ipv4Addr;

fn mk_req(chaddr: &[u8], clientid: Option<Vec<u8>>, serverip: Ipv4Addr, mtype: u8) -> dhcp::DHCPRequest {
    let mut other: std::collections::HashMap<dhcppkt::DhcpOption, Vec<u8>> = Default::default();
    other.insert(dhcppkt::OPTION_MSGTYPE, vec![mtype]);
    if let Some(c) = clientid {
        other.insert(dhcppkt::OPTION_CLIENTID, c);
    }
    dhcp::DHCPRequest {
        pkt: dhcppkt::Dhcp {
            op: dhcppkt::OP_BOOTREQUEST,
            htype: dhcppkt::HWTYPE_ETHERNET,
            hlen: chaddr.len() as u8,
            hops: 0,
            xid: 1,
            secs: 0,
            flags: 0,
            ciaddr: Ipv4Addr::UNSPECIFIED,
            yiaddr: Ipv4Addr::UNSPECIFIED,
            siaddr: Ipv4Addr::UNSPECIFIED,
            giaddr: Ipv4Addr::UNSPECIFIED,
            chaddr: chaddr.to_vec(),
            sname: vec![],
            file: vec![],
            options: dhcppkt::DhcpOptions { other },
        },
        serverip,
        ifindex: 1,
        if_mtu: None,
        if_router: None,
    }
}

// ---------------------------------------------------------------------------
// (1) addresses: [net/len]
// ---------------------------------------------------------------------------

fn addresses_case(len: u8, host_bits: bool, server: &str, reserved: &str) -> (String, Vec<Violation>) {
    let net: u32 = 0x0a40_0000 & (!0u32 << (32 - len as u32)); // 10.64.0.0 masked
    let bcast = net | !((!0u32) << (32 - len as u32));
    let first = net + 1;
    let last = bcast - 1;
    let mid = net + (bcast - net) / 2;
    let serverip: Ipv4Addr = match server {
        "first" => first.into(),
        "last" => last.into(),
        "middle" => mid.into(),
        _ => Ipv4Addr::new(172, 16, 0, 1),
    };
    let res: Option<Ipv4Addr> = match reserved {
        "first" => Some(first.into()),
        "last" => Some(last.into()),
        "second" => Some((first + 1).into()),
        _ => None,
    };
    let written: Ipv4Addr = if host_bits { (net | 1).into() } else { net.into() };
    let mut yaml = format!("---\naddresses: ['{written}/{len}']\n");
    if let Some(r) = res {
        yaml.push_str(&format!("dhcp-policies:\n  - match-hardware-address: 02:00:00:00:00:aa\n    apply-address: {r}\n"));
    }
    let case = json!({"engine":"c02","part":"addresses","yaml":yaml,"server":serverip.to_string()});
    let class = format!("len{}:{}:{}", if len <= 15 { "short" } else if len >= 29 { "tiny" } else { "mid" }, server, reserved);
    let conf = match panics::catch(|| erbium::config::verif_load_config_from_string(&yaml)) {
        Ok(Ok(c)) => c,
        Ok(Err(e)) => return (class, vec![Violation::new("addresses-rejected", format!("valid addresses configuration rejected: {e}"), case)]),
        Err(p) => return (class, vec![Violation::new("load-panic", format!("loader panicked: {} at {}", p.msg, panics::short_loc(&p.loc)), case).sig("loc", panics::short_loc(&p.loc))]),
    };
    let g = conf.try_read().expect("conf");
    // a request from a client that is not the reserved host, received on serverip
    let req = mk_req(&[2, 0, 0, 0, 0, 0xbb], None, serverip, 1);
    let built = panics::catch(|| dhcp::build_default_config(&g, &req));
    let pol = match built {
        Ok(p) => p,
        Err(p) => return (class, vec![Violation::new("build-panic", format!("build_default_config panicked: {} at {}", p.msg, panics::short_loc(&p.loc)), case).sig("loc", panics::short_loc(&p.loc))]),
    };
    let mut vs = vec![];
    if pol.policies.len() != 1 {
        vs.push(Violation::new("default-policy-shape", format!("{} sub-policies for one IPv4 prefix", pol.policies.len()), case.clone()));
        return (class, vs);
    }
    let got: BTreeSet<u32> = pol.policies[0].apply_address.as_ref().map(|s| s.iter().map(|a| u32::from(*a)).collect()).unwrap_or_default();
    // documented: every host address except network, broadcast, the local address, and addresses given in a normal policy
    let mut want: BTreeSet<u32> = (first..=last).collect();
    want.remove(&u32::from(serverip));
    if let Some(r) = res {
        want.remove(&u32::from(r));
    }
    if got != want {
        let missing: Vec<Ipv4Addr> = want.difference(&got).take(4).map(|a| Ipv4Addr::from(*a)).collect();
        let extra: Vec<Ipv4Addr> = got.difference(&want).take(4).map(|a| Ipv4Addr::from(*a)).collect();
        let last_host_missing = missing.len() == 1 && u32::from(missing[0]) == last && extra.is_empty();
        vs.push(
            Violation::new(
                "addresses-pool",
                format!("addresses: [{written}/{len}], server {serverip}, reserved {:?}: pool has {} addresses, documented set has {}; missing {:?}{} extra {:?}", res, got.len(), want.len(), missing, if want.len() - got.intersection(&want).count() > 4 { "..." } else { "" }, extra),
                case,
            )
            .sig("part", "addresses")
            .sig("only_last_host_missing", last_host_missing),
        );
    }
    (class, vs)
}

fn addresses_part(rep: &mut Report, thorough: bool) -> (u64, BTreeSet<String>) {
    let mut work = vec![];
    let lens: Vec<u8> = if thorough { (10..=30).collect() } else { (16..=30).collect() };
    for len in lens {
        for hb in [false, true] {
            for server in ["first", "last", "middle", "outside"] {
                for reserved in ["none", "first", "last", "second"] {
                    if len <= 15 && (hb || reserved == "second") {
                        continue;
                    }
                    work.push((len, hb, server, reserved));
                }
            }
        }
    }
    // the big ones one at a time (each materialises the whole set), the rest in parallel
    let (big, small): (Vec<_>, Vec<_>) = work.into_iter().partition(|w| w.0 < 16);
    let mut outs: Vec<(String, Vec<Violation>)> = small.par_iter().map(|(l, hb, s, r)| addresses_case(*l, *hb, s, r)).collect();
    for (l, hb, s, r) in &big {
        outs.push(addresses_case(*l, *hb, s, r));
    }
    let mut classes = BTreeSet::new();
    let n = outs.len() as u64;
    let mut seen = BTreeSet::new();
    for (c, vs) in outs {
        classes.insert(c);
        for v in vs {
            if seen.insert(format!("{}|{:?}", v.oracle, v.sig)) || rep.violations.len() < 8 {
                rep.violation(v);
            }
        }
    }
    (n, classes)
}

// ---------------------------------------------------------------------------
// (2) policy trees, drained
// ---------------------------------------------------------------------------

const M1: [u8; 6] = [2, 0, 0, 0, 0, 0xa1];
const M2: [u8; 6] = [2, 0, 0, 0, 0, 0xa2];
const M3: [u8; 6] = [2, 0, 0, 0, 0, 0xa3];

fn mac_str(m: &[u8; 6]) -> String {
    m.iter().map(|b| format!("{:02x}", b)).collect::<Vec<_>>().join(":")
}

#[derive(Clone, Debug)]
enum Apply {
    None,
    Address(Vec<u8>),      // last octets
    Range(u8, u8),
    Subnet(u8, u8),        // network last octet, prefix length
    /// several address sources in ONE policy, written in this key order; the documented set is their union
    Combo(Vec<Apply>),
}

impl Apply {
    fn yaml(&self, indent: &str) -> String {
        match self {
            Apply::None => String::new(),
            // several apply-address keys in one YAML hash would be duplicate keys: use a one-address range for the second
            Apply::Address(v) => {
                let mut s = format!("{indent}apply-address: 192.0.2.{}\n", v[0]);
                if v.len() > 1 {
                    s.push_str(&format!("{indent}apply-range: {{start: 192.0.2.{}, end: 192.0.2.{}}}\n", v[1], v[1]));
                }
                s
            }
            Apply::Range(a, b) => format!("{indent}apply-range: {{start: 192.0.2.{a}, end: 192.0.2.{b}}}\n"),
            Apply::Subnet(n, l) => format!("{indent}apply-subnet: 192.0.2.{n}/{l}\n"),
            Apply::Combo(v) => v.iter().map(|a| a.yaml(indent)).collect::<Vec<_>>().join(""),
        }
    }
    /// documented address set (last octets); None = the policy adds no addresses
    fn set(&self) -> Option<BTreeSet<u8>> {
        match self {
            Apply::None => None,
            Apply::Address(v) => Some(v.iter().copied().collect()),
            Apply::Range(a, b) => Some((*a..=*b).collect()),
            Apply::Subnet(n, l) => {
                let size = 1u32 << (32 - *l as u32);
                // first and last addresses are the network and broadcast addresses and are not applied
                Some(((*n as u32 + 1)..(*n as u32 + size - 1)).map(|x| x as u8).collect())
            }
            Apply::Combo(v) => {
                let mut out = BTreeSet::new();
                let mut any = false;
                for a in v {
                    if let Some(s) = a.set() {
                        any = true;
                        out.extend(s);
                    }
                }
                if any { Some(out) } else { None }
            }
        }
    }
}

#[derive(Clone, Debug)]
struct Node {
    mac: Option<[u8; 6]>,
    apply: Apply,
    children: Vec<Node>,
}

impl Node {
    fn yaml(&self, indent: usize, root: bool) -> String {
        let pad = " ".repeat(indent);
        let mut s = String::new();
        let mut first = true;
        let mut line = |text: String, s: &mut String| {
            for l in text.lines() {
                if first {
                    s.push_str(&format!("{}- {}\n", " ".repeat(indent - 2), l.trim_start()));
                    first = false;
                } else {
                    s.push_str(&format!("{pad}{}\n", l.trim_start()));
                }
            }
        };
        if root {
            line("match-subnet: 192.0.2.0/24".into(), &mut s);
        }
        if let Some(m) = &self.mac {
            line(format!("match-hardware-address: {}", mac_str(m)), &mut s);
        }
        let a = self.apply.yaml("");
        if !a.is_empty() {
            line(a, &mut s);
        }
        if !self.children.is_empty() {
            line("policies:".into(), &mut s);
            for c in &self.children {
                s.push_str(&c.yaml(indent + 4, false));
            }
        }
        if first {
            // a policy with nothing in it: write an explicit empty hash entry
            s.push_str(&format!("{}- {{}}\n", " ".repeat(indent - 2)));
        }
        s
    }
    fn all_added(&self) -> BTreeSet<u8> {
        let mut s = self.apply.set().unwrap_or_default();
        for c in &self.children {
            s.extend(c.all_added());
        }
        s
    }
    /// own pool = own addresses minus everything added by sub-policies
    fn own_pool(&self) -> Option<BTreeSet<u8>> {
        self.apply.set().map(|mut s| {
            for c in &self.children {
                for a in c.all_added() {
                    s.remove(&a);
                }
            }
            s
        })
    }
    /// does this node apply to `mac` (manual: all conditions hold; no conditions => applies iff a sub-policy does)
    fn applies(&self, mac: &[u8; 6], root: bool) -> bool {
        if root {
            return self.mac.map(|m| &m == mac).unwrap_or(true);
        }
        match &self.mac {
            Some(m) => m == mac,
            None => self.children.iter().any(|c| c.applies(mac, false)),
        }
    }
    /// the pool the documentation assigns to `mac` below this (applying) node
    fn pool_for(&self, mac: &[u8; 6], inherited: Option<BTreeSet<u8>>) -> Option<BTreeSet<u8>> {
        let mine = self.own_pool().or(inherited);
        for c in &self.children {
            if c.applies(mac, false) {
                return c.pool_for(mac, mine);
            }
        }
        mine
    }
}

fn trees(thorough: bool) -> Vec<Node> {
    let mut roots: Vec<Apply> = vec![Apply::Subnet(0, 28), Apply::Subnet(0, 29), Apply::Subnet(0, 30), Apply::Subnet(8, 29), Apply::Address(vec![5]), Apply::Address(vec![5, 9])];
    for lo in 4..=9u8 {
        for hi in lo..=9u8 {
            roots.push(Apply::Range(lo, hi));
        }
    }
    // several address sources in one policy, in every key order
    roots.push(Apply::Combo(vec![Apply::Range(6, 7), Apply::Address(vec![9])]));
    roots.push(Apply::Combo(vec![Apply::Address(vec![9]), Apply::Range(6, 7)]));
    roots.push(Apply::Combo(vec![Apply::Subnet(8, 30), Apply::Address(vec![5])]));
    roots.push(Apply::Combo(vec![Apply::Address(vec![5]), Apply::Subnet(8, 30)]));
    roots.push(Apply::Combo(vec![Apply::Subnet(8, 30), Apply::Range(4, 5)]));
    roots.push(Apply::Combo(vec![Apply::Range(4, 5), Apply::Subnet(8, 30)]));
    let child_applies = vec![Apply::Address(vec![5]), Apply::Address(vec![12]), Apply::Range(6, 7), Apply::Subnet(8, 30), Apply::None, Apply::Combo(vec![Apply::Range(6, 7), Apply::Address(vec![12])])];
    let mut kids: Vec<Node> = vec![];
    for m in [M1, M2] {
        for a in &child_applies {
            kids.push(Node { mac: Some(m), apply: a.clone(), children: vec![] });
        }
    }
    // a condition-less child wrapping a reservation (applies only if its sub-policy does)
    kids.push(Node { mac: None, apply: Apply::Range(6, 7), children: vec![Node { mac: Some(M1), apply: Apply::Address(vec![6]), children: vec![] }] });
    // condition-less groups inside a condition-less group, before and after a matching sibling: a
    // group that does not apply to this client must not end the search through its siblings
    let w_a = Node { mac: None, apply: Apply::Range(6, 7), children: vec![Node { mac: Some(M1), apply: Apply::Address(vec![6]), children: vec![] }] };
    let m2_12 = Node { mac: Some(M2), apply: Apply::Address(vec![12]), children: vec![] };
    let g_m1_13 = Node { mac: None, apply: Apply::None, children: vec![Node { mac: Some(M1), apply: Apply::Address(vec![13]), children: vec![] }] };
    kids.push(Node { mac: None, apply: Apply::None, children: vec![w_a.clone(), m2_12.clone()] });
    kids.push(Node { mac: None, apply: Apply::None, children: vec![m2_12.clone(), w_a.clone()] });
    kids.push(Node { mac: None, apply: Apply::None, children: vec![g_m1_13.clone(), m2_12.clone()] });
    kids.push(Node { mac: None, apply: Apply::None, children: vec![g_m1_13.clone(), w_a.clone(), m2_12.clone()] });
    let grand = Node { mac: Some(M1), apply: Apply::Address(vec![6]), children: vec![] };
    let mut out = vec![];
    for r in &roots {
        let mut lists: Vec<Vec<Node>> = vec![vec![]];
        for k in &kids {
            lists.push(vec![k.clone()]);
        }
        for a in &kids {
            for b in &kids {
                lists.push(vec![a.clone(), b.clone()]);
            }
        }
        for l in lists {
            // don't-care: sibling policies whose pools overlap
            let mut overlap = false;
            for i in 0..l.len() {
                for j in (i + 1)..l.len() {
                    if l[i].all_added().intersection(&l[j].all_added()).next().is_some() {
                        overlap = true;
                    }
                }
            }
            // don't-care: two siblings matching the same hardware address is fine (first wins)
            if overlap {
                continue;
            }
            out.push(Node { mac: None, apply: r.clone(), children: l.clone() });
            // depth 3: a reservation below the first child that has a mac condition and a multi-address pool
            if thorough || matches!(r, Apply::Subnet(0, 28)) {
                if let Some(first) = l.first() {
                    if first.children.is_empty() && matches!(first.apply, Apply::Range(6, 7)) && first.mac == Some(M1) {
                        let mut l2 = l.clone();
                        l2[0].children.push(grand.clone());
                        out.push(Node { mac: None, apply: r.clone(), children: l2 });
                    }
                }
            }
        }
    }
    out
}

/// `outer`: the same tree below a top-level `addresses: [192.0.2.0/27]`, whose implied pool (hosts
/// minus the server's address minus every address named in a policy) is what a request inherits
/// before the written policies are looked at.  A policy that names addresses replaces it -- also
/// when nothing of what it names is left for this client.
fn drain_case(&(ref t, outer): &(Node, bool)) -> (u64, String, Vec<Violation>) {
    let yaml = format!("---\n{}dhcp-policies:\n{}", if outer { "addresses: [192.0.2.0/27]\n" } else { "" }, t.yaml(4, true));
    let case = json!({"engine":"c02","part":"drain","yaml":yaml});
    let conf = match panics::catch(|| erbium::config::verif_load_config_from_string(&yaml)) {
        Ok(Ok(c)) => c,
        Ok(Err(e)) => return (0, "rejected".into(), vec![Violation::new("policy-rejected", format!("valid policy tree rejected: {e}"), case)]),
        Err(p) => return (0, "panic".into(), vec![Violation::new("load-panic", format!("loader panicked: {} at {}", p.msg, panics::short_loc(&p.loc)), case).sig("loc", panics::short_loc(&p.loc))]),
    };
    let g = conf.try_read().expect("conf");
    let serverip: Ipv4Addr = "192.0.2.1".parse().unwrap();
    let mut vs = vec![];
    let mut n = 0u64;
    let mut shape = String::new();
    crate::common::clock::set_secs(crate::ehist::NOW0 as u64);
    // hardware addresses asked with: the three of the model, and two that merely BEGIN like a
    // reserved one or are the beginning of it (8 octets, EUI-64 style, and 5 octets): a
    // match-hardware-address condition holds for the address it names and no other, so they are
    // served like M3, which no condition names
    let mut longer = M1.to_vec();
    longer.extend_from_slice(&[0xaa, 0xbb]);
    let asked: Vec<(Vec<u8>, [u8; 6])> = vec![(M1.to_vec(), M1), (M2.to_vec(), M2), (M3.to_vec(), M3), (longer, M3), (M1[..5].to_vec(), M3)];
    for (chaddr, mac) in asked {
        let inherited: Option<BTreeSet<u8>> = if outer {
            let named = t.all_added();
            Some((2u8..=30).filter(|a| !named.contains(a)).collect())
        } else {
            None
        };
        let want: Option<BTreeSet<u8>> = if t.applies(&mac, true) { t.pool_for(&mac, inherited) } else { inherited };
        let mut p = pool::Pool::new_in_memory().expect("pool");
        let mut got: BTreeSet<u8> = BTreeSet::new();
        let mut err = String::new();
        for i in 0..40u16 {
            n += 1;
            // distinct clients that all carry this hardware address: distinct client identifiers
            let req = mk_req(&chaddr, Some(vec![0xc1, (i >> 8) as u8, i as u8]), serverip, 1);
            match panics::catch(|| dhcp::handle_pkt(&mut p, &req, Default::default(), &g)) {
                Err(pi) => {
                    vs.push(Violation::new("handler-panic", format!("handle_pkt panicked: {} at {}", pi.msg, panics::short_loc(&pi.loc)), case.clone()).sig("loc", panics::short_loc(&pi.loc)));
                    break;
                }
                Ok(Ok(r)) => {
                    let o = r.yiaddr.octets();
                    if o[..3] != [192, 0, 2] || !got.insert(o[3]) {
                        vs.push(Violation::new("drain-anomaly", format!("client {i} with hardware address {} was given {} (outside the universe or already handed to another client)", crate::common::util::hex(&chaddr), r.yiaddr), case.clone()).sig("part", "drain"));
                        break;
                    }
                }
                Ok(Err(e)) => {
                    err = format!("{:?}", e);
                    break;
                }
            }
        }
        // the server's own address inside an explicit pool is don't-care
        let mut got_cmp = got.clone();
        got_cmp.remove(&1);
        let mut want_cmp = want.clone().unwrap_or_default();
        want_cmp.remove(&1);
        shape.push_str(&format!("{}:", want_cmp.len().min(3)));
        if got_cmp != want_cmp {
            let missing: Vec<u8> = want_cmp.difference(&got_cmp).copied().collect();
            let extra: Vec<u8> = got_cmp.difference(&want_cmp).copied().collect();
            let only_last_of_subnet = extra.is_empty() && !missing.is_empty();
            vs.push(
                Violation::new(
                    "drained-pool",
                    format!("hardware address {}: drained addresses 192.0.2.{:?}, documented pool 192.0.2.{:?} (missing {:?}, extra {:?}; drain ended with {err})", crate::common::util::hex(&chaddr), got_cmp, want_cmp, missing, extra),
                    case.clone(),
                )
                .sig("part", "drain")
                .sig("only_missing", only_last_of_subnet),
            );
        }
        if want.is_some() && !err.contains("NoAssignableAddress") && !got.is_empty() && got.len() < 40 {
            vs.push(Violation::new("drain-end", format!("drain for {} ended with {err} instead of the no-address error", crate::common::util::hex(&chaddr)), case.clone()).sig("part", "drain"));
        }
    }
    (n, format!("drain{}:{shape}", if outer { "+outer" } else { "" }), vs)
}

fn drain_part(rep: &mut Report, thorough: bool) -> (u64, u64, BTreeSet<String>) {
    let ts: Vec<(Node, bool)> = trees(thorough).into_iter().flat_map(|t| [(t.clone(), false), (t, true)]).collect();
    let outs: Vec<(u64, String, Vec<Violation>)> = ts.par_iter().map(drain_case).collect();
    let mut n = 0;
    let mut classes = BTreeSet::new();
    let mut seen = BTreeSet::new();
    for (k, c, vs) in outs {
        n += k;
        classes.insert(c);
        for v in vs {
            if seen.insert(format!("{}|{:?}", v.oracle, v.sig)) || rep.violations.len() < 12 {
                rep.violation(v);
            }
        }
    }
    (ts.len() as u64, n, classes)
}

pub fn run(tier: &str, replay: Option<Value>) -> ! {
    let mut rep = Report::new("C02", if replay.is_some() { "quick" } else { tier }, "exploration");
    let thorough = tier == "thorough";
    if let Some(case) = replay {
        rep.replay_mode = true;
        let case = if case.get("case").is_some() { case["case"].clone() } else { case };
        let y = case["yaml"].as_str().unwrap_or("").to_string();
        if case["engine"].as_str() == Some("ehist") {
            match crate::ehist::all_cfgs().and_then(|cfgs| crate::ehist::replay_case(&case, &cfgs)) {
                Ok(found) => {
                    for f in found {
                        if f.property == "C02" {
                            rep.violation(f.v);
                        }
                    }
                }
                Err(e) => rep.machinery_error(format!("replay: {e}")),
            }
        } else if case["part"].as_str() == Some("drain") {
            let outer = y.starts_with("---\naddresses:");
            for t in trees(true) {
                if y.ends_with(&format!("dhcp-policies:\n{}", t.yaml(4, true))) {
                    for v in drain_case(&(t, outer)).2 {
                        rep.violation(v);
                    }
                    break;
                }
            }
        } else {
            addresses_part(&mut rep, false);
            rep.violations.retain(|v| v.case["yaml"].as_str() == Some(&y));
        }
        rep.finish();
    }
    let (n1, mut classes) = addresses_part(&mut rep, thorough);
    let (trees_n, n2, c2) = drain_part(&mut rep, thorough);
    classes.extend(c2);
    // histories on one long-lived Pool across pool changes and interfaces: every reply's address
    // must lie in the pool configured for that client on that interface *now*
    let (mut n3, mut ll_depth) = (0u64, 0u32);
    match crate::ehist::all_cfgs() {
        Ok(cfgs) => {
            let alpha = crate::ehist::longlived_alphabet(&cfgs, thorough);
            ll_depth = if thorough { 4 } else { 3 };
            match crate::ehist::longlived_histories(&cfgs, &alpha, &crate::ehist::longlived_roots(), ll_depth, false) {
                Ok((st, found)) => {
                    n3 = st.steps;
                    for f in found {
                        if f.property == "C02" {
                            rep.violation(f.v);
                        }
                    }
                }
                Err(e) => rep.machinery_error(format!("long-lived histories: {e}")),
            }
        }
        Err(e) => rep.machinery_error(e),
    }
    crate::common::clock::unset();
    rep.cov("long_lived_message_steps", n3);
    rep.cov("long_lived_depth", ll_depth);
    rep.cov("evaluations", n1 + n2 + n3);
    rep.cov("distinct_nontrivial", classes.len() as u64);
    rep.cov("rule", "addresses: every prefix length 16..30 (thorough 10..30) x written with/without host bits x server address {first, last, middle host, outside} x reserved address {none, first, last, second host}: build_default_config's pool vs hosts - server - reserved. drain: policy trees over 192.0.2.0/28 (root: apply-subnet /28 /29 /30, every apply-range in a 6-address window, 1-2 apply-address, two address sources in one policy in both key orders; 0-2 children matching hardware addresses M1/M2 with address/range/subnet/no pool, a condition-less wrapper, condition-less groups nested in a condition-less group before/after a matching sibling, a depth-3 reservation; overlapping sibling pools skipped) x 5 hardware addresses (the 3 of the conditions' alphabet, an 8-octet one beginning like a reserved one, a 5-octet beginning of it), each drained with fresh client identifiers through handle_pkt until the no-address error. histories: every history of exactly long_lived_depth operations over {4 configurations with different pools / two interfaces / a reservation, 2 clients, DISCOVER/REQUEST with and without a named address, 2-3 clock steps} on ONE never-reopened Pool, every reply's address judged against the pool configured for that client on that interface at that step. distinct = shape classes");
    rep.cov("exhaustive", true);
    rep.cov("parts", json!({"addresses_configs": n1, "policy_trees": trees_n, "drain_requests": n2}));
    rep.cov("classes_sample", json!(classes.iter().take(12).collect::<Vec<_>>()));
    rep.cov("samples", json!([{"part":"addresses","yaml":"addresses: ['10.64.0.0/24']","server":"10.64.0.1"},{"part":"drain","root":"apply-subnet 192.0.2.0/29","child":"match-hardware-address M1, apply-address .5"}]));
    rep.assume("don't-care: overlapping pools of sibling policies; the server's own address inside an explicit pool; 'never the server address' is judged for the addresses form only");
    rep.finish()
}
