pub mod dhcp_hist;
pub mod c12;
pub mod c14;
