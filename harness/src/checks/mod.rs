pub mod dhcp_hist;
pub mod c12;
pub mod c14;
pub mod c04;
pub mod c05;
pub mod c17;
pub mod c03;
pub mod c07;
