pub mod dhcp_hist;
