//! C06: the DNS cache never serves data past its TTL and never makes TTLs grow.
//! (1) the real cache functions (hook) under tokio's paused clock: TTL vectors x elapsed x keys;
//! (2) the live service: repeated questions around the expiry instant, upstream queries counted.
use crate::common::panics;
use crate::common::report::{Report, Violation};
use crate::enet::{BASE_YAML, Rig, RigSpec};
use crate::netrun::{self, CaseResult};
use crate::refdns::{self as rd, Rr};
use erbium::dns::dnspkt;
use erbium::dns::verif::cache::Harness;
use rayon::prelude::*;
use serde_json::{Value, json};
use std::time::Duration;

const TTLS: [u32; 8] = [0, 1, 2, 59, 60, 61, 1 << 31, u32::MAX];

fn section_lists(maxlen: usize) -> Vec<Vec<u32>> {
    let mut out = vec![vec![]];
    for a in TTLS {
        out.push(vec![a]);
        if maxlen >= 2 {
            for b in TTLS {
                out.push(vec![a, b]);
            }
        }
    }
    out
}

thread_local! {
    /// When set, the authority records of the replies built on this thread are SOA records with
    /// this MINIMUM field (a negative answer as an authoritative server or a resolver that does not
    /// lower the SOA TTL itself sends it): the record's own TTL is what ages, whatever MINIMUM says.
    static SOA_MIN: std::cell::Cell<Option<u32>> = const { std::cell::Cell::new(None) };
}

fn mk_reply(q: &rd::Name, an: &[u32], ns: &[u32], ar: &[u32]) -> dnspkt::DNSPkt {
    let mut p = crate::checks::c14::base_pkt(q);
    let rr = |ttl: u32, i: usize| rd::rr_to_erbium(&Rr { name: q.clone(), rtype: rd::T_A, class: 1, ttl, rdata: rd::Rdata::Raw(vec![10, 0, 0, i as u8]) });
    p.answer = an.iter().enumerate().map(|(i, t)| rr(*t, i)).collect();
    if let Some(min) = SOA_MIN.with(|c| c.get()) {
        let zone = rd::name("example.com");
        p.nameserver = ns
            .iter()
            .enumerate()
            .map(|(i, t)| rd::rr_to_erbium(&Rr { name: zone.clone(), rtype: rd::T_SOA, class: 1, ttl: *t, rdata: rd::Rdata::Soa(rd::name("ns.example.com"), rd::name("hostmaster.example.com"), [2024 + i as u32, 7200, 900, 1_209_600, min]) }))
            .collect();
        p.additional = ar.iter().enumerate().map(|(i, t)| rr(*t, 20 + i)).collect();
        return p;
    }
    p.nameserver = ns.iter().enumerate().map(|(i, t)| rr(*t, 10 + i)).collect();
    p.additional = ar.iter().enumerate().map(|(i, t)| rr(*t, 20 + i)).collect();
    p
}

fn all_ttls(p: &dnspkt::DNSPkt) -> Vec<u32> {
    p.answer.iter().chain(p.nameserver.iter()).chain(p.additional.iter()).map(|r| r.ttl).collect()
}

struct Probe {
    name: &'static str,
    qname: rd::Name,
    qtype: u16,
    edns_do: bool,
    cd: bool,
    same: Option<bool>, // Some(true) = the inserted key; Some(false) = a different key; None = don't-care (case variant)
}

fn probes() -> Vec<Probe> {
    vec![
        Probe { name: "same", qname: rd::name("www.example.com"), qtype: 1, edns_do: false, cd: false, same: Some(true) },
        Probe { name: "other-name", qname: rd::name("ww.example.com"), qtype: 1, edns_do: false, cd: false, same: Some(false) },
        Probe { name: "case-variant", qname: rd::name("WWW.example.com"), qtype: 1, edns_do: false, cd: false, same: None },
        Probe { name: "other-type", qname: rd::name("www.example.com"), qtype: 28, edns_do: false, cd: false, same: Some(false) },
        Probe { name: "do-flipped", qname: rd::name("www.example.com"), qtype: 1, edns_do: true, cd: false, same: Some(false) },
        Probe { name: "cd-flipped", qname: rd::name("www.example.com"), qtype: 1, edns_do: false, cd: true, same: Some(false) },
        Probe { name: "parent-name", qname: rd::name("example.com"), qtype: 1, edns_do: false, cd: false, same: Some(false) },
    ]
}

/// One TTL vector through the real cache functions.
fn one_vector(an: &[u32], ns: &[u32], ar: &[u32]) -> (u64, String, Vec<Violation>) {
    one_vector_rc(an, ns, ar, 0)
}

/// The same for an upstream reply with response code `rc` (an error reply may carry records too;
/// whatever the code, nothing is served past the smallest TTL it carries).
fn one_vector_rc(an: &[u32], ns: &[u32], ar: &[u32], rc: u8) -> (u64, String, Vec<Violation>) {
    let q = rd::name("www.example.com");
    let mut reply = mk_reply(&q, an, ns, ar);
    reply.rcode = dnspkt::RCode(rc.into());
    let ttls = all_ttls(&reply);
    let m: u64 = ttls.iter().copied().min().unwrap_or(0) as u64;
    let mut case = json!({"engine":"c06","part":"function","an":an,"ns":ns,"ar":ar,"rcode":rc});
    if let Some(min) = SOA_MIN.with(|c| c.get()) {
        case["soa_minimum"] = json!(min);
    }
    let mut vs: Vec<Violation> = vec![];
    let mut n = 0u64;
    let rt = tokio::runtime::Builder::new_current_thread().enable_time().start_paused(true).build().expect("rt");
    let r = panics::catch(|| {
        rt.block_on(async {
            let mut out: Vec<(&'static str, String)> = vec![];
            let mut n = 0u64;
            let mut h = Harness::new();
            let exp = h.calculate_expiry(&reply);
            // a lifetime shorter than the smallest TTL is merely conservative; longer is the violation
            if exp > Duration::from_secs(m) {
                out.push(("expiry-exceeds-min-ttl", format!("calculate_expiry = {:?} but the smallest TTL over all three sections is {m}s (TTLs {:?})", exp, ttls)));
            }
            // what handle_query does: only cache if the lifetime is positive
            let cached = exp > Duration::ZERO;
            if cached {
                h.insert(&rd::to_domain(&q), dnspkt::Type(1), false, false, &reply, exp);
            }
            // elapsed times around the expiry instant, in increasing order (ms)
            let mut ds: Vec<u128> = vec![0, 999, 1000];
            let mm = m as u128 * 1000;
            for d in [mm.saturating_sub(1000), mm.saturating_sub(1), mm, mm + 1, mm + 1000] {
                ds.push(d);
            }
            ds.sort();
            ds.dedup();
            let mut elapsed: u128 = 0;
            let mut hits = 0;
            for d in ds {
                if d > elapsed {
                    let step = Duration::from_millis((d - elapsed) as u64);
                    tokio::time::advance(step).await;
                    elapsed = d;
                }
                for sweep in [false, true] {
                    if sweep {
                        h.expire();
                    }
                    for p in probes() {
                        n += 1;
                        let r = h.lookup(&rd::to_domain(&p.qname), dnspkt::Type(p.qtype), p.edns_do, p.cd);
                        match (r, p.same) {
                            (None, _) => {}
                            (Some(_), Some(false)) => out.push(("wrong-key-hit", format!("entry cached for www.example.com/A/DO=0/CD=0 was returned for probe '{}' after {d} ms", p.name))),
                            (Some(_), None) => {}
                            (Some(res), Some(true)) => {
                                hits += 1;
                                if !cached {
                                    out.push(("zero-ttl-cached", "a reply with minimum TTL 0 was served from the cache".into()));
                                }
                                if d > mm {
                                    out.push(("served-past-ttl", format!("served from cache {d} ms after it was obtained, smallest TTL is {m}s (sweep={sweep})")));
                                }
                                match res {
                                    Err(e) => out.push(("cached-error", format!("cache returned an error for a cached reply: {e}"))),
                                    Ok(pkt) => {
                                        let got = all_ttls(&pkt);
                                        let fl = (d / 1000) as u64;
                                        let want: Vec<u32> = ttls.iter().map(|t| (*t as u64).saturating_sub(fl) as u32).collect();
                                        if got != want {
                                            out.push(("ttl-ageing", format!("after {d} ms the served TTLs are {:?}, expected original - floor(elapsed) = {:?}", got, want)));
                                        }
                                    }
                                }
                            }
                        }
                    }
                }
            }
            (out, n, hits, cached)
        })
    });
    let class;
    match r {
        Err(p) => {
            class = "panic".to_string();
            vs.push(Violation::new("cache-panic", format!("cache code panicked for TTLs {:?}: {} at {}", ttls, p.msg, panics::short_loc(&p.loc)), case).sig("loc", panics::short_loc(&p.loc)));
        }
        Ok((out, k, hits, cached)) => {
            n = k;
            class = format!("min{}:{}:{}", if m == 0 { "0" } else if m < 60 { "small" } else if m < 1 << 31 { "minute" } else { "huge" }, if cached { "cached" } else { "uncached" }, if hits > 0 { "hit" } else { "nohit" });
            let mut seen = std::collections::BTreeSet::new();
            for (o, w) in out {
                if seen.insert(o) {
                    vs.push(Violation::new(o, w, case.clone()).sig("part", "function"));
                }
            }
        }
    }
    (n, class, vs)
}

/// Histories with two insertions under the same key: reply 1 (TTL l1) at t=0, reply 2 (TTL l2,
/// different record data) after `gap_ms`, optionally an expiry sweep in between, then lookups at
/// several instants.  A hit must be explainable by ONE of the two insertions: the record data of
/// reply i, served no later than l_i after insertion i, TTL = l_i - floor(elapsed since i).
fn reinsert_history(l1: u32, l2: u32, gap_ms: u64, sweep_between: bool) -> (u64, String, Vec<Violation>) {
    let q = rd::name("www.example.com");
    let mk = |ttl: u32, marker: u8| {
        let mut p = crate::checks::c14::base_pkt(&q);
        p.answer = vec![rd::rr_to_erbium(&Rr { name: q.clone(), rtype: rd::T_A, class: 1, ttl, rdata: rd::Rdata::Raw(vec![10, 9, 9, marker]) })];
        p
    };
    let (r1, r2) = (mk(l1, 1), mk(l2, 2));
    let case = json!({"engine":"c06","part":"reinsert","ttl1":l1,"ttl2":l2,"gap_ms":gap_ms,"sweep_between":sweep_between});
    let rt = tokio::runtime::Builder::new_current_thread().enable_time().start_paused(true).build().expect("rt");
    let r = panics::catch(|| {
        rt.block_on(async {
            let mut out: Vec<(&'static str, String)> = vec![];
            let mut n = 0u64;
            let mut h = Harness::new();
            let dom = rd::to_domain(&q);
            let e1 = h.calculate_expiry(&r1);
            if e1 > Duration::ZERO {
                h.insert(&dom, dnspkt::Type(1), false, false, &r1, e1);
            }
            tokio::time::advance(Duration::from_millis(gap_ms)).await;
            if sweep_between {
                h.expire();
            }
            let e2 = h.calculate_expiry(&r2);
            if e2 > Duration::ZERO {
                h.insert(&dom, dnspkt::Type(1), false, false, &r2, e2);
            }
            let (m1, m2) = (l1 as u128 * 1000, l2 as u128 * 1000);
            let mut ds: Vec<u128> = vec![0, 1, 999, 1000, m2.saturating_sub(1), m2, m2 + 1, m2 + 1000, m1.saturating_sub(gap_ms as u128), m1.saturating_sub(gap_ms as u128) + 1, m1, m1 + 1, m1.max(m2) + 31_000];
            ds.sort();
            ds.dedup();
            let mut elapsed2: u128 = 0;
            let mut hits = 0u32;
            for d in ds {
                if d > elapsed2 {
                    tokio::time::advance(Duration::from_millis((d - elapsed2) as u64)).await;
                    elapsed2 = d;
                }
                for sweep in [false, true] {
                    if sweep {
                        h.expire();
                    }
                    n += 1;
                    if let Some(res) = h.lookup(&dom, dnspkt::Type(1), false, false) {
                        hits += 1;
                        match res {
                            Err(e) => out.push(("cached-error", format!("cache returned an error for a cached reply: {e}"))),
                            Ok(pkt) => {
                                let Some(rr) = pkt.answer.first() else {
                                    out.push(("reinsert-served", "cache hit without the answer record".into()));
                                    continue;
                                };
                                let marker = match &rd::rr_from_erbium(rr).rdata {
                                    rd::Rdata::Raw(v) if v.len() == 4 => v[3],
                                    _ => 0,
                                };
                                let elapsed1 = d + gap_ms as u128;
                                let ok1 = marker == 1 && elapsed1 <= m1 && rr.ttl as u128 == (l1 as u128).saturating_sub(elapsed1 / 1000);
                                let ok2 = marker == 2 && d <= m2 && rr.ttl as u128 == (l2 as u128).saturating_sub(d / 1000);
                                if !(ok1 || ok2) {
                                    let which = if marker == 1 { "first" } else { "second" };
                                    let (age, ttl) = if marker == 1 { (elapsed1, l1) } else { (d, l2) };
                                    out.push((
                                        if age > ttl as u128 * 1000 { "served-past-ttl" } else { "ttl-ageing" },
                                        format!("insert TTL {l1}s, {gap_ms} ms later (sweep between: {sweep_between}) insert TTL {l2}s under the same key; {d} ms after that the cache serves the {which} reply, obtained {age} ms ago with TTL {ttl}s, carrying TTL {}", rr.ttl),
                                    ));
                                }
                            }
                        }
                    }
                }
            }
            (out, n, hits)
        })
    });
    match r {
        Err(p) => (1, "reinsert:panic".into(), vec![Violation::new("cache-panic", format!("cache code panicked in a re-insertion history (TTL {l1}s, gap {gap_ms} ms, TTL {l2}s): {} at {}", p.msg, panics::short_loc(&p.loc)), case).sig("loc", panics::short_loc(&p.loc))]),
        Ok((out, n, hits)) => {
            let mut vs = vec![];
            let mut seen = std::collections::BTreeSet::new();
            for (o, w) in out {
                if seen.insert(o) {
                    vs.push(Violation::new(o, w, case.clone()).sig("part", "reinsert"));
                }
            }
            let rel = if gap_ms as u128 > l1 as u128 * 1000 { "after-expiry" } else { "while-live" };
            (n, format!("reinsert:{rel}:{}:{}", if sweep_between { "swept" } else { "unswept" }, if hits > 0 { "hit" } else { "nohit" }), vs)
        }
    }
}

fn reinsert_part(rep: &mut Report, thorough: bool) -> (u64, std::collections::BTreeSet<String>) {
    let ttls: Vec<u32> = if thorough { vec![0, 1, 2, 5, 8, 30, 60, 300, 86400] } else { vec![0, 1, 2, 8, 30, 300] };
    let mut work = vec![];
    for l1 in &ttls {
        for l2 in &ttls {
            let m1 = *l1 as u64 * 1000;
            let mut gaps = vec![0, 1, m1.saturating_sub(1), m1, m1 + 1, m1 + 1000, m1 + 29_000, m1 + 31_000];
            gaps.sort();
            gaps.dedup();
            for g in gaps {
                for sw in [false, true] {
                    work.push((*l1, *l2, g, sw));
                }
            }
        }
    }
    let outs: Vec<(u64, String, Vec<Violation>)> = work.par_iter().map(|(a, b, g, s)| reinsert_history(*a, *b, *g, *s)).collect();
    let mut n = 0;
    let mut classes = std::collections::BTreeSet::new();
    let mut seen = std::collections::BTreeSet::new();
    for (k, c, vs) in outs {
        n += k;
        classes.insert(c);
        for v in vs {
            if seen.insert(v.oracle.clone()) || rep.violations.len() < 30 {
                rep.violation(v);
            }
        }
    }
    (n, classes)
}

fn function_part(rep: &mut Report, thorough: bool) -> (u64, std::collections::BTreeSet<String>) {
    let big = section_lists(2);
    let small = if thorough { section_lists(2) } else { section_lists(1) };
    let mut work: Vec<(Vec<u32>, Vec<u32>, Vec<u32>)> = vec![];
    // full product: one section over all lists of length <=2, the other two over `small`
    for varied in 0..3 {
        for l in &big {
            for a in &small {
                for b in &small {
                    let t = match varied {
                        0 => (l.clone(), a.clone(), b.clone()),
                        1 => (a.clone(), l.clone(), b.clone()),
                        _ => (a.clone(), b.clone(), l.clone()),
                    };
                    work.push(t);
                }
            }
        }
    }
    work.sort();
    work.dedup();
    let mut outs: Vec<(u64, String, Vec<Violation>)> = work.par_iter().map(|(a, b, c)| one_vector(a, b, c)).collect();
    // error replies: SERVFAIL, NXDOMAIN, REFUSED with the same TTL vectors
    for rc in [2u8, 3, 5] {
        let more: Vec<(u64, String, Vec<Violation>)> = work
            .par_iter()
            .map(|(a, b, c)| {
                let (n, cls, vs) = one_vector_rc(a, b, c, rc);
                (n, format!("rc{rc}:{cls}"), vs)
            })
            .collect();
        outs.extend(more);
    }
    // negative answers: the authority section holds SOA records whose MINIMUM field is below, at
    // and above their TTL (NODATA and NXDOMAIN; with and without an answer / additional section)
    for rc in [0u8, 3] {
        for soa_min in [0u32, 1, 30, 59, 60, 61, 3600, u32::MAX] {
            let more: Vec<(u64, String, Vec<Violation>)> = work
                .par_iter()
                .filter(|(a, b, _)| !b.is_empty() && a.len() <= 1)
                .map(|(a, b, c)| {
                    SOA_MIN.with(|m| m.set(Some(soa_min)));
                    let (n, cls, vs) = one_vector_rc(a, b, c, rc);
                    SOA_MIN.with(|m| m.set(None));
                    (n, format!("soa:rc{rc}:{cls}"), vs.into_iter().map(|v| v.sig("records", "soa")).collect())
                })
                .collect();
            outs.extend(more);
        }
    }
    let mut n = 0;
    let mut classes = std::collections::BTreeSet::new();
    let mut seen = std::collections::BTreeSet::new();
    for (k, c, vs) in outs {
        n += k;
        classes.insert(c);
        for v in vs {
            if seen.insert(format!("{}{:?}", v.oracle, v.sig.get("records"))) || rep.violations.len() < 30 {
                rep.violation(v);
            }
        }
    }
    (n, classes)
}

// ---------------------------------------------------------------------------
// Live service
// ---------------------------------------------------------------------------

pub fn cases(_tier: &str) -> Vec<Value> {
    let mut out = vec![];
    for ttl in [0u32, 1, 2, 60] {
        for class in [1u16, 3] {
            for tr in ["udp", "tcp"] {
                out.push(json!({"engine":"enet","check":"c06","kind":"expiry","ttl":ttl,"class":class,"transport":tr}));
            }
        }
    }
    for variant in ["type", "do", "cd-wire-0x10", "ad-wire-0x20", "name", "class"] {
        out.push(json!({"engine":"enet","check":"c06","kind":"key","variant":variant}));
    }
    out.push(json!({"engine":"enet","check":"c06","kind":"min-over-sections"}));
    // the entry has expired (but no sweep has removed it yet) and the upstream FAILS when asked
    // again: whatever the client is told, it is not the expired data
    for ttl in [1u32, 2, 20] {
        for past_ms in [1u64, 5_000] {
            for mode in ["silent", "tc-then-close"] {
                for tr in ["udp", "tcp"] {
                    out.push(json!({"engine":"enet","check":"c06","kind":"stale-on-failure","ttl":ttl,"past_ms":past_ms,"mode":mode,"transport":tr}));
                }
            }
        }
    }
    out
}

/// ask once while the upstream fails: "silent" = it answers nothing at all; "tc-then-close" = it
/// answers over UDP with an empty truncated reply and closes every TCP connection unanswered.
/// Time is advanced second by second (at most 75 s) until the client has a reply.
fn ask_failing(rig: &mut Rig, q: &Value, id: u16, mode: &str) -> Result<Option<rd::Msg>, String> {
    let (_qm, qb) = crate::checks::c03::build_query(q, id);
    let dst = rig.listen_addr(0);
    let cip: std::net::IpAddr = "::1".parse().unwrap();
    let tcp = q["transport"].as_str() == Some("tcp");
    let mut uc = None;
    let mut tc = None;
    if tcp {
        let mut c = crate::enet::TcpClient::connect(Some(cip), dst)?;
        c.conn.send_frame(&qb)?;
        tc = Some(c);
    } else {
        let c = crate::enet::UdpClient::new(cip)?;
        c.send(dst, &qb)?;
        uc = Some(c);
    }
    let mut closed = 0usize;
    for s in 0..=75 {
        if s > 0 {
            rig.advance(Duration::from_secs(1));
        }
        for _ in 0..3 {
            rig.pump(3);
            rig.poll_upstreams();
            let up = &mut rig.upstreams[0];
            if mode == "tc-then-close" {
                let new: Vec<(Vec<u8>, std::net::SocketAddr)> = up.udp_rx.iter().skip(up.udp_taken).cloned().collect();
                for (b, src) in new {
                    if let Ok((oq, _)) = rd::decode(&b) {
                        let rep = rd::Msg { id: oq.id, flags: 0x8380, question: oq.question.clone(), answer: vec![], authority: vec![], additional: vec![] };
                        let _ = up.udp_reply(src, &rd::encode(&rep, false));
                    }
                }
                while closed < up.conns.len() {
                    if !up.conns[closed].frames_in.is_empty() || up.conns[closed].eof {
                        let _ = up.conns[closed].stream.shutdown(std::net::Shutdown::Both);
                        up.conns[closed].eof = true;
                        closed += 1;
                    } else {
                        break;
                    }
                }
            }
            up.udp_taken = up.udp_rx.len();
        }
        if let Some(c) = uc.as_mut() {
            c.poll();
            if let Some((b, _)) = c.rx.first() {
                return Ok(rd::decode(b).ok().map(|x| x.0));
            }
        }
        if let Some(c) = tc.as_mut() {
            c.poll();
            if let Some(b) = c.conn.frames_in.first() {
                return Ok(rd::decode(b).ok().map(|x| x.0));
            }
            if c.conn.eof {
                return Ok(None);
            }
        }
    }
    Ok(None)
}

/// ask once; returns (reply, upstream queries caused)
fn ask(rig: &mut Rig, q: &Value, id: u16, r: &Value) -> Result<(Option<rd::Msg>, usize), String> {
    let before = rig.upstreams[0].udp_rx.len() + rig.upstreams[0].tcp_frames_total();
    // cache hit path never reaches the upstream: exchange() would time out waiting; do it by hand
    let (_qm, qb) = crate::checks::c03::build_query(q, id);
    let dst = rig.listen_addr(0);
    let cip: std::net::IpAddr = "::1".parse().unwrap();
    let tcp = q["transport"].as_str() == Some("tcp");
    let mut uc = None;
    let mut tc = None;
    if tcp {
        let mut c = crate::enet::TcpClient::connect(Some(cip), dst)?;
        c.conn.send_frame(&qb)?;
        tc = Some(c);
    } else {
        let c = crate::enet::UdpClient::new(cip)?;
        c.send(dst, &qb)?;
        uc = Some(c);
    }
    let mut served = 0usize;
    let mut reply = None;
    for _ in 0..400 {
        rig.pump(4);
        rig.poll_upstreams();
        let total = rig.upstreams[0].udp_rx.len() + rig.upstreams[0].tcp_frames_total() - before;
        while served < total {
            // answer the newest upstream query
            let up = &mut rig.upstreams[0];
            // find the item: prefer UDP datagrams then TCP frames in arrival order
            let udp_new: Vec<(Vec<u8>, std::net::SocketAddr)> = up.udp_rx.iter().skip(up.udp_taken).cloned().collect();
            if let Some((b, src)) = udp_new.first() {
                up.udp_taken += 1;
                if let Ok((oq, _)) = rd::decode(b) {
                    let rep = crate::checks::c03::build_reply(r, &oq);
                    let _ = up.udp_reply(*src, &rd::encode(&rep, true));
                }
            } else {
                for c in up.conns.iter_mut() {
                    if let Some(f) = c.frames_in.last().cloned() {
                        if let Ok((oq, _)) = rd::decode(&f) {
                            let rep = crate::checks::c03::build_reply(r, &oq);
                            let _ = c.send_frame(&rd::encode(&rep, true));
                        }
                    }
                }
            }
            served += 1;
        }
        if let Some(c) = uc.as_mut() {
            c.poll();
            if let Some((b, _)) = c.rx.first() {
                reply = rd::decode(b).ok().map(|x| x.0);
                break;
            }
        }
        if let Some(c) = tc.as_mut() {
            c.poll();
            if let Some(b) = c.conn.frames_in.first() {
                reply = rd::decode(b).ok().map(|x| x.0);
                break;
            }
            if c.conn.eof {
                break;
            }
        }
    }
    let caused = rig.upstreams[0].udp_rx.len() + rig.upstreams[0].tcp_frames_total() - before;
    rig.upstreams[0].udp_taken = rig.upstreams[0].udp_rx.len();
    Ok((reply, caused))
}

pub fn run_case(case: &Value) -> CaseResult {
    let spec = RigSpec { listeners: vec!["::1".into()], n_upstreams: 1, yaml: BASE_YAML.into() };
    let mut rig = match Rig::start(&spec) {
        Ok(r) => r,
        Err(e) => return CaseResult::machinery(e),
    };
    let mut res = CaseResult::ok(format!("live:{}", case["kind"].as_str().unwrap_or("")));
    let mk = |oracle: &str, what: String| Violation::new(oracle, what, case.clone()).sig("part", "live");
    let mut n = 0;
    macro_rules! step {
        ($q:expr, $r:expr, $id:expr) => {{
            n += 1;
            match ask(&mut rig, $q, $id, $r) {
                Ok(x) => x,
                Err(e) => {
                    let _ = rig.stop();
                    return CaseResult::machinery(e);
                }
            }
        }};
    }
    match case["kind"].as_str() {
        Some("expiry") => {
            let ttl = case["ttl"].as_u64().unwrap() as u32;
            let class = case["class"].as_u64().unwrap();
            // the reply's only record has TTL `ttl` (record index 0 has ttl 300 in the C03 alphabet: build our own)
            let q = json!({"name":"ttl.example","type":1,"class":class,"edns":"plain","flags":"rd","transport":case["transport"]});
            // reply descriptor understood by c03::build_reply uses alphabet TTLs; use the 'ttl' override below
            let r = json!({"rcode":0,"an":[0],"ns":[],"ar":[],"compress":true,"opt":true,"ttl_override":ttl});
            let (a1, u1) = step!(&q, &r, 1);
            if u1 != 1 || a1.is_none() {
                res.violations.push(mk("first-query", format!("first query caused {u1} upstream queries / reply {:?}", a1.is_some())));
            }
            // same question immediately
            let (a2, u2) = step!(&q, &r, 2);
            let cacheable = ttl > 0 && class == 1;
            if !cacheable && u2 != 1 {
                res.violations.push(mk(if class != 1 { "non-in-class-cached" } else { "zero-ttl-cached" }, format!("identical query (ttl {ttl}, class {class}) was answered without asking upstream ({u2} upstream queries)")));
            }
            if let Some(m) = &a2 {
                if m.answer.first().map(|r| r.ttl) != Some(ttl) {
                    res.violations.push(mk("ttl-ageing", format!("second reply at +0s has TTL {:?}, original {ttl}", m.answer.first().map(|r| r.ttl))));
                }
            }
            if ttl >= 2 {
                // halfway: still cacheable, TTL aged by whole seconds
                rig.advance(Duration::from_millis(1500));
                let (a3, u3) = step!(&q, &r, 3);
                if let Some(m) = &a3 {
                    let t = m.answer.first().map(|r| r.ttl);
                    if u3 == 0 && t != Some(ttl - 1) {
                        res.violations.push(mk("ttl-ageing", format!("served from cache after 1.5s with TTL {:?}, expected {}", t, ttl - 1)));
                    }
                    if u3 == 1 && t != Some(ttl) {
                        res.violations.push(mk("ttl-ageing", format!("fresh answer with TTL {:?}", t)));
                    }
                }
            }
            if ttl > 0 {
                // just past the expiry instant: must go upstream again
                let past = Duration::from_secs(ttl as u64) + Duration::from_millis(1);
                let already = rig.virt_elapsed;
                if past > already {
                    rig.advance(past - already);
                }
                let (a4, u4) = step!(&q, &r, 4);
                if u4 != 1 {
                    res.violations.push(mk("served-past-ttl", format!("{}ms after the reply was obtained (TTL {ttl}s) the identical query caused {u4} upstream queries", rig.virt_elapsed.as_millis())));
                }
                if let Some(m) = &a4 {
                    if m.answer.first().map(|r| r.ttl) != Some(ttl) {
                        res.violations.push(mk("ttl-ageing", format!("re-resolved answer has TTL {:?}, upstream said {ttl}", m.answer.first().map(|r| r.ttl))));
                    }
                }
            }
        }
        Some("stale-on-failure") => {
            let ttl = case["ttl"].as_u64().unwrap_or(1) as u32;
            let q = json!({"name":"stale.example","type":1,"class":1,"edns":"plain","flags":"rd","transport":case["transport"]});
            let r = json!({"rcode":0,"an":[0],"ns":[],"ar":[],"compress":true,"opt":true,"ttl_override":ttl});
            let (a1, u1) = step!(&q, &r, 1);
            if u1 != 1 || a1.is_none() {
                res.violations.push(mk("first-query", format!("first query caused {u1} upstream queries / reply {:?}", a1.is_some())));
            }
            let past = Duration::from_secs(ttl as u64) + Duration::from_millis(case["past_ms"].as_u64().unwrap_or(1));
            let already = rig.virt_elapsed;
            if past > already {
                rig.advance(past - already);
            }
            n += 1;
            match ask_failing(&mut rig, &q, 2, case["mode"].as_str().unwrap_or("silent")) {
                Err(e) => {
                    let _ = rig.stop();
                    return CaseResult::machinery(e);
                }
                Ok(Some(m)) if m.rcode() == 0 && !m.answer.is_empty() => {
                    res.violations.push(mk("served-past-ttl", format!("{} ms after an answer with TTL {ttl} s was obtained, with the upstream failing ({}), the identical query was answered with that answer again (TTL {:?})", past.as_millis(), case["mode"].as_str().unwrap_or(""), m.answer.first().map(|r| r.ttl))));
                }
                Ok(_) => {}
            }
        }
        Some("key") => {
            let base = json!({"name":"key.example","type":1,"class":1,"edns":"plain","flags":"rd","transport":"tcp"});
            let r = json!({"rcode":0,"an":[0],"ns":[],"ar":[],"compress":true,"opt":true});
            let (_a, u) = step!(&base, &r, 1);
            if u != 1 {
                res.violations.push(mk("first-query", format!("first query caused {u} upstream queries")));
            }
            let mut v = base.clone();
            let variant = case["variant"].as_str().unwrap();
            match variant {
                "type" => v["type"] = json!(28),
                "do" => v["edns"] = json!("do"),
                "cd-wire-0x10" => v["flags"] = json!("rd+cd"),
                "ad-wire-0x20" => v["flags"] = json!("rd+ad"),
                "name" => v["name"] = json!("kez.example"),
                _ => v["class"] = json!(3),
            }
            let (_a2, u2) = step!(&v, &r, 2);
            // the AD bit of a query is not part of the statement's key: don't-care
            if variant != "ad-wire-0x20" && u2 != 1 {
                res.violations.push(mk("wrong-key-hit", format!("a query differing in '{variant}' from the cached one was answered from the cache ({u2} upstream queries)")).sig("variant", variant));
            }
            // and the original key is still served from cache
            let (_a3, u3) = step!(&base, &r, 3);
            if u3 != 0 {
                res.class = "live:key:original-not-cached".into();
            }
        }
        _ => {
            // smallest TTL over all three sections governs: answer 300, authority 86400, additional 1
            let q = json!({"name":"min.example","type":1,"class":1,"edns":"plain","flags":"rd","transport":"udp"});
            let r = json!({"rcode":0,"an":[0],"ns":[3],"ar":[4],"compress":true,"opt":true});
            let (_a, _u) = step!(&q, &r, 1);
            rig.advance(Duration::from_millis(1001));
            let (_a2, u2) = step!(&q, &r, 2);
            if u2 != 1 {
                res.violations.push(mk("served-past-ttl", "reply with an additional record of TTL 1 was still served from the cache after 1.001s".into()));
            }
        }
    }
    let ps = rig.stop();
    if let Some(p) = ps.first() {
        res.violations.push(mk("panic", format!("service task panicked: {} at {}", p.msg, panics::short_loc(&p.loc))));
    }
    res.stats = json!({"live_queries": n});
    res
}

pub fn run(tier: &str, replay: Option<Value>) -> ! {
    let mut rep = Report::new("C06", if replay.is_some() { "quick" } else { tier }, "model_checking");
    if let Some(case) = replay {
        rep.replay_mode = true;
        let case = if case.get("case").is_some() { case["case"].clone() } else { case };
        if case["engine"].as_str() == Some("enet") {
            netrun::replay_one(&mut rep, &case, run_case);
        } else if case["part"].as_str() == Some("reinsert") {
            let u = |k: &str| case[k].as_u64().unwrap_or(0);
            for v in reinsert_history(u("ttl1") as u32, u("ttl2") as u32, u("gap_ms"), case["sweep_between"].as_bool().unwrap_or(false)).2 {
                rep.violation(v);
            }
        } else {
            let g = |k: &str| -> Vec<u32> { case[k].as_array().map(|a| a.iter().filter_map(|x| x.as_u64()).map(|x| x as u32).collect()).unwrap_or_default() };
            SOA_MIN.with(|m| m.set(case["soa_minimum"].as_u64().map(|x| x as u32)));
            for v in one_vector_rc(&g("an"), &g("ns"), &g("ar"), case["rcode"].as_u64().unwrap_or(0) as u8).2 {
                rep.violation(v);
            }
        }
        rep.finish();
    }
    let (n, mut classes) = function_part(&mut rep, tier == "thorough");
    let (n_re, c_re) = reinsert_part(&mut rep, tier == "thorough");
    let n = n + n_re;
    classes.extend(c_re);
    let agg = netrun::run_sharded(&mut rep, "C06", tier, cases, 16);
    let lq = agg.stats_sum.get("live_queries").copied().unwrap_or(0.0) as u64;
    rep.cov("states", classes.len() as u64 + agg.classes.len() as u64);
    rep.cov("transitions", n + lq);
    rep.cov("traces_validated_against_impl", n + lq);
    rep.cov("evaluations", n + lq);
    rep.cov("distinct_nontrivial", classes.len() as u64 + agg.classes.len() as u64);
    rep.cov("rule", "function: for response codes NOERROR, SERVFAIL, NXDOMAIN and REFUSED, TTL vectors over {0,1,2,59,60,61,2^31,2^32-1}: one section over all lists of length <=2, the other two over lists of length <=1 (thorough <=2), all three choices of the varied section; for each, the real calculate_expiry/insert/get_entry/expire under tokio's paused clock at elapsed {0, 0.999, 1, min-1, min-0.001, min, min+0.001, min+1} s x 7 probe keys, before and after an expire sweep; the same for negative answers (NODATA, NXDOMAIN) whose authority records are SOA records with MINIMUM in {0,1,30,59,60,61,3600,2^32-1} -- below, at and above their TTL; re-insertion histories: TTL l1 at t=0, TTL l2 (other record data) after a gap in {0, 1 ms, l1-1ms, l1, l1+1ms, l1+1s, l1+29s, l1+31s} with/without a sweep between, l1,l2 in {0,1,2,8,30,300} (thorough 9 values), looked up at 13 instants with/without sweep: every hit must be explained by one of the two insertions. live: TTL {0,1,2,60} x class {IN,CH} x UDP/TCP asked at +0, +1.5 s and just past expiry; key variants (type, DO, CD, name, class); minimum over sections; stale-on-failure: TTL {1,2,20} x {1 ms, 5 s} past expiry x upstream {silent, truncated-then-closed} x UDP/TCP -- the expired answer must not come back. transitions = cache lookups + live queries");
    rep.cov("exhaustive", true);
    rep.cov("function_classes", json!(classes));
    rep.cov("live_classes", json!(agg.classes));
    rep.cov("samples", json!([{"an":[60],"ns":[1],"ar":[],"elapsed_ms":[0,999,1000,1001,2000]},{"kind":"expiry","ttl":2,"class":1,"transport":"udp"}]));
    rep.assume("a query name differing only in case may or may not share the entry (don't-care); the AD bit of a query is not part of the key");
    rep.finish()
}
