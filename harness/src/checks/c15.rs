//! C15: longest matching suffix wins, regardless of route order, suffix order and case.
//! E-NET: one live DnsService per route table, one scripted upstream per forward route.
use crate::common::report::{Report, Violation};
use crate::enet::{Rig, RigSpec, TcpClient};
use crate::netrun::{self, CaseResult};
use crate::refdns as rd;
use serde_json::{Value, json};

const SUFFIXES: [&str; 7] = ["", "com", "example.com", "a.example.com", "org", "Example.COM", "b.a.example.com"];
const NAMES: [&str; 10] = ["example.com", "x.example.com", "a.example.com", "b.a.example.com", "EXAMPLE.com", "xexample.com", "com", "net", "", "B.A.Example.Com"];

fn permutations<T: Clone>(v: &[T]) -> Vec<Vec<T>> {
    if v.len() <= 1 {
        return vec![v.to_vec()];
    }
    let mut out = vec![];
    for i in 0..v.len() {
        let mut rest = v.to_vec();
        let x = rest.remove(i);
        for mut p in permutations(&rest) {
            p.insert(0, x.clone());
            out.push(p);
        }
    }
    out
}

/// all partitions of `items` into at most `maxb` non-empty blocks
fn partitions(items: &[usize], maxb: usize) -> Vec<Vec<Vec<usize>>> {
    if items.is_empty() {
        return vec![vec![]];
    }
    let first = items[0];
    let mut out = vec![];
    for p in partitions(&items[1..], maxb) {
        for b in 0..p.len() {
            let mut q = p.clone();
            q[b].insert(0, first);
            out.push(q);
        }
        if p.len() < maxb {
            let mut q = p.clone();
            q.insert(0, vec![first]);
            out.push(q);
        }
    }
    out
}

/// A case is a route table written in a particular order: [{type, suffixes:[idx...]}...]
pub fn cases(tier: &str) -> Vec<Value> {
    let thorough = tier == "thorough";
    let (max_suffixes, max_routes) = (4, 3);
    let mut out = vec![];
    // quick: the first 6 suffixes; thorough: all 7
    let n = if thorough { SUFFIXES.len() } else { 6 };
    for mask in 1u32..(1 << n) {
        let set: Vec<usize> = (0..n).filter(|i| mask & (1 << i) != 0).collect();
        if set.len() > max_suffixes {
            continue;
        }
        // "example.com" and "Example.COM" are the same suffix: only meaningful inside one route
        let both = set.contains(&2) && set.contains(&5);
        for part in partitions(&set, max_routes) {
            if both && !part.iter().any(|b| b.contains(&2) && b.contains(&5)) {
                continue; // same suffix in two routes: don't-care
            }
            // canonical block order to avoid counting the same partition twice
            let mut part = part;
            part.sort();
            for types in 0..(1u32 << part.len()) {
                // route orders x suffix orders (suffix order only permuted for the first block with >1 suffix to keep it finite)
                for ro in permutations(&(0..part.len()).collect::<Vec<_>>()) {
                    let mut variants: Vec<Vec<Vec<usize>>> = vec![vec![]];
                    for &bi in &ro {
                        let perms = if part[bi].len() > 1 { permutations(&part[bi]) } else { vec![part[bi].clone()] };
                        let mut next = vec![];
                        for v in &variants {
                            for p in &perms {
                                let mut w = v.clone();
                                w.push(p.clone());
                                next.push(w);
                            }
                        }
                        variants = next;
                    }
                    for v in variants {
                        let routes: Vec<Value> = ro.iter().zip(v.iter()).map(|(bi, sufs)| json!({"block": bi, "nx": types & (1 << bi) != 0, "suffixes": sufs})).collect();
                        let k = out.len();
                        out.push(json!({"engine":"enet","check":"c15","routes":routes,"all_types": k % 8 == 0}));
                    }
                }
            }
        }
    }
    // octet folding: "ASCII case-insensitive" folds the 26 letters and nothing else.  For every
    // printable octet c a table {forward: 'x<c>y.fold', forge-nxdomain: 'fold'} is asked for
    // x<d>y.fold with every octet d (quick: c, c^0x20, c+-1, upper/lower); it must be forwarded iff
    // d equals c up to the case of an ASCII letter.
    let printable: Vec<u8> = (0x21u8..0x7f).filter(|c| !matches!(*c, b'.' | b'\'' | b'"' | b'\\')).collect();
    for chunk in printable.chunks(6) {
        out.push(json!({"engine":"enet","check":"c15","kind":"octets","chars":chunk,"all":thorough}));
    }
    // histories: what an earlier query (to another route's server) left behind must not decide
    // where a later query goes.  Nested suffixes on different servers; first an enclosing name is
    // asked and answered by the shorter route's server (NXDOMAIN with an SOA, NODATA with an SOA, or
    // an address), then names under the longer route are asked: they go to the longer route's server.
    for (short, long, enclosing) in [("", "corp.example.com", "example.com"), ("", "corp.example.com", "com"), ("com", "example.com", "com"), ("example.com", "corp.example.com", "example.com"), ("", "example.com", "com")] {
        for first in ["nxdomain-soa", "nodata-soa", "address"] {
            for order in [0, 1] {
                out.push(json!({"engine":"enet","check":"c15","kind":"history","short":short,"long":long,"enclosing":enclosing,"first":first,"long_route_first":order == 1}));
            }
        }
    }
    out
}

fn run_history(case: &Value) -> CaseResult {
    let (short, long) = (case["short"].as_str().unwrap_or(""), case["long"].as_str().unwrap_or(""));
    let long_first = case["long_route_first"].as_bool().unwrap_or(false);
    // upstream 0 serves the route written first
    let (r0, r1) = if long_first { (long, short) } else { (short, long) };
    let yaml = format!("---\ndns-listeners: {{LISTENERS}}\ndns-routes:\n  - domain-suffixes: ['{r0}']\n    type: forward\n    dns-servers: ['{{UP0}}']\n  - domain-suffixes: ['{r1}']\n    type: forward\n    dns-servers: ['{{UP1}}']\n");
    let up_short = if long_first { 1 } else { 0 };
    let up_long = 1 - up_short;
    let spec = RigSpec { listeners: vec!["::1".into()], n_upstreams: 2, yaml };
    let mut rig = match Rig::start(&spec) {
        Ok(r) => r,
        Err(e) => return CaseResult::machinery(e),
    };
    let mut res = CaseResult::ok("history");
    let first = case["first"].as_str().unwrap_or("");
    let enclosing = case["enclosing"].as_str().unwrap_or("");
    let mut qn = 0u16;
    // ask `name`; every upstream that receives it answers (the short route's server as scripted for
    // the enclosing name, otherwise an address); returns which upstreams were asked
    let mut ask = |rig: &mut Rig, name: &str, script: &str| -> Result<(Vec<usize>, Option<u16>), String> {
        qn += 1;
        let q = rd::query(0x6c00 + qn, &rd::name(name), rd::T_A, 1, true, None);
        let before: Vec<usize> = rig.upstreams.iter().map(|u| u.tcp_frames_total()).collect();
        let mut c = TcpClient::connect(Some("::1".parse().unwrap()), rig.listen_addr(0))?;
        c.conn.send_frame(&rd::encode(&q, false))?;
        let mut answered = vec![0usize; rig.upstreams.len()];
        let mut rcode = None;
        for _ in 0..300 {
            rig.pump(4);
            rig.poll_upstreams();
            for ui in 0..rig.upstreams.len() {
                let u = &mut rig.upstreams[ui];
                for ci in 0..u.conns.len() {
                    while !u.conns[ci].frames_in.is_empty() && answered[ui] < u.tcp_frames_total() - before[ui] {
                        let f = u.conns[ci].frames_in.last().unwrap().clone();
                        answered[ui] += 1;
                        if let Ok((oq, _)) = rd::decode(&f) {
                            let soa = rd::Rr { name: rd::name(if enclosing.is_empty() { "." } else { "com" }), rtype: rd::T_SOA, class: 1, ttl: 300, rdata: rd::Rdata::Soa(rd::name("ns.invalid"), rd::name("root.invalid"), [1, 2, 3, 4, 300]) };
                            let addr = rd::Rr { name: oq.question[0].0.clone(), rtype: rd::T_A, class: 1, ttl: 300, rdata: rd::Rdata::Raw(vec![10, 0, 0, ui as u8 + 1]) };
                            let rep = match script {
                                "nxdomain-soa" => rd::Msg { id: oq.id, flags: 0x8183, question: oq.question.clone(), answer: vec![], authority: vec![soa], additional: vec![] },
                                "nodata-soa" => rd::Msg { id: oq.id, flags: 0x8180, question: oq.question.clone(), answer: vec![], authority: vec![soa], additional: vec![] },
                                _ => rd::Msg { id: oq.id, flags: 0x8180, question: oq.question.clone(), answer: vec![addr], authority: vec![], additional: vec![] },
                            };
                            let _ = u.conns[ci].send_frame(&rd::encode(&rep, true));
                        }
                    }
                }
            }
            c.poll();
            if let Some(b) = c.conn.frames_in.first() {
                rcode = rd::decode(b).ok().map(|(m, _)| m.rcode());
                break;
            }
            if c.conn.eof {
                break;
            }
        }
        let asked: Vec<usize> = rig.upstreams.iter().enumerate().filter(|(i, u)| u.tcp_frames_total() > before[*i]).map(|(i, _)| i).collect();
        Ok((asked, rcode))
    };
    // 1. the enclosing name, answered by the short route's server as scripted
    match ask(&mut rig, enclosing, first) {
        Err(e) => {
            let _ = rig.stop();
            return CaseResult::machinery(e);
        }
        Ok((asked, _)) => {
            if asked != vec![up_short] {
                res.violations.push(Violation::new("upstream-choice", format!("routes ['{short}' -> upstream {up_short}, '{long}' -> upstream {up_long}]: the enclosing name '{enclosing}' went to upstreams {:?}", asked), case.clone()).sig("oracle", "upstream-choice").sig("part", "history"));
            }
        }
    }
    // 2. names under the long route: its own server must be asked, whatever the first answer was
    let under: Vec<String> = vec![format!("host.{long}"), long.to_string(), format!("a.b.{long}")];
    for name in under {
        match ask(&mut rig, &name, "address") {
            Err(e) => {
                let _ = rig.stop();
                return CaseResult::machinery(e);
            }
            Ok((asked, rcode)) => {
                if asked != vec![up_long] {
                    res.violations.push(
                        Violation::new("upstream-choice", format!("routes ['{short}' -> upstream {up_short}, '{long}' -> upstream {up_long}]: after '{enclosing}' was answered ({first}) by upstream {up_short}, the query for '{name}' -- which belongs to the route '{long}' -- went to upstreams {:?} and the client got rcode {:?}", asked, rcode), case.clone())
                            .sig("oracle", "upstream-choice")
                            .sig("part", "history"),
                    );
                }
            }
        }
    }
    let ps = rig.stop();
    if let Some(p) = ps.first() {
        res.violations.push(Violation::new("panic", format!("service task panicked while routing: {} at {}", p.msg, crate::common::panics::short_loc(&p.loc)), case.clone()).sig("loc", crate::common::panics::short_loc(&p.loc)));
    }
    let mut st = serde_json::Map::new();
    st.insert("queries".into(), json!(4));
    st.insert("class:history".into(), json!(1));
    res.stats = Value::Object(st);
    res
}

fn run_octets(case: &Value) -> CaseResult {
    let chars: Vec<u8> = case["chars"].as_array().map(|a| a.iter().filter_map(|x| x.as_u64()).map(|x| x as u8).collect()).unwrap_or_default();
    let all = case["all"].as_bool().unwrap_or(false);
    let mut res = CaseResult::ok("octets");
    let mut n = 0u64;
    let mut rejected = 0u64;
    for c in chars {
        let yaml = format!("---\ndns-listeners: {{LISTENERS}}\ndns-routes:\n  - domain-suffixes: ['x{}y.fold']\n    type: forward\n    dns-servers: ['{{UP0}}']\n  - domain-suffixes: ['fold']\n    type: forge-nxdomain\n", c as char);
        let spec = RigSpec { listeners: vec!["::1".into()], n_upstreams: 1, yaml };
        let mut rig = match Rig::start(&spec) {
            Ok(r) => r,
            Err(_) => {
                // the loader does not take this octet in a suffix: nothing to route
                rejected += 1;
                continue;
            }
        };
        let ds: Vec<u8> = if all {
            (0..=255u8).collect()
        } else {
            let mut v = vec![c, c ^ 0x20, c.wrapping_add(1), c.wrapping_sub(1), c.to_ascii_uppercase(), c.to_ascii_lowercase(), c | 0x80];
            v.sort();
            v.dedup();
            v
        };
        let mut qn = 0u16;
        for d in ds {
            qn += 1;
            n += 1;
            let want_fwd = d.eq_ignore_ascii_case(&c);
            let name: rd::Name = vec![vec![b'x', d, b'y'], b"fold".to_vec()];
            let q = rd::query(0x6800 + qn, &name, rd::T_A, 1, true, None);
            let before = rig.upstreams[0].tcp_frames_total() + rig.upstreams[0].udp_rx.len();
            let mut cl = match TcpClient::connect(Some("::1".parse().unwrap()), rig.listen_addr(0)) {
                Ok(c) => c,
                Err(e) => return CaseResult::machinery(e),
            };
            if let Err(e) = cl.conn.send_frame(&rd::encode(&q, false)) {
                return CaseResult::machinery(e);
            }
            let mut reply: Option<Vec<u8>> = None;
            let mut answered = 0usize;
            for _ in 0..300 {
                rig.pump(4);
                rig.poll_upstreams();
                let u = &mut rig.upstreams[0];
                for ci in 0..u.conns.len() {
                    while !u.conns[ci].frames_in.is_empty() && answered < u.tcp_frames_total() - before.min(u.tcp_frames_total()) {
                        let f = u.conns[ci].frames_in.last().unwrap().clone();
                        answered += 1;
                        if let Ok((oq, _)) = rd::decode(&f) {
                            let rep = rd::Msg { id: oq.id, flags: 0x8180, question: oq.question.clone(), answer: vec![rd::Rr { name: oq.question[0].0.clone(), rtype: rd::T_A, class: 1, ttl: 60, rdata: rd::Rdata::Raw(vec![10, 0, 0, 1]) }], authority: vec![], additional: vec![] };
                            let _ = u.conns[ci].send_frame(&rd::encode(&rep, true));
                        }
                    }
                }
                cl.poll();
                if let Some(b) = cl.conn.frames_in.first() {
                    reply = Some(b.clone());
                    break;
                }
                if cl.conn.eof {
                    break;
                }
            }
            let got_up = rig.upstreams[0].tcp_frames_total() + rig.upstreams[0].udp_rx.len() - before;
            let sub = json!({"engine":"enet","check":"c15","kind":"octets","chars":[c],"all":true});
            let mk = |oracle: &str, what: String| Violation::new(oracle, format!("table [fwd 'x{}y.fold', nx 'fold'], query label x\\{:03}y: {}", c as char, d, what), sub.clone()).sig("oracle", oracle).sig("part", "octets");
            let Some(rb) = reply else {
                res.violations.push(mk("no-reply", "no reply".into()));
                continue;
            };
            let Ok((m, _)) = rd::decode(&rb) else {
                res.violations.push(mk("malformed", "malformed reply".into()));
                continue;
            };
            let want_rc = if want_fwd { 0 } else { 3 };
            if m.rcode() != want_rc {
                res.violations.push(mk("rcode", format!("rcode {}, expected {} (octet {:#04x} {} the suffix octet {:#04x} under ASCII letter-case folding)", m.rcode(), want_rc, d, if want_fwd { "equals" } else { "differs from" }, c)));
            }
            if (got_up > 0) != want_fwd {
                res.violations.push(mk("upstream-choice", format!("the forward route's upstream received {got_up} queries, expected {}", want_fwd as u8)));
            }
        }
        let ps = rig.stop();
        if let Some(p) = ps.first() {
            res.violations.push(Violation::new("panic", format!("service task panicked while routing: {} at {}", p.msg, crate::common::panics::short_loc(&p.loc)), case.clone()).sig("loc", crate::common::panics::short_loc(&p.loc)));
        }
    }
    let mut st = serde_json::Map::new();
    st.insert("queries".into(), json!(n));
    st.insert("suffix_octets_rejected_by_loader".into(), json!(rejected));
    st.insert("class:octets".into(), json!(1));
    res.stats = Value::Object(st);
    res
}

fn labels_lower(s: &str) -> Vec<String> {
    if s.is_empty() { vec![] } else { s.split('.').map(|l| l.to_ascii_lowercase()).collect() }
}

/// Reference: index of the route whose suffix is the longest whole-label, case-insensitive suffix of `name`.
fn expected_route(routes: &[Value], name: &str) -> Option<usize> {
    let n = labels_lower(name);
    let mut best: Option<(usize, usize)> = None;
    for (ri, r) in routes.iter().enumerate() {
        for s in r["suffixes"].as_array().unwrap() {
            let sl = labels_lower(SUFFIXES[s.as_u64().unwrap() as usize]);
            if sl.len() <= n.len() && n[n.len() - sl.len()..] == sl[..] {
                if best.map(|b| sl.len() > b.1).unwrap_or(true) {
                    best = Some((ri, sl.len()));
                }
            }
        }
    }
    best.map(|b| b.0)
}

pub fn run_case(case: &Value) -> CaseResult {
    if case["kind"].as_str() == Some("octets") {
        return run_octets(case);
    }
    if case["kind"].as_str() == Some("history") {
        return run_history(case);
    }
    let routes = case["routes"].as_array().cloned().unwrap_or_default();
    // upstream k serves the k-th forward route (in written order)
    let mut yaml = String::from("---\ndns-listeners: {LISTENERS}\ndns-routes:\n");
    let mut up_of_route: Vec<Option<usize>> = vec![];
    let mut nup = 0;
    for r in &routes {
        let sufs: Vec<String> = r["suffixes"].as_array().unwrap().iter().map(|s| format!("'{}'", SUFFIXES[s.as_u64().unwrap() as usize])).collect();
        yaml.push_str(&format!("  - domain-suffixes: [{}]\n", sufs.join(", ")));
        if r["nx"].as_bool().unwrap_or(false) {
            yaml.push_str("    type: forge-nxdomain\n");
            up_of_route.push(None);
        } else {
            yaml.push_str(&format!("    type: forward\n    dns-servers: ['{{UP{nup}}}']\n"));
            up_of_route.push(Some(nup));
            nup += 1;
        }
    }
    let spec = RigSpec { listeners: vec!["::1".into()], n_upstreams: nup.max(1), yaml };
    let mut rig = match Rig::start(&spec) {
        Ok(r) => r,
        Err(e) => return CaseResult::machinery(e),
    };
    let mut res = CaseResult::ok("");
    let mut classes: std::collections::BTreeSet<String> = Default::default();
    let mut qn = 0u16;
    // the route is a function of the NAME alone: every query type takes the same one (A and DS --
    // the one type whose answer lives in the parent zone -- for every table; the others for every
    // 8th table of the enumeration)
    let mut plan: Vec<(&str, bool, u16)> = vec![];
    for name in NAMES {
        for rd_flag in [true, false] {
            plan.push((name, rd_flag, rd::T_A));
        }
        plan.push((name, true, 43));
        if case["all_types"].as_bool().unwrap_or(false) {
            for t in [rd::T_NS, rd::T_SOA, rd::T_CNAME, rd::T_PTR, rd::T_TXT, rd::T_AAAA, 48u16, 46, 65, 257, 65280] {
                plan.push((name, true, t));
            }
        }
    }
    'outer: for (name, rd_flag, qtype) in plan {
        {
            qn += 1;
            let exp = expected_route(&routes, name);
            let q = rd::query(0x6000 + qn, &rd::name(name), qtype, 1, rd_flag, None);
            let qb = rd::encode(&q, false);
            let before: Vec<usize> = rig.upstreams.iter().map(|u| u.tcp_frames_total() + u.udp_rx.len()).collect();
            let mut c = match TcpClient::connect(Some("::1".parse().unwrap()), rig.listen_addr(0)) {
                Ok(c) => c,
                Err(e) => {
                    res.machinery = Some(e);
                    break 'outer;
                }
            };
            if let Err(e) = c.conn.send_frame(&qb) {
                res.machinery = Some(e);
                break 'outer;
            }
            // serve: whichever upstream receives the query answers it
            let mut reply: Option<Vec<u8>> = None;
            let mut answered: Vec<usize> = vec![0; rig.upstreams.len()];
            for _ in 0..300 {
                rig.pump(4);
                rig.poll_upstreams();
                for ui in 0..rig.upstreams.len() {
                    let u = &mut rig.upstreams[ui];
                    for ci in 0..u.conns.len() {
                        while u.conns[ci].frames_in.len() > 0 && answered[ui] < u.tcp_frames_total() - before[ui] {
                            // answer the newest frame on this connection
                            let f = u.conns[ci].frames_in.last().unwrap().clone();
                            answered[ui] += 1;
                            if let Ok((oq, _)) = rd::decode(&f) {
                                let rep = rd::Msg { id: oq.id, flags: 0x8180, question: oq.question.clone(), answer: vec![rd::Rr { name: oq.question[0].0.clone(), rtype: rd::T_A, class: 1, ttl: 60, rdata: rd::Rdata::Raw(vec![10, 0, 0, ui as u8 + 1]) }], authority: vec![], additional: vec![] };
                                let _ = u.conns[ci].send_frame(&rd::encode(&rep, true));
                            }
                        }
                    }
                }
                c.poll();
                if let Some(b) = c.conn.frames_in.first() {
                    reply = Some(b.clone());
                    break;
                }
                if c.conn.eof {
                    break;
                }
            }
            let got: Vec<usize> = rig.upstreams.iter().enumerate().map(|(i, u)| u.tcp_frames_total() + u.udp_rx.len() - before[i]).collect();
            let sub = json!({"engine":"enet","check":"c15","routes":routes,"name":name,"rd":rd_flag,"type":qtype,"all_types":case["all_types"]});
            let table: Vec<String> = routes.iter().map(|r| format!("{}{:?}", if r["nx"].as_bool().unwrap() { "nx" } else { "fwd" }, r["suffixes"].as_array().unwrap().iter().map(|s| SUFFIXES[s.as_u64().unwrap() as usize]).collect::<Vec<_>>())).collect();
            let mk = |oracle: &str, what: String| Violation::new(oracle, format!("table {:?}, query '{}' type {} rd={}: {}", table, name, qtype, rd_flag, what), sub.clone()).sig("oracle", oracle).sig("qtype", if qtype == 1 { "A" } else { "other" });
            let Some(rb) = reply else {
                res.violations.push(mk("no-reply", "no reply".into()));
                classes.insert("no-reply".into());
                continue;
            };
            let Ok((m, _)) = rd::decode(&rb) else {
                res.violations.push(mk("malformed", "malformed reply".into()));
                continue;
            };
            let rc = m.rcode();
            let (want_rc, want_up): (u16, Option<usize>) = match exp {
                None => (2, None),
                Some(ri) => match up_of_route[ri] {
                    None => (3, None),
                    Some(u) => {
                        if rd_flag {
                            (0, Some(u))
                        } else {
                            (5, None)
                        }
                    }
                },
            };
            classes.insert(format!("rc{want_rc}:{}", if want_up.is_some() { "forwarded" } else { "local" }));
            if rc != want_rc {
                let mut v = mk("rcode", format!("rcode {rc}, longest-suffix rule says {want_rc} (route {:?})", exp));
                // signature for matching: does the expected match need case folding?
                let folded = exp.map(|ri| routes[ri]["suffixes"].as_array().unwrap().iter().any(|s| {
                    let su = SUFFIXES[s.as_u64().unwrap() as usize];
                    !su.is_empty() && name.to_ascii_lowercase().ends_with(&su.to_ascii_lowercase()) && !name.ends_with(su)
                })).unwrap_or(false);
                v = v.sig("needs_case_folding", folded);
                res.violations.push(v);
            }
            for (ui, n) in got.iter().enumerate() {
                let want = if want_up == Some(ui) { 1 } else { 0 };
                if *n != want {
                    res.violations.push(mk("upstream-choice", format!("upstream {ui} received {n} queries, expected {want} (expected route {:?})", exp)));
                }
            }
            if rc == 0 && want_rc == 0 {
                let from = m.answer.first().and_then(|r| if let rd::Rdata::Raw(b) = &r.rdata { b.get(3).copied() } else { None });
                if from != want_up.map(|u| u as u8 + 1) {
                    res.violations.push(mk("answer-origin", format!("answer came from upstream {:?}, expected upstream {:?}", from.map(|b| b as i32 - 1), want_up)));
                }
            }
        }
    }
    let ps = rig.stop();
    if let Some(p) = ps.first() {
        res.violations.push(Violation::new("panic", format!("service task panicked while routing: {} at {}", p.msg, crate::common::panics::short_loc(&p.loc)), case.clone()).sig("loc", crate::common::panics::short_loc(&p.loc)));
    }
    res.class = format!("routes{}", routes.len());
    let mut st = serde_json::Map::new();
    st.insert("queries".into(), json!(qn));
    for c in classes {
        st.insert(format!("class:{c}"), json!(1));
    }
    res.stats = Value::Object(st);
    res
}

pub fn run(tier: &str, replay: Option<Value>) -> ! {
    let mut rep = Report::new("C15", if replay.is_some() { "quick" } else { tier }, "exploration");
    if let Some(case) = replay {
        rep.replay_mode = true;
        let case = if case.get("case").is_some() { case["case"].clone() } else { case };
        netrun::replay_one(&mut rep, &case, run_case);
        // a replay re-runs the whole table; keep only the failing query if one was named
        if let Some(n) = case["name"].as_str() {
            let n = n.to_string();
            let rdv = case["rd"].as_bool();
            let ty = case["type"].as_u64();
            rep.violations.retain(|v| v.case["name"].as_str() == Some(&n) && v.case["rd"].as_bool() == rdv && (ty.is_none() || v.case["type"].as_u64() == ty));
        }
        rep.finish();
    }
    let agg = netrun::run_sharded(&mut rep, "C15", tier, cases, 16);
    let q = agg.stats_sum.get("queries").copied().unwrap_or(0.0) as u64;
    let classes: Vec<String> = agg.stats_sum.keys().filter_map(|k| k.strip_prefix("class:").map(|s| s.to_string())).collect();
    rep.cov("evaluations", q);
    rep.cov("distinct_nontrivial", agg.executions);
    rep.cov("rule", "route tables: every subset of <=4 of the 6 suffixes {'',com,example.com,a.example.com,org,Example.COM} (thorough: 7, + b.a.example.com) partitioned into <=3 routes, every forward/forge-nxdomain typing, every route order and every suffix order inside each route; each table is served by a live DnsService with one scripted upstream per forward route and asked 10 names x RD{1,0} over TCP with type A, plus type DS (every 8th table: also NS, SOA, CNAME, PTR, TXT, AAAA, DNSKEY, RRSIG, HTTPS, CAA, 65280) -- the route depends on the name alone; octet folding: for every printable octet c the table {forward 'x<c>y.fold', forge-nxdomain 'fold'} asked for x<d>y.fold with d in {c, c^0x20, c+-1, upper, lower, c|0x80} (thorough: all 256 octets), forwarded iff d equals c up to the case of an ASCII letter; histories: nested suffixes on two servers, an enclosing name first answered by the shorter route's server (NXDOMAIN+SOA / NODATA+SOA / address), then three names under the longer route, which must reach the longer route's server. evaluations = queries; distinct_nontrivial = distinct written tables");
    rep.cov("exhaustive", true);
    rep.cov("tables", agg.executions);
    rep.cov("outcome_classes", json!(classes));
    rep.cov("workers_in_private_netns", agg.isolated_workers as u64);
    rep.cov("samples", agg.samples);
    rep.assume("the same suffix (case-insensitively) in two different routes is don't-care and not generated; TCP clients (REFUSED over UDP is subject to the limiter, C16)");
    rep.finish()
}
