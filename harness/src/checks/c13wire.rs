//! C13 on the wire: "every reply carries a server identifier naming this server" while the
//! interface's IPv4 addresses change under the running service.  The real DhcpService (port 67) on
//! a veth pair; addresses are added to and removed from the receiving interface with `ip addr
//! add/del`; after every change a DISCOVER frame is sent from the other end.  Whatever is
//! answered must identify the server by (and be sent from) an address the interface has NOW.
use crate::checks::c12::{base_header, ref_decode, ref_encode};
use crate::common::panics;
use crate::common::report::Violation;
use crate::ewire::*;
use crate::netrun::CaseResult;
use serde_json::{Value, json};
use std::net::Ipv4Addr;

/// (tag, address, prefix length); P is there at the start
const ADDRS: [(&str, Ipv4Addr, u8); 3] = [("P", Ipv4Addr::new(192, 0, 2, 1), 24), ("Q", Ipv4Addr::new(192, 0, 2, 2), 24), ("S", Ipv4Addr::new(198, 51, 100, 1), 24)];

const YAML: &str = "---
dhcp-policies:
  - match-subnet: 192.0.2.0/24
    apply-range: {start: 192.0.2.10, end: 192.0.2.19}
  - match-subnet: 198.51.100.0/24
    apply-range: {start: 198.51.100.10, end: 198.51.100.19}
";

fn histories(depth: usize) -> Vec<Vec<String>> {
    fn rec(present: [bool; 3], left: usize, cur: &mut Vec<String>, out: &mut Vec<Vec<String>>) {
        if left == 0 {
            out.push(cur.clone());
            return;
        }
        let mut any = false;
        for i in 0..3 {
            let mut p = present;
            p[i] = !p[i];
            any = true;
            cur.push(format!("{}{}", if present[i] { "del" } else { "add" }, ADDRS[i].0));
            rec(p, left - 1, cur, out);
            cur.pop();
        }
        if !any {
            out.push(cur.clone());
        }
    }
    let mut out = vec![];
    rec([true, false, false], depth, &mut vec![], &mut out);
    out
}

pub fn cases(tier: &str) -> Vec<Value> {
    histories(if tier == "thorough" { 4 } else { 2 }).into_iter().map(|h| json!({"engine":"ewire","check":"c13","kind":"addr4-history","events":h})).collect()
}

pub fn run_case(case: &Value) -> CaseResult {
    if !crate::enet::ISOLATED.load(std::sync::atomic::Ordering::SeqCst) {
        return CaseResult::machinery("the wire part needs a private network namespace (unshare failed)");
    }
    teardown_veth();
    if let Err(e) = setup_veth(Route6::None) {
        return CaseResult::machinery(format!("veth set-up: {e}"));
    }
    let mut res = CaseResult::ok("wire:addr4-history");
    let mut w = match WireRt::new() {
        Ok(w) => w,
        Err(e) => return CaseResult::machinery(e),
    };
    crate::common::clock::set_secs(1_700_000_000);
    let netinfo = w.rt.block_on(erbium_net::netinfo::SharedNetInfo::new());
    w.pump(4);
    let mut wire = match Wire::open() {
        Ok(x) => x,
        Err(e) => return CaseResult::machinery(e),
    };
    let conf = match erbium::config::verif_load_config_from_string(YAML) {
        Ok(c) => c,
        Err(e) => return CaseResult::machinery(format!("wire config: {e}")),
    };
    let pool = match erbium::dhcp::pool::Pool::new_in_memory() {
        Ok(p) => p,
        Err(e) => return CaseResult::machinery(e.to_string()),
    };
    let svc = match w.rt.block_on(erbium::dhcp::DhcpService::verif_new_on_port(netinfo.clone(), conf, pool, 67)) {
        Ok(s) => std::sync::Arc::new(s),
        Err(e) => return CaseResult::machinery(format!("DhcpService on port 67: {e}")),
    };
    let task = w.rt.spawn(svc.clone().run());
    w.pump(4);
    let events: Vec<String> = case["events"].as_array().cloned().unwrap_or_default().iter().filter_map(|e| e.as_str().map(|s| s.to_string())).collect();
    let mut present = [true, false, false];
    let (mut sent, mut answered) = (0u64, 0u64);
    for step in 0..=events.len() {
        if step > 0 {
            let ev = &events[step - 1];
            let (add, tag) = if let Some(t) = ev.strip_prefix("add") { (true, t) } else { (false, ev.strip_prefix("del").unwrap_or("")) };
            let Some(i) = ADDRS.iter().position(|a| a.0 == tag) else { return CaseResult::machinery(format!("unknown event {ev}")) };
            // (an event whose effect is already there -- Q went away together with P -- is a no-op)
            if add != present[i] {
                let r = if add { addr4_add(ADDRS[i].1, ADDRS[i].2) } else { addr4_del(ADDRS[i].1, ADDRS[i].2) };
                if let Err(e) = r {
                    return CaseResult::machinery(format!("event {ev}: {e}"));
                }
            }
            present[i] = add;
            // removing a primary address removes its secondaries with it (promote_secondaries is
            // switched off in the rig): Q goes when P goes
            if !add && i == 0 && present[1] {
                present[1] = false;
            }
            w.pump(12);
        }
        // what the interface has now: the kernel's own list, not the harness's idea of its events
        let current: Vec<Ipv4Addr> = match kernel_ipv4_addrs() {
            Ok(v) => v,
            Err(e) => return CaseResult::machinery(e),
        };
        for (i, a) in ADDRS.iter().enumerate() {
            present[i] = current.contains(&a.1);
        }
        let sub = json!({"engine":"ewire","check":"c13","kind":"addr4-history","events":events[..step].to_vec()});
        let mk = |oracle: &str, what: String| Violation::new(oracle, format!("after the interface's IPv4 addresses changed at run time ({}; it now has {:?}): {what}", if step == 0 { "no change yet".to_string() } else { events[..step].join(", ") }, current), sub.clone()).sig("part", "wire-history").sig("oracle", oracle);
        // two clients per step, so that a second message meets the state the first one left
        for c in 0..2u8 {
            let mac = [2, 0, 0, 0, 9, c + 1];
            let mut hd = base_header();
            hd.xid = 0x1300_0000 + (step as u32) * 4 + c as u32;
            hd.chaddr16 = [0; 16];
            hd.chaddr16[..6].copy_from_slice(&mac);
            let payload = ref_encode(&hd, &[(53, vec![1]), (55, vec![1, 3, 6, 51, 54])], &[]);
            let frame = udp4_frame(&mac, &[0xff; 6], (Ipv4Addr::UNSPECIFIED, 68), (Ipv4Addr::BROADCAST, 67), &payload);
            wire.poll();
            let mark = wire.rx.len();
            if let Err(e) = wire.send(&frame) {
                return CaseResult::machinery(e);
            }
            sent += 1;
            let mut quiet = 0;
            let mut reply: Option<Vec<u8>> = None;
            for _ in 0..60 {
                w.pump(4);
                let got = wire.poll();
                for f in &wire.rx[mark..] {
                    if f.len() >= 12 && f[6..12] == SRV_MAC && as_dhcp_reply(f).is_some() {
                        reply = Some(f.clone());
                    }
                }
                if reply.is_some() {
                    break;
                }
                if got == 0 {
                    quiet += 1;
                    if quiet >= 6 {
                        break;
                    }
                } else {
                    quiet = 0;
                }
            }
            let Some(f) = reply else {
                // no address at all: nothing to identify oneself with; otherwise a DISCOVER on an
                // interface with an address inside a configured subnet is answered
                if !current.is_empty() {
                    res.violations.push(mk("discover-unanswered", "a DISCOVER was not answered although the interface has an address inside a configured subnet".into()));
                }
                continue;
            };
            answered += 1;
            let (_dmac, sip, _dip, _dport, pl) = as_dhcp_reply(&f).unwrap();
            if !current.contains(&sip) {
                res.violations.push(mk("reply-source", format!("the reply was sent from {sip}, which is not an address of the interface")));
            }
            match ref_decode(&pl) {
                Err(e) => res.violations.push(mk("wire-decode", format!("the reply payload does not decode: {e}"))),
                Ok(r) => {
                    if r.xid != hd.xid || r.chaddr16[..6] != mac {
                        res.violations.push(mk("echo-fields", format!("reply xid/chaddr {:#x}/{:02x?}, request {:#x}/{:02x?}", r.xid, &r.chaddr16[..6], hd.xid, mac)));
                    }
                    match r.options.get(&54) {
                        Some(v) if v.len() == 4 => {
                            let sid = Ipv4Addr::new(v[0], v[1], v[2], v[3]);
                            if !current.contains(&sid) {
                                res.violations.push(mk("server-id", format!("the reply's server identifier {sid} does not name this server: it is not an address of the interface")));
                            }
                            let yi = Ipv4Addr::from(r.yiaddr);
                            if yi.octets()[..3] != sid.octets()[..3] {
                                res.violations.push(mk("server-id", format!("the reply offers {yi} but identifies the server as {sid}, an address of another subnet")));
                            }
                        }
                        other => res.violations.push(mk("server-id", format!("reply server identifier missing/malformed: {:?}", other))),
                    }
                }
            }
        }
        let ps = panics::take_all();
        if let Some(p) = ps.first() {
            res.violations.push(mk("service-panic", format!("the service panicked: {} at {}", p.msg, panics::short_loc(&p.loc))));
            break;
        }
    }
    task.abort();
    drop(svc);
    w.pump(3);
    drop(wire);
    drop(w);
    teardown_veth();
    crate::common::clock::unset();
    res.stats = json!({"wire4_histories": 1, "wire4_discovers": sent, "wire4_replies": answered});
    res
}
