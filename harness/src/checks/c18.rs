//! C18: leases survive restarts, schema upgrades and kills.
//! (a) restart equivalence: every history of the alphabet on a long-lived file-backed Pool, and at
//!     every step the same operation on a Pool freshly reopened on a copy of the file: replies and
//!     resulting rows must be identical (by induction: reopening anywhere changes nothing);
//! (b) upgrade: v0 databases over a row alphabet, newer-version databases refused and untouched;
//! (c) kill points: E-CRASH, a child process dies before each write-class syscall SQLite issues.
use crate::common::report::{Report, Violation};
use crate::common::{clock, panics};
use crate::ecrash;
use crate::ehist::*;
use erbium::dhcp::pool::{self, rusqlite};
use rayon::prelude::*;
use serde_json::{Value, json};
use std::io::Read;
use std::sync::atomic::{AtomicU64, Ordering};

static SEQ: AtomicU64 = AtomicU64::new(0);

fn scratch_dir() -> String {
    let base = if std::path::Path::new("/dev/shm").is_dir() { "/dev/shm" } else { "/tmp" };
    let d = format!("{}/erbium-verif-c18-{}-{}", base, std::process::id(), SEQ.fetch_add(1, Ordering::SeqCst));
    std::fs::create_dir_all(&d).expect("scratch dir");
    d
}

fn open_pool(path: &str) -> Result<pool::Pool, String> {
    let conn = rusqlite::Connection::open(path).map_err(|e| format!("sqlite open: {e}"))?;
    pool::Pool::verif_with_conn(conn).map_err(|e| format!("{e}"))
}

fn result_sig(r: &StepResult) -> String {
    match r {
        StepResult::Reply(o) => format!("reply yiaddr={} opts={:?}", o.yiaddr, o.options),
        StepResult::Error(e) => format!("error {e}"),
        StepResult::Panic(m, l) => format!("panic {m} at {l}"),
    }
}

// ---------------------------------------------------------------------------
// (a) restart equivalence
// ---------------------------------------------------------------------------

fn restart_alphabet(cfgs: &[Cfg], thorough: bool) -> Alphabet {
    let spec = if thorough {
        AlphabetSpec { rfc4361_clients: false, cfgs: &["K1", "K2", "K5"], clients: 2, addrs: &["192.0.2.9"], ticks: &[150, 301] }
    } else {
        AlphabetSpec { rfc4361_clients: false, cfgs: &["K1", "K5"], clients: 2, addrs: &["192.0.2.9"], ticks: &[150, 301] }
    };
    build_alphabet(cfgs, &spec)
}

/// Run one history on a long-lived pool; at every step compare with a reopened copy.
fn restart_history(h: &[usize], alpha: &Alphabet, cfgs: &[Cfg], dir: &str) -> (u64, Vec<Violation>) {
    let path = format!("{dir}/live.sqlite");
    let copy = format!("{dir}/copy.sqlite");
    let _ = std::fs::remove_file(&path);
    let mut vs = vec![];
    let mut n = 0;
    let mut now = NOW0;
    clock::set_secs(now as u64);
    let mut live = match open_pool(&path) {
        Ok(p) => p,
        Err(e) => return (0, vec![Violation::new("open-fresh", format!("cannot create a fresh store: {e}"), json!({}))]),
    };
    let case = || json!({"engine":"c18","part":"restart","history": h.iter().map(|i| op_json(&alpha.ops[*i], cfgs)).collect::<Vec<_>>()});
    for (k, oi) in h.iter().enumerate() {
        match &alpha.ops[*oi] {
            Op::Tick(dt) => {
                now += dt;
                clock::set_secs(now as u64);
            }
            Op::Msg(m) => {
                n += 1;
                // fork the file, reopen the copy (a restart at this very point)
                let _ = std::fs::remove_file(&copy);
                if let Err(e) = std::fs::copy(&path, &copy) {
                    vs.push(Violation::new("machinery", format!("copy: {e}"), case()));
                    break;
                }
                let mut re = match open_pool(&copy) {
                    Ok(p) => p,
                    Err(e) => {
                        vs.push(Violation::new("reopen-failed", format!("step {k}: the store does not reopen: {e}"), case()).sig("part", "restart"));
                        break;
                    }
                };
                let pre_live = read_state(&mut live, now).unwrap_or_default();
                let pre_re = read_state(&mut re, now).unwrap_or_default();
                if pre_live != pre_re {
                    vs.push(Violation::new("rows-lost-on-reopen", format!("step {k}: rows after reopen {:?} differ from the live store's {:?}", state_json(&pre_re), state_json(&pre_live)), case()).sig("part", "restart"));
                    break;
                }
                let r_live = run_msg(&mut live, m, cfgs);
                let r_re = run_msg(&mut re, m, cfgs);
                let post_live = read_state(&mut live, now).unwrap_or_default();
                let post_re = read_state(&mut re, now).unwrap_or_default();
                if result_sig(&r_live) != result_sig(&r_re) {
                    vs.push(Violation::new("reply-differs-after-restart", format!("step {k}: uninterrupted server: {}; restarted server: {}", result_sig(&r_live), result_sig(&r_re)), case()).sig("part", "restart"));
                    break;
                }
                if post_live != post_re {
                    vs.push(Violation::new("rows-differ-after-restart", format!("step {k}: rows differ after the same message: live {} restarted {}", state_json(&post_live), state_json(&post_re)), case()).sig("part", "restart"));
                    break;
                }
                // the transition-local oracles of C01/C09/C10/C13 also hold on the long-lived store
                for jd in judge(&pre_live, m, &r_live, &post_live, cfgs) {
                    if jd.property == "C01" {
                        vs.push(Violation::new("long-lived-double-lease", format!("step {k} on the long-lived store: {}", jd.what), case()).sig("part", "restart"));
                    }
                }
            }
        }
    }
    // and once more after the last message: what the live server believes it has recorded must be
    // in the file (a write the connection has not committed is visible to the live server only)
    if vs.is_empty() {
        let _ = std::fs::remove_file(&copy);
        if std::fs::copy(&path, &copy).is_ok() {
            match open_pool(&copy) {
                Err(e) => vs.push(Violation::new("reopen-failed", format!("after the history: the store does not reopen: {e}"), case()).sig("part", "restart")),
                Ok(mut re) => {
                    let live_rows = read_state(&mut live, now).unwrap_or_default();
                    let re_rows = read_state(&mut re, now).unwrap_or_default();
                    if live_rows != re_rows {
                        vs.push(Violation::new("rows-lost-on-reopen", format!("after the history: rows after reopen {:?} differ from the live store's {:?}", state_json(&re_rows), state_json(&live_rows)), case()).sig("part", "restart"));
                    }
                }
            }
        }
    }
    (n, vs)
}

fn all_histories(n: usize, depth: usize) -> Vec<Vec<usize>> {
    let mut hs: Vec<Vec<usize>> = vec![vec![]];
    for _ in 0..depth {
        let mut next = Vec::with_capacity(hs.len() * n);
        for h in &hs {
            for a in 0..n {
                let mut g = h.clone();
                g.push(a);
                next.push(g);
            }
        }
        hs = next;
    }
    hs
}

fn run_restart_histories(rep: &mut Report, hs: &[Vec<usize>], alpha: &Alphabet, cfgs: &[Cfg]) -> u64 {
    let total: AtomicU64 = AtomicU64::new(0);
    let viols: Vec<Vec<Violation>> = hs
        .par_chunks(256)
        .map(|chunk| {
            let dir = scratch_dir();
            let mut out = vec![];
            for h in chunk {
                let (k, vs) = restart_history(h, alpha, cfgs, &dir);
                total.fetch_add(k, Ordering::Relaxed);
                if out.len() < 5 {
                    out.extend(vs);
                }
            }
            let _ = std::fs::remove_dir_all(&dir);
            out
        })
        .collect();
    let mut seen = std::collections::BTreeSet::new();
    for v in viols.into_iter().flatten() {
        if seen.insert(v.oracle.clone()) || rep.violations.len() < 20 {
            rep.violation(v);
        }
    }
    total.load(Ordering::Relaxed)
}

fn restart_part(rep: &mut Report, cfgs: &[Cfg], thorough: bool) -> (u64, u64) {
    // wide and shallow: the full restart alphabet to depth 3 (thorough 4)
    let alpha = restart_alphabet(cfgs, thorough);
    let hs = all_histories(alpha.ops.len(), if thorough { 4 } else { 3 });
    let mut steps = run_restart_histories(rep, &hs, &alpha, cfgs);
    let mut n = hs.len() as u64;
    // narrow and deep: one single-address pool, two clients, plain DISCOVERs and two clock steps,
    // to depth 8 (thorough 10).  State the Pool object accumulates over a longer life (a memo that is
    // never invalidated, a counter) needs histories of this length before it disagrees with a
    // freshly opened server, and only a handful of operations to get there.
    let narrow = Alphabet {
        ops: build_alphabet(cfgs, &AlphabetSpec { rfc4361_clients: false, cfgs: &["K5"], clients: 2, addrs: &[], ticks: &[150, 301] })
            .ops
            .into_iter()
            .filter(|o| match o {
                Op::Tick(_) => true,
                Op::Msg(m) => m.mtype == 1 && m.req.is_none() && m.lease_req.is_none() && m.serverid.is_none(),
            })
            .collect(),
    };
    let hs2 = all_histories(narrow.ops.len(), if thorough { 10 } else { 8 });
    steps += run_restart_histories(rep, &hs2, &narrow, cfgs);
    n += hs2.len() as u64;
    rep.cov("restart_narrow_deep", json!({"alphabet_ops": narrow.ops.len(), "depth": if thorough { 10 } else { 8 }, "histories": hs2.len()}));
    (n, steps)
}

// ---------------------------------------------------------------------------
// (b) upgrade
// ---------------------------------------------------------------------------

const V0_SCHEMA: &str = "CREATE TABLE leases (address TEXT NOT NULL, chaddr BLOB, clientid BLOB, start INTEGER NOT NULL, expiry INTEGER NOT NULL, PRIMARY KEY (address));";

#[derive(Clone, Debug, PartialEq)]
struct V0Row {
    addr: &'static str,
    clientid: Vec<u8>,
    chaddr: Option<Vec<u8>>,
    start: u32,
    expiry: u32,
}

fn write_v0(path: &str, rows: &[V0Row], version_table: u8) -> Result<(), String> {
    let _ = std::fs::remove_file(path);
    let c = rusqlite::Connection::open(path).map_err(|e| e.to_string())?;
    c.execute_batch(V0_SCHEMA).map_err(|e| e.to_string())?;
    match version_table {
        0 => {}
        1 => c.execute_batch("CREATE TABLE schema_version (key TEXT NOT NULL, version INTEGER NOT NULL, PRIMARY KEY (key));").map_err(|e| e.to_string())?,
        _ => c.execute_batch("CREATE TABLE schema_version (key TEXT NOT NULL, version INTEGER NOT NULL, PRIMARY KEY (key)); INSERT INTO schema_version VALUES ('pool', 0);").map_err(|e| e.to_string())?,
    }
    for r in rows {
        c.execute("INSERT INTO leases (address, chaddr, clientid, start, expiry) VALUES (?1, ?2, ?3, ?4, ?5)", rusqlite::params![r.addr, r.chaddr, r.clientid, r.start, r.expiry]).map_err(|e| e.to_string())?;
    }
    Ok(())
}

fn dump_logical(path: &str) -> Result<String, String> {
    let c = rusqlite::Connection::open(path).map_err(|e| e.to_string())?;
    let mut out = String::new();
    let mut st = c.prepare("SELECT type, name, sql FROM sqlite_master ORDER BY name").map_err(|e| e.to_string())?;
    let rows = st.query_map([], |r| Ok(format!("{:?}|{:?}|{:?}", r.get::<_, String>(0)?, r.get::<_, String>(1)?, r.get::<_, Option<String>>(2)?))).map_err(|e| e.to_string())?;
    for r in rows {
        out.push_str(&r.map_err(|e| e.to_string())?);
        out.push('\n');
    }
    for t in ["leases", "schema_version"] {
        if let Ok(mut st) = c.prepare(&format!("SELECT * FROM {t} ORDER BY 1")) {
            let n = st.column_count();
            let rows = st
                .query_map([], |r| {
                    let mut s = String::new();
                    for i in 0..n {
                        s.push_str(&format!("{:?},", r.get_ref(i)?));
                    }
                    Ok(s)
                })
                .map_err(|e| e.to_string())?;
            for r in rows {
                out.push_str(&r.map_err(|e| e.to_string())?);
                out.push('\n');
            }
        }
    }
    Ok(out)
}

fn upgrade_part(rep: &mut Report, thorough: bool) -> (u64, std::collections::BTreeSet<String>) {
    let now = NOW0 as u32;
    let times = [0u32, now - 1, now, now + 1, u32::MAX];
    let cids: Vec<Vec<u8>> = vec![vec![], vec![7], vec![0xab; 255]];
    let chs: Vec<Option<Vec<u8>>> = vec![None, Some(vec![2, 0, 0, 0, 0, 1])];
    let mut single: Vec<V0Row> = vec![];
    for c in &cids {
        for h in &chs {
            for s in times {
                for e in times {
                    single.push(V0Row { addr: "192.0.2.9", clientid: c.clone(), chaddr: h.clone(), start: s, expiry: e });
                }
            }
        }
    }
    let mut dbs: Vec<Vec<V0Row>> = vec![vec![]];
    for r in &single {
        dbs.push(vec![r.clone()]);
    }
    // two and three rows: identity fields in full, time pairs on the diagonal
    let step = if thorough { 1 } else { 7 };
    for (i, a) in single.iter().enumerate().step_by(step) {
        for (j, b) in single.iter().enumerate().step_by(step * 3 + 1) {
            let mut b = b.clone();
            b.addr = "192.0.2.10";
            dbs.push(vec![a.clone(), b.clone()]);
            if (i + j) % 5 == 0 {
                let mut c = a.clone();
                c.addr = "192.0.2.11";
                c.clientid = b.clientid.clone();
                dbs.push(vec![a.clone(), b, c]);
            }
        }
    }
    let classes: std::sync::Mutex<std::collections::BTreeSet<String>> = Default::default();
    let results: Vec<(u64, Vec<Violation>)> = dbs
        .par_chunks(64)
        .map(|chunk| {
            let dir = scratch_dir();
            let path = format!("{dir}/v0.sqlite");
            let mut n = 0;
            let mut vs = vec![];
            for rows in chunk {
                for vt in 0..3u8 {
                    n += 1;
                    let case = json!({"engine":"c18","part":"upgrade","rows": rows.iter().map(|r| json!({"addr": r.addr, "clientid_len": r.clientid.len(), "chaddr": r.chaddr.is_some(), "start": r.start, "expiry": r.expiry})).collect::<Vec<_>>(), "version_table": vt});
                    if let Err(e) = write_v0(&path, rows, vt) {
                        vs.push(Violation::new("machinery", e, case));
                        continue;
                    }
                    clock::set_secs(NOW0 as u64);
                    let r = panics::catch(|| open_pool(&path).and_then(|mut p| p.get_leases().map_err(|e| e.to_string())));
                    let mut want: Vec<(String, Vec<u8>, u32, u32)> = rows.iter().map(|r| (r.addr.to_string(), r.clientid.clone(), r.start, r.expiry)).collect();
                    want.sort();
                    match r {
                        Err(p) => vs.push(Violation::new("upgrade-panic", format!("opening a v0 database panicked: {} at {}", p.msg, panics::short_loc(&p.loc)), case).sig("part", "upgrade")),
                        Ok(Err(e)) => vs.push(Violation::new("upgrade-failed", format!("a version-0 database ({} rows, version table variant {vt}) does not open: {e}", rows.len()), case).sig("part", "upgrade")),
                        Ok(Ok(leases)) => {
                            let mut got: Vec<(String, Vec<u8>, u32, u32)> = leases.iter().map(|l| (l.ip.to_string(), l.client_id.clone(), l.start, l.expire)).collect();
                            got.sort();
                            classes.lock().unwrap().insert(format!("v0:rows{}:vt{vt}", rows.len()));
                            if got != want {
                                vs.push(Violation::new("upgrade-rows", format!("rows after upgrade differ from the v0 database's rows: {} vs {}", got.len(), want.len()), case.clone()).sig("part", "upgrade"));
                            }
                            if leases.iter().any(|l| !l.options.is_empty()) {
                                vs.push(Violation::new("upgrade-options", "upgraded rows have non-empty options".to_string(), case.clone()).sig("part", "upgrade"));
                            }
                            // second open is a no-op
                            let d1 = dump_logical(&path);
                            let r2 = open_pool(&path).map(|_| ());
                            let d2 = dump_logical(&path);
                            if r2.is_err() || d1 != d2 {
                                vs.push(Violation::new("second-open", format!("opening the upgraded database again failed or changed it: {:?}", r2.err()), case).sig("part", "upgrade"));
                            }
                        }
                    }
                }
            }
            let _ = std::fs::remove_dir_all(&dir);
            (n, vs)
        })
        .collect();
    let mut n = 0;
    let mut seen = std::collections::BTreeSet::new();
    for (k, vs) in results {
        n += k;
        for v in vs {
            if seen.insert(v.oracle.clone()) || rep.violations.len() < 20 {
                rep.violation(v);
            }
        }
    }
    // newer schema versions: refused, and nothing changed
    let dir = scratch_dir();
    for v in [2i64, 3, 1 << 31, i64::MAX] {
        for with_rows in [false, true] {
            n += 1;
            let path = format!("{dir}/new.sqlite");
            let _ = std::fs::remove_file(&path);
            let c = rusqlite::Connection::open(&path).unwrap();
            c.execute_batch("CREATE TABLE leases (address TEXT NOT NULL, chaddr BLOB, clientid BLOB, start INTEGER NOT NULL, expiry INTEGER NOT NULL, options BLOB, future_column TEXT, PRIMARY KEY (address)); CREATE TABLE schema_version (key TEXT NOT NULL, version INTEGER NOT NULL, PRIMARY KEY (key));").unwrap();
            c.execute("INSERT INTO schema_version VALUES ('pool', ?1)", rusqlite::params![v]).unwrap();
            if with_rows {
                c.execute_batch("INSERT INTO leases (address, clientid, start, expiry, future_column) VALUES ('192.0.2.9', x'01', 1, 2, 'x');").unwrap();
            }
            drop(c);
            let before = dump_logical(&path);
            let case = json!({"engine":"c18","part":"newer","version":v,"with_rows":with_rows});
            let r = panics::catch(|| open_pool(&path).map(|_| ()));
            let after = dump_logical(&path);
            classes.lock().unwrap().insert("newer-version".to_string());
            match r {
                Err(p) => rep.violation(Violation::new("newer-panic", format!("opening a version {v} database panicked: {}", p.msg), case).sig("part", "newer")),
                Ok(Ok(())) => rep.violation(Violation::new("newer-accepted", format!("a database of unknown newer schema version {v} was opened instead of refused"), case).sig("part", "newer")),
                Ok(Err(_)) => {
                    if before != after {
                        rep.violation(Violation::new("newer-modified", format!("a refused version {v} database was modified"), case).sig("part", "newer"));
                    }
                }
            }
        }
    }
    let _ = std::fs::remove_dir_all(&dir);
    let c = classes.into_inner().unwrap();
    (n, c)
}

// ---------------------------------------------------------------------------
// (c) kill points
// ---------------------------------------------------------------------------

pub struct CrashHistory {
    pub name: &'static str,
    pub v0_rows: bool,
    pub ops: Vec<MsgOp>,
}

pub fn crash_histories(cfgs: &[Cfg]) -> Vec<CrashHistory> {
    let k1 = cfgs.iter().position(|c| c.name == "K1").unwrap();
    let if1: std::net::Ipv4Addr = IF1.parse().unwrap();
    let m = |client: usize, mtype: u8, req: Option<&str>| {
        let mut x = MsgOp::basic(k1, if1, client, mtype);
        x.req = req.map(|s| s.parse().unwrap());
        x
    };
    vec![
        CrashHistory { name: "fresh-1", v0_rows: false, ops: vec![m(0, 1, None)] },
        CrashHistory { name: "fresh-offer-request", v0_rows: false, ops: vec![m(0, 1, Some("192.0.2.9")), m(0, 3, Some("192.0.2.9")), m(1, 1, Some("192.0.2.9"))] },
        CrashHistory { name: "fresh-collide-4", v0_rows: false, ops: vec![m(0, 1, Some("192.0.2.9")), m(1, 1, Some("192.0.2.9")), m(0, 3, Some("192.0.2.9")), m(1, 3, Some("192.0.2.10"))] },
        CrashHistory { name: "v0-upgrade-2", v0_rows: true, ops: vec![m(0, 1, None), m(1, 3, Some("192.0.2.10"))] },
    ]
}

fn crash_v0_rows() -> Vec<V0Row> {
    vec![
        V0Row { addr: "192.0.2.9", clientid: MAC_A.to_vec(), chaddr: Some(MAC_A.to_vec()), start: NOW0 as u32 - 100, expiry: NOW0 as u32 + 200 },
        V0Row { addr: "192.0.2.99", clientid: vec![9], chaddr: None, start: 1, expiry: 2 },
    ]
}

fn op_clock(i: usize) -> u64 {
    NOW0 as u64 + 100 * (i as u64 + 1)
}

/// Child process: run the history on `path`, dying before the k-th write-class call.
pub fn crash_child(hist: usize, k: i64, path: &str) -> ! {
    let cfgs = all_cfgs().expect("cfgs");
    let hs = crash_histories(&cfgs);
    let h = &hs[hist];
    clock::set_secs(NOW0 as u64);
    ecrash::arm(k, 1);
    let mut p = match open_pool(path) {
        Ok(p) => p,
        Err(e) => {
            ecrash::report(1, &format!("OPENFAIL {e}\n"));
            std::process::exit(3);
        }
    };
    ecrash::report(1, "OPEN\n");
    for (i, m) in h.ops.iter().enumerate() {
        clock::set_secs(op_clock(i));
        let r = run_msg(&mut p, m, &cfgs);
        // the reply has been produced: acknowledge (uncounted raw write)
        ecrash::report(1, &format!("ACK {i} {}\n", result_sig(&r).replace('\n', " ")));
    }
    let n = ecrash::disarm();
    ecrash::report(1, &format!("COUNT {n}\n"));
    std::process::exit(0)
}

struct RefRun {
    s: Vec<State>,        // s[j] = rows after j ops (absolute times relative to NOW0)
    replies: Vec<String>, // reply signature of op j
}

fn abs_state(p: &mut pool::Pool) -> State {
    read_state(p, NOW0).unwrap_or_default()
}

fn reference_run(h: &CrashHistory, cfgs: &[Cfg], path: &str) -> Result<RefRun, String> {
    let _ = std::fs::remove_file(path);
    if h.v0_rows {
        write_v0(path, &crash_v0_rows(), 0)?;
    }
    clock::set_secs(NOW0 as u64);
    let mut p = open_pool(path)?;
    let mut s = vec![abs_state(&mut p)];
    let mut replies = vec![];
    for (i, m) in h.ops.iter().enumerate() {
        clock::set_secs(op_clock(i));
        let r = run_msg(&mut p, m, cfgs);
        replies.push(result_sig(&r));
        s.push(abs_state(&mut p));
    }
    Ok(RefRun { s, replies })
}

fn spawn_child(hist: usize, k: i64, path: &str) -> Result<(Vec<String>, Option<i32>), String> {
    let exe = std::env::current_exe().map_err(|e| e.to_string())?;
    let mut c = std::process::Command::new(exe).args(["C18", "crash-child", &hist.to_string(), &k.to_string(), path]).stdin(std::process::Stdio::null()).stdout(std::process::Stdio::piped()).stderr(std::process::Stdio::null()).spawn().map_err(|e| e.to_string())?;
    let mut out = String::new();
    c.stdout.take().unwrap().read_to_string(&mut out).map_err(|e| e.to_string())?;
    let st = c.wait().map_err(|e| e.to_string())?;
    Ok((out.lines().map(|l| l.to_string()).collect(), st.code()))
}

fn judge_kill(hist: usize, h: &CrashHistory, k: i64, cfgs: &[Cfg], rr: &RefRun, dir: &str) -> (String, Vec<Violation>) {
    let path = format!("{dir}/k{k}.sqlite");
    let _ = std::fs::remove_file(&path);
    let _ = std::fs::remove_file(format!("{path}-journal"));
    if h.v0_rows {
        if let Err(e) = write_v0(&path, &crash_v0_rows(), 0) {
            return ("machinery".into(), vec![Violation::new("machinery", e, json!({}))]);
        }
    }
    let (lines, code) = match spawn_child(hist, k, &path) {
        Ok(x) => x,
        Err(e) => return ("machinery".into(), vec![Violation::new("machinery", e, json!({}))]),
    };
    let kind = lines.iter().find_map(|l| l.strip_prefix("K ").map(|s| s.to_string())).unwrap_or("?".into());
    let case = json!({"engine":"c18","part":"kill","history":h.name,"hist":hist,"k":k,"syscall":kind});
    let mk = |oracle: &str, what: String| Violation::new(oracle, format!("history {} killed before write-class call #{k} ({}): {what}", h.name, kind), case.clone()).sig("part", "kill").sig("phase", if lines.iter().any(|l| l == "OPEN") { "serving" } else { "set-up" });
    if code != Some(99) {
        return ("machinery".into(), vec![mk("machinery", format!("child exited with {:?} instead of dying at the kill point: {:?}", code, lines))]);
    }
    let acked = lines.iter().filter(|l| l.starts_with("ACK ")).count();
    let opened = lines.iter().any(|l| l == "OPEN");
    let mut vs = vec![];
    clock::set_secs(op_clock(acked.min(h.ops.len().saturating_sub(1))));
    let mut p = match panics::catch(|| open_pool(&path)) {
        Ok(Ok(p)) => p,
        Ok(Err(e)) => return (format!("kill:{}:reopen-failed", if opened { "serving" } else { "setup" }), vec![mk("reopen-after-kill", format!("the lease database no longer opens: {e}"))]),
        Err(pi) => return ("kill:panic".into(), vec![mk("reopen-after-kill", format!("reopening panicked: {}", pi.msg))]),
    };
    let rows = abs_state(&mut p);
    // acknowledged replies must agree with the uninterrupted run
    for (i, l) in lines.iter().filter(|l| l.starts_with("ACK ")).enumerate() {
        let sig = l.splitn(3, ' ').nth(2).unwrap_or("");
        if sig != rr.replies[i] {
            vs.push(mk("machinery", format!("child's reply {i} '{sig}' differs from the reference run '{}'", rr.replies[i])));
        }
    }
    let j = acked;
    let ok_j = rows == rr.s[j];
    let ok_j1 = j + 1 < rr.s.len() && rows == rr.s[j + 1];
    if !ok_j && !ok_j1 {
        // which clause?
        let missing: Vec<&Row> = rr.s[j].iter().filter(|r| !rows.contains(r) && !(j + 1 < rr.s.len() && !rr.s[j + 1].contains(r))).collect();
        let alien: Vec<&Row> = rows.iter().filter(|r| !rr.s.iter().any(|s| s.contains(r))).collect();
        if !missing.is_empty() {
            vs.push(mk("acknowledged-lease-lost", format!("{acked} replies had been produced; rows {} lack {:?}", state_json(&rows), missing)));
        } else if !alien.is_empty() {
            vs.push(mk("partial-lease", format!("rows contain {:?}, which no operation of the history wrote", alien)));
        } else {
            vs.push(mk("not-atomic", format!("rows {} are neither the state after {j} nor after {} operations", state_json(&rows), j + 1)));
        }
        return (format!("kill:{}:bad-rows", if opened { "serving" } else { "setup" }), vs);
    }
    // continue: the restarted server must behave as the uninterrupted one
    let from = if ok_j1 && !ok_j { j + 1 } else { j };
    for i in from..h.ops.len() {
        clock::set_secs(op_clock(i));
        let r = run_msg(&mut p, &h.ops[i], cfgs);
        if result_sig(&r) != rr.replies[i] {
            vs.push(mk("behaviour-after-kill", format!("after restart operation {i} gives '{}', the uninterrupted server gave '{}'", result_sig(&r), rr.replies[i])));
            break;
        }
    }
    if vs.is_empty() && abs_state(&mut p) != *rr.s.last().unwrap() {
        vs.push(mk("behaviour-after-kill", "final rows differ from the uninterrupted run".into()));
    }
    (format!("kill:{}:{}:{}", if opened { "serving" } else { "setup" }, kind.trim(), if ok_j1 && !ok_j { "applied" } else { "not-applied" }), vs)
}

fn kill_part(rep: &mut Report, cfgs: &[Cfg], thorough: bool) -> (u64, std::collections::BTreeSet<String>, Vec<Value>) {
    let hs = crash_histories(cfgs);
    let mut total = 0u64;
    let mut classes = std::collections::BTreeSet::new();
    let mut samples = vec![];
    for (hi, h) in hs.iter().enumerate() {
        if !thorough && h.name == "fresh-collide-4" {
            continue;
        }
        let dir = scratch_dir();
        let refpath = format!("{dir}/ref.sqlite");
        let rr = match reference_run(h, cfgs, &refpath) {
            Ok(r) => r,
            Err(e) => {
                rep.machinery_error(format!("reference run of {}: {e}", h.name));
                continue;
            }
        };
        // count the kill points
        let cpath = format!("{dir}/count.sqlite");
        if h.v0_rows {
            let _ = write_v0(&cpath, &crash_v0_rows(), 0);
        }
        let k_total = match spawn_child(hi, -1, &cpath) {
            Ok((lines, Some(0))) => lines.iter().find_map(|l| l.strip_prefix("COUNT ").and_then(|n| n.parse::<i64>().ok())).unwrap_or(0),
            other => {
                rep.machinery_error(format!("counting run of {} failed: {:?}", h.name, other));
                continue;
            }
        };
        if k_total < 10 {
            rep.machinery_error(format!("history {}: only {k_total} write-class calls intercepted: the interposition is not in effect", h.name));
            continue;
        }
        samples.push(json!({"history": h.name, "kill_points": k_total, "ops": h.ops.len()}));
        let ks: Vec<i64> = (0..k_total).collect();
        let outs: Vec<(String, Vec<Violation>)> = ks.par_iter().map(|k| judge_kill(hi, h, *k, cfgs, &rr, &dir)).collect();
        let mut seen = std::collections::BTreeSet::new();
        for (c, vs) in outs {
            total += 1;
            classes.insert(c);
            for v in vs {
                if v.oracle == "machinery" {
                    rep.machinery_error(v.what.clone());
                } else if seen.insert(format!("{}|{:?}", v.oracle, v.sig)) || rep.violations.len() < 10 {
                    rep.violation(v);
                }
            }
        }
        let _ = std::fs::remove_dir_all(&dir);
    }
    (total, classes, samples)
}

/// The lease file is locked by another process while one message is handled (write lock and
/// exclusive lock), then the server is restarted: every lease whose reply was produced must be in
/// the file, and a message that got no reply must have left the file as it was.
fn locked_case(st: &State, m: &MsgOp, exclusive: bool, cfgs: &[Cfg]) -> Result<Vec<Violation>, String> {
    let (res, _post, reopened) = step_busy_reopen(st, m, cfgs, exclusive)?;
    let op = Op::Msg(m.clone());
    let mut case = case_json_from(st, &[&op], cfgs);
    case["store_locked"] = json!(if exclusive { "exclusive" } else { "write" });
    case["part"] = json!("locked");
    let lock = if exclusive { "an exclusive" } else { "a write" };
    let mut vs = vec![];
    match &res {
        StepResult::Reply(r) => {
            let me = CLIENTS[m.client].identity();
            if !reopened.iter().any(|row| row.ip == r.yiaddr && row.client == me && row.expiry > 0) {
                vs.push(Violation::new("acknowledged-lease-lost", format!("while another process held {lock} lock on the lease file, {} was answered with {} -- after a restart the lease file has no live record of it (rows {})", CLIENTS[m.client].name, r.yiaddr, state_json(&reopened)), case).sig("part", "locked"));
            }
        }
        StepResult::Error(_) => {
            if reopened != *st {
                vs.push(Violation::new("unanswered-message-changed-store", format!("while another process held {lock} lock on the lease file a message got no reply, but after a restart the file holds {} instead of {}", state_json(&reopened), state_json(st)), case).sig("part", "locked"));
            }
        }
        StepResult::Panic(msg, loc) => vs.push(Violation::new("panic-while-locked", format!("handle_pkt panicked while the lease file was locked: {msg} at {loc}"), case).sig("part", "locked")),
    }
    Ok(vs)
}

fn locked_part(rep: &mut Report, cfgs: &[Cfg], thorough: bool) -> u64 {
    use rayon::prelude::*;
    let alpha = build_alphabet(cfgs, &AlphabetSpec { rfc4361_clients: false, cfgs: if thorough { &["K1", "K2", "K4"] } else { &["K1"] }, clients: 2, addrs: &["192.0.2.9"], ticks: &[] });
    let msgs: Vec<&MsgOp> = alpha.ops.iter().filter_map(|o| if let Op::Msg(m) = o { Some(m) } else { None }).collect();
    // states: the deep roots and everything one message away from the empty store
    let mut states: Vec<State> = deep_roots();
    for m in &msgs {
        if let Ok((_, post)) = step(&vec![], &Op::Msg((*m).clone()), cfgs) {
            if !states.contains(&post) {
                states.push(post);
            }
        }
    }
    let results: Vec<(u64, Vec<Violation>, Option<String>)> = states
        .par_iter()
        .map(|st| {
            let (mut n, mut vs, mut err) = (0u64, vec![], None);
            for m in &msgs {
                for exclusive in [false, true] {
                    n += 1;
                    match locked_case(st, m, exclusive, cfgs) {
                        Ok(v) => vs.extend(v),
                        Err(e) => err = Some(e),
                    }
                }
            }
            (n, vs, err)
        })
        .collect();
    let mut n = 0;
    let mut seen = std::collections::BTreeSet::new();
    for (k, vs, err) in results {
        n += k;
        if let Some(e) = err {
            rep.machinery_error(format!("store-locked part: {e}"));
        }
        for v in vs {
            if seen.insert(v.oracle.clone()) || rep.violations.len() < 10 {
                rep.violation(v);
            }
        }
    }
    rep.cov("store_locked_then_restart", json!({"states": states.len(), "messages": msgs.len(), "transitions": n, "rule": "every message of the alphabet on each root store and each store one message away from the empty one, on a file-backed store that a second connection keeps locked (BEGIN IMMEDIATE / BEGIN EXCLUSIVE, busy time-out 0) for the duration of the message; then the file is reopened by a fresh Pool: an answered lease must be there, an unanswered message must have changed nothing"}));
    n
}

pub fn run(tier: &str, replay: Option<Value>) -> ! {
    let mut rep = Report::new("C18", if replay.is_some() { "quick" } else { tier }, "fault_enumeration");
    let cfgs = match all_cfgs() {
        Ok(c) => c,
        Err(e) => {
            rep.machinery_error(e);
            rep.finish()
        }
    };
    let thorough = tier == "thorough";
    if let Some(case) = replay {
        rep.replay_mode = true;
        let case = if case.get("case").is_some() { case["case"].clone() } else { case };
        if case["engine"].as_str() == Some("ehist") && case["part"].as_str() != Some("locked") {
            match replay_case(&case, &cfgs) {
                Ok(found) => {
                    for f in found {
                        if f.property == "C18" {
                            rep.violation(f.v);
                        }
                    }
                }
                Err(e) => rep.machinery_error(format!("replay: {e}")),
            }
            rep.finish();
        }
        match case["part"].as_str() {
            Some("kill") => {
                let hs = crash_histories(&cfgs);
                let hi = case["hist"].as_u64().unwrap_or(0) as usize;
                let dir = scratch_dir();
                match reference_run(&hs[hi], &cfgs, &format!("{dir}/ref.sqlite")) {
                    Ok(rr) => {
                        let (c, vs) = judge_kill(hi, &hs[hi], case["k"].as_i64().unwrap_or(0), &cfgs, &rr, &dir);
                        eprintln!("  outcome class: {c}");
                        for v in vs {
                            rep.violation(v);
                        }
                    }
                    Err(e) => rep.machinery_error(e),
                }
                let _ = std::fs::remove_dir_all(&dir);
            }
            Some("locked") => {
                match (|| -> Result<Vec<Violation>, String> {
                    let mut st: State = vec![];
                    for r in case["initial_state"].as_array().cloned().unwrap_or_default() {
                        st.push(Row { ip: r["ip"].as_str().ok_or("ip")?.parse().map_err(|e| format!("ip: {e}"))?, client: crate::common::util::unhex(r["client"].as_str().ok_or("client")?), start: r["start_rel"].as_i64().ok_or("start_rel")?, expiry: r["expiry_rel"].as_i64().ok_or("expiry_rel")? });
                    }
                    let op = op_from_json(case["ops"].get(0).ok_or("ops")?, &cfgs)?;
                    let Op::Msg(m) = op else { return Err("not a message".into()) };
                    locked_case(&st, &m, case["store_locked"].as_str() == Some("exclusive"), &cfgs)
                })() {
                    Ok(vs) => rep.violations_from(vs),
                    Err(e) => rep.machinery_error(e),
                }
            }
            Some("restart") => {
                let mut ops = vec![];
                for o in case["history"].as_array().cloned().unwrap_or_default() {
                    match op_from_json(&o, &cfgs) {
                        Ok(op) => ops.push(op),
                        Err(e) => rep.machinery_error(e),
                    }
                }
                let alpha = Alphabet { ops };
                let h: Vec<usize> = (0..alpha.ops.len()).collect();
                let dir = scratch_dir();
                for v in restart_history(&h, &alpha, &cfgs, &dir).1 {
                    rep.violation(v);
                }
                let _ = std::fs::remove_dir_all(&dir);
            }
            _ => {
                upgrade_part(&mut rep, true);
            }
        }
        rep.finish();
    }
    let (hists, steps) = restart_part(&mut rep, &cfgs, thorough);
    // the same differential in memory over a wider alphabet (4 configurations, two interfaces, a
    // reservation, named addresses), from the empty store and a two-client store
    let ll_alpha = longlived_alphabet(&cfgs, thorough);
    let ll_depth = if thorough { 3 } else { 2 };
    let mut ll_steps = 0;
    match longlived_histories(&cfgs, &ll_alpha, &longlived_roots(), ll_depth, true) {
        Ok((st, found)) => {
            ll_steps = st.steps;
            for f in found {
                if f.property == "C18" {
                    rep.violation(f.v);
                }
            }
        }
        Err(e) => rep.machinery_error(format!("long-lived differential: {e}")),
    }
    let steps = steps + ll_steps;
    rep.cov("in_memory_differential", json!({"alphabet_ops": ll_alpha.ops.len(), "depth": ll_depth, "message_steps": ll_steps}));
    let locked_n = locked_part(&mut rep, &cfgs, thorough);
    let steps = steps + locked_n;
    let (up_n, up_classes) = upgrade_part(&mut rep, thorough);
    let (kills, kill_classes, samples) = kill_part(&mut rep, &cfgs, thorough);
    clock::unset();
    let mut classes = up_classes;
    classes.extend(kill_classes);
    classes.insert("restart".into());
    rep.cov("evaluations", steps + up_n + kills);
    rep.cov("distinct_nontrivial", classes.len() as u64);
    rep.cov("rule", "restart: every history of length 3 (thorough 4) over the alphabet, and every history of length 8 (thorough 10) over a narrow one (a single-address pool, 2 clients, plain DISCOVER, clock +150/+301 s), on a long-lived file-backed Pool, at every message the same message on a Pool reopened on a copy of the file (replies and rows must agree); upgrade: v0 databases (0-3 rows: clientid empty/1/255 octets, chaddr NULL or not, start/expiry in {0, now-1, now, now+1, 2^32-1}) x 3 schema_version variants, reopened twice; versions 2, 3, 2^31, 2^63-1 refused and logically unchanged; kill: for each history a child process dies before every write-class libc call SQLite issues (pwrite64, write, fdatasync, fsync, ftruncate, unlink), then the file is reopened and judged. distinct = (part, phase, syscall kind, outcome) classes");
    rep.cov("exhaustive", true);
    rep.cov("parts", json!({"restart_histories": hists, "restart_differential_steps": steps, "upgrade_databases": up_n, "kill_points": kills}));
    rep.cov("classes", json!(classes));
    rep.cov("samples", samples);
    rep.assume("process kill only: the page cache survives, so the file is the exact prefix of issued syscalls; power loss (dropping unsynced writes) is not claimed");
    rep.assume("in-process _exit before the syscall stands in for SIGKILL of erbium-dhcp");
    rep.finish()
}
