//! C05: no byte string crashes a decoder/handler, and the handler still answers afterwards.
//! Function-level part: every network-facing decoder and the code the receive paths run on a
//! decoded packet, over (i) all short byte strings, (ii) seeds x every offset x every byte value,
//! (iii) seeds x pairs of marked fields x boundary values, (iv) every truncation point.
//! The live-service part (hostile datagrams to the running DNS service) is in the E-NET checks.
use crate::common::panics;
use crate::common::report::{Report, Violation};
use crate::common::util::{hex, unhex};
use crate::refdns as rd;
use erbium::dhcp::{self, dhcppkt, pool};
use rayon::prelude::*;
use serde_json::{Value, json};
use std::cell::RefCell;
use std::sync::atomic::{AtomicU64, Ordering};

pub struct Seed {
    pub name: &'static str,
    pub bytes: Vec<u8>,
    pub marks: Vec<usize>,
}

// ---------------------------------------------------------------------------
// Targets
// ---------------------------------------------------------------------------

thread_local! {
    static DHCP_POOL: RefCell<Option<pool::Pool>> = const { RefCell::new(None) };
}

static DHCP_CONF: std::sync::OnceLock<erbium::config::SharedConfig> = std::sync::OnceLock::new();

const DHCP_CONF_TEXT: &str = "---
addresses: [192.0.2.0/24]
dns-servers: [$self4, 192.0.2.53]
dns-search: [example.com]
captive-portal: https://portal.example.com/
dhcp-policies:
  - match-subnet: 192.0.2.0/24
    apply-range: {start: 192.0.2.10, end: 192.0.2.200}
    apply-routes:
      - prefix: 10.0.0.0/8
        next-hop: 192.0.2.254
    policies:
      - match-host-name: host
        apply-domain-name: host.example.com
";

fn dhcp_conf() -> &'static erbium::config::SharedConfig {
    DHCP_CONF.get_or_init(|| erbium::config::verif_load_config_from_string(DHCP_CONF_TEXT).expect("C05 dhcp config"))
}

/// Everything the DHCP receive path does with a datagram (DhcpService::recvdhcp), minus sockets.
pub fn target_dhcp(b: &[u8]) -> String {
    let d = match dhcppkt::parse(b) {
        Err(e) => return format!("reject:{}", e.get_variant_name()),
        Ok(d) => d,
    };
    // log_pkt
    let _ = dhcp::verif::format_client(&d);
    let _ = d.options.get_messagetype().map(|x| x.to_string());
    dhcp::verif::log_options(&d);
    let _ = d.options.get_option::<Vec<u8>>(&dhcppkt::OPTION_PARAMLIST).map(|v| v.iter().map(|&x| dhcppkt::DhcpOption::new(x).to_string()).collect::<Vec<_>>());
    let req = dhcp::DHCPRequest { pkt: d, serverip: "192.0.2.1".parse().unwrap(), ifindex: 1, if_mtu: Some(1500), if_router: Some("192.0.2.254".parse().unwrap()) };
    crate::common::clock::set_secs(crate::ehist::NOW0 as u64);
    let res = DHCP_POOL.with(|p| {
        let mut p = p.borrow_mut();
        if p.is_none() {
            *p = Some(pool::Pool::new_in_memory().expect("in-memory pool"));
        }
        let conf = dhcp_conf().try_read().expect("conf lock");
        dhcp::handle_pkt(p.as_mut().unwrap(), &req, ["192.0.2.1".parse().unwrap()].into_iter().collect(), &conf)
    });
    match res {
        Err(e) => format!("decoded:no-reply:{}", format!("{:?}", e).split('(').next().unwrap_or("")),
        Ok(reply) => {
            let _ = dhcp::verif::format_client(&reply);
            dhcp::verif::log_options(&reply);
            let chaddr = dhcp::verif::to_array(&reply.chaddr);
            let wire = reply.serialise();
            if let Some(ch) = chaddr {
                use erbium_net::packet::{Fragment, Tail};
                let sa = std::net::SocketAddrV4::new("192.0.2.1".parse().unwrap(), 67);
                let da = std::net::SocketAddrV4::new(reply.yiaddr, 68);
                let _ = Fragment::new_udp4(sa.into(), &[2, 0, 0, 0, 0, 1], da.into(), &ch, Tail::Payload(&wire)).flatten();
                "decoded:replied".into()
            } else {
                "decoded:replied:bad-chaddr".into()
            }
        }
    }
}

/// What the DNS listener and the upstream-reply path do with a datagram, minus sockets.
pub fn target_dns(b: &[u8]) -> String {
    let m = match erbium::dns::verif::parse(b) {
        Err(_) => return "reject".into(),
        Ok(m) => m,
    };
    let _ = format!("{:?}", m); // log::trace!("In Query ... {:?}")
    if let Some(e) = &m.edns {
        let _ = e.get_nsid(); // add_edns
        let _ = e.get_cookie(); // add_edns / validate_cookie_key
        let _ = e.get_extended_dns_error(); // increment_result on upstream replies
    }
    let _ = m.status(); // IN_QUERY_RESULT label
    let exp = m.get_expiry(); // cache
    let _ = m.clone_with_ttl_decrement(exp.as_secs() as u32);
    let _ = m.serialise();
    let _ = m.serialise_with_size(512);
    format!("decoded:an{}:edns{}", m.answer.len().min(2), m.edns.is_some() as u8)
}

pub fn target_icmp6(b: &[u8]) -> String {
    use erbium::radv::icmppkt;
    match icmppkt::parse(b) {
        Err(_) => "reject".into(),
        Ok(icmppkt::Icmp6::Unknown) => "decoded:unknown".into(),
        Ok(icmppkt::Icmp6::RtrSolicit(o)) => {
            let _ = format!("{:?}", o);
            "decoded:solicit".into()
        }
        Ok(icmppkt::Icmp6::RtrAdvert(a)) => {
            let _ = format!("{:?}", a);
            "decoded:advert".into()
        }
    }
}

/// The LLDP receive loop: decode from offset 14 of the frame, then log every TLV.
pub fn target_lldp(b: &[u8]) -> String {
    use erbium::lldp::lldppkt::LldpPacket;
    use erbium::pktparser::{Buffer, Deserialise as _};
    match LldpPacket::from_wire(&mut Buffer::new(b)) {
        Err(e) => {
            let _ = format!("{:?}", e);
            "reject".into()
        }
        Ok(p) => {
            let _ = format!("{}", p);
            for t in &p.tlvs {
                let _ = format!("{:?}", t);
                let _ = format!("{}", t);
            }
            format!("decoded:tlvs{}", p.tlvs.len().min(6))
        }
    }
}

pub fn target_pktparser(b: &[u8]) -> String {
    use erbium::pktparser::Buffer;
    let d = Buffer::new(b).get_domains().is_some();
    let mut buf = Buffer::new(b);
    let mut n = 0;
    while buf.get_tlv().is_some() {
        n += 1;
        if n > 70000 {
            break;
        }
    }
    let mut buf = Buffer::new(b);
    let _ = buf.get_be16();
    let _ = buf.get_be32();
    let _ = buf.get_ipv4();
    let _ = buf.get_vec(b.len());
    format!("domains{}:tlv{}", d as u8, n.min(3))
}

pub type Target = (&'static str, fn(&[u8]) -> String);

pub const TARGETS: [Target; 5] = [("dhcp", target_dhcp), ("dns", target_dns), ("icmp6", target_icmp6), ("lldp", target_lldp), ("pktparser", target_pktparser)];

pub fn target_by_name(n: &str) -> Option<Target> {
    TARGETS.iter().find(|t| t.0 == n).copied()
}

// ---------------------------------------------------------------------------
// Seeds
// ---------------------------------------------------------------------------

pub fn seeds() -> Vec<(&'static str, Seed)> {
    let mut out = vec![];
    // ---- DHCP
    {
        use crate::checks::c12::{RefDhcp, ref_encode};
        let h = RefDhcp {
            op: 1,
            htype: 1,
            hlen: 6,
            hops: 0,
            xid: 0x11223344,
            secs: 1,
            flags: 0x8000,
            ciaddr: [0; 4],
            yiaddr: [0; 4],
            siaddr: [0; 4],
            giaddr: [0; 4],
            chaddr16: [2, 0, 0, 0, 0, 9, 0, 0, 0, 0, 0, 0, 0, 0, 0, 0],
            sname: vec![],
            file: vec![],
            options: Default::default(),
        };
        let domains: Vec<u8> = [&[3u8][..], b"eng", &[7], b"example", &[3], b"com", &[0], &[5], b"sales", &[0]].concat();
        for (name, mtype) in [("dhcp-discover", 1u8), ("dhcp-request", 3u8)] {
            let recs: Vec<(u8, Vec<u8>)> = vec![
                (53, vec![mtype]),
                (61, vec![1, 2, 0, 0, 0, 0, 9]),
                (12, b"host".to_vec()),
                (55, vec![1, 3, 6, 15, 26, 28, 51, 58, 59, 114, 119, 121]),
                (50, vec![192, 0, 2, 10]),
                (54, vec![192, 0, 2, 1]),
                (121, vec![24, 192, 0, 2, 192, 0, 2, 1, 0, 10, 0, 0, 1]),
                (33, vec![10, 0, 0, 0, 192, 0, 2, 1]),
                (119, domains.clone()),
                (57, vec![5, 220]),
                (60, b"vendor".to_vec()),
                (51, vec![0, 0, 14, 16]),
                (81, vec![0, 0, 0, b'h']),
                (77, b"class".to_vec()),
                (2, vec![0, 0, 0x0e, 0x10]),
                (19, vec![1]),
                (35, vec![0, 0, 0, 60]),
            ];
            let bytes = ref_encode(&h, &recs, &[3]);
            // marks: hlen, htype, op, every option code and length octet
            let mut marks = vec![0, 1, 2];
            let mut i = 240;
            while i < bytes.len() {
                let c = bytes[i];
                if c == 0 {
                    i += 1;
                    continue;
                }
                if c == 255 {
                    marks.push(i);
                    break;
                }
                marks.push(i);
                marks.push(i + 1);
                // first value octet too (prefix lengths, sub-lengths)
                if bytes[i + 1] > 0 {
                    marks.push(i + 2);
                }
                i += 2 + bytes[i + 1] as usize;
            }
            out.push(("dhcp", Seed { name, bytes, marks }));
        }
    }
    // ---- DNS
    {
        let q = rd::name("www.example.com");
        let cookie: Vec<u8> = (1..=24).collect();
        let query = rd::query(0x1234, &q, rd::T_A, 1, true, Some(rd::opt_rr(1232, 0, 0, true, vec![(10, cookie.clone()), (3, vec![]), (8, vec![0, 1, 24, 0, 192, 0, 2])])));
        let qb = rd::encode(&query, true);
        // marks: counts, question labels, OPT fields
        let mut marks: Vec<usize> = (2..12).collect();
        marks.extend([12, 16, 24, 28]);
        let optstart = 12 + 17 + 4;
        marks.extend(optstart..optstart + 11);
        marks.extend([optstart + 11, optstart + 12, optstart + 13, optstart + 14]);
        out.push(("dns", Seed { name: "dns-query-cookie", bytes: qb.clone(), marks: marks.into_iter().filter(|m| *m < qb.len()).collect() }));
        let mut reply = rd::Msg { id: 0x1234, flags: 0x8180, question: vec![(q.clone(), rd::T_A, 1)], answer: vec![], authority: vec![], additional: vec![] };
        let ex = rd::name("example.com");
        for t in crate::checks::c14::TYPES {
            reply.answer.push(crate::checks::c14::mk_rr(t, &q, &rd::name("a.example.com"), &ex, 300));
        }
        reply.authority.push(crate::checks::c14::mk_rr(rd::T_SOA, &ex, &rd::name("ns.example.com"), &rd::name("root.example.com"), 60));
        reply.additional.push(rd::opt_rr(4096, 0, 0, false, vec![(15, vec![0, 23, b'x', b'y']), (10, cookie[..8].to_vec())]));
        let rb = rd::encode(&reply, true);
        // marks: counts + every octet that is a label length, pointer, type or rdlength: approximate by
        // marking every octet whose value is < 64 or >= 0xc0 in the record area (small message)
        let mut marks: Vec<usize> = (2..12).collect();
        for (i, b) in rb.iter().enumerate().skip(12) {
            if *b >= 0xc0 || (*b > 0 && *b < 64 && i % 3 == 0) {
                marks.push(i);
            }
        }
        marks.truncate(60);
        out.push(("dns", Seed { name: "dns-reply-all-types", bytes: rb, marks }));
    }
    // ---- ICMPv6
    {
        let rs = vec![133u8, 0, 0, 0, 0, 0, 0, 0, 1, 1, 2, 0, 0, 0, 0, 1];
        out.push(("icmp6", Seed { name: "icmp6-rs", bytes: rs, marks: vec![0, 1, 8, 9] }));
        // RA with every option kind, hand-encoded (RFC 4861/8106/8781/8910)
        let mut ra = vec![134u8, 0, 0, 0, 64, 0xc0, 0x07, 0x08, 0, 0, 0, 0, 0, 0, 0, 0];
        ra.extend([1, 1, 2, 0, 0, 0, 0, 1]); // SLLA
        ra.extend([5, 1, 0, 0, 0, 0, 5, 220]); // MTU
        ra.extend([3, 4, 64, 0xc0, 0, 0, 0x0e, 0x10, 0, 0, 0x07, 0x08, 0, 0, 0, 0]);
        ra.extend([0x20, 0x01, 0x0d, 0xb8, 0, 0, 0, 0, 0, 0, 0, 0, 0, 0, 0, 0]); // prefix
        ra.extend([25, 3, 0, 0, 0, 0, 0x07, 0x08]);
        ra.extend([0x20, 0x01, 0x0d, 0xb8, 0, 0, 0, 0, 0, 0, 0, 0, 0, 0, 0, 0x53]); // RDNSS
        ra.extend([31, 2, 0, 0, 0, 0, 0x07, 0x08, 3, b'c', b'o', b'm', 0, 0, 0, 0]); // DNSSL
        ra.extend([38, 2, 0x02, 0x58, 0, 0x64, 0xff, 0x9b, 0, 0, 0, 0, 0, 0, 0, 0]); // PREF64
        ra.extend([37, 2, b'h', b't', b't', b'p', b':', b'/', b'/', b'x', b'/', 0, 0, 0, 0, 0]); // captive portal
        let marks = vec![0, 1, 4, 5, 16, 17, 24, 25, 32, 33, 34, 64, 65, 88, 89, 104, 105, 106, 107, 120, 121];
        out.push(("icmp6", Seed { name: "icmp6-ra-all-options", bytes: ra, marks }));
    }
    // ---- LLDP (payload from offset 14 of the frame, as the receive loop slices it)
    {
        let mut l = vec![];
        let mut marks = vec![];
        let mut tlv = |t: u8, v: &[u8], l: &mut Vec<u8>, marks: &mut Vec<usize>| {
            marks.push(l.len());
            marks.push(l.len() + 1);
            if !v.is_empty() {
                marks.push(l.len() + 2);
            }
            l.push((t << 1) | ((v.len() >> 8) as u8 & 1));
            l.push(v.len() as u8);
            l.extend_from_slice(v);
        };
        tlv(1, &[4, 2, 0, 0, 0, 0, 1], &mut l, &mut marks);
        tlv(2, &[5, b'g', b'e', b'0'], &mut l, &mut marks);
        tlv(3, &[0, 120], &mut l, &mut marks);
        tlv(4, b"uplink", &mut l, &mut marks);
        tlv(5, b"switch", &mut l, &mut marks);
        tlv(6, b"a switch", &mut l, &mut marks);
        tlv(7, &[0, 0x14, 0, 0x04], &mut l, &mut marks);
        tlv(8, &[5, 1, 192, 0, 2, 1, 2, 0, 0, 0, 1, 0], &mut l, &mut marks);
        tlv(127, &[0, 0x12, 0x0f, 1, 3, 0x6c, 0, 0, 0x10], &mut l, &mut marks);
        tlv(0, &[], &mut l, &mut marks);
        out.push(("lldp", Seed { name: "lldp-full", bytes: l, marks }));
    }
    // ---- pktparser: a domain list and a TLV stream
    {
        let d: Vec<u8> = [&[3u8][..], b"eng", &[3], b"com", &[0], &[1], b"x", &[0]].concat();
        out.push(("pktparser", Seed { name: "domain-list", bytes: d, marks: vec![0, 4, 8, 9, 11] }));
    }
    out
}

// ---------------------------------------------------------------------------
// Runner
// ---------------------------------------------------------------------------

static EVALS: AtomicU64 = AtomicU64::new(0);

const HANG_SECS: u64 = 120;

fn run_one(t: Target, b: &[u8], kind: &str) -> (String, Option<Violation>) {
    EVALS.fetch_add(1, Ordering::Relaxed);
    // the input is published so that an abort or a hang can name it (common/supervise.rs)
    let _g = crate::common::supervise::publish(TARGETS.iter().position(|x| x.0 == t.0).unwrap_or(0), b);
    run_one_inner(t, b, kind)
}

fn run_one_inner(t: Target, b: &[u8], kind: &str) -> (String, Option<Violation>) {
    match panics::catch(|| (t.1)(b)) {
        Ok(c) => (c, None),
        Err(p) => {
            let loc = panics::short_loc(&p.loc);
            (
                format!("panic:{loc}"),
                Some(
                    Violation::new("panic", format!("{} handler panicked on a {}-octet input ({kind}): {} at {loc}", t.0, b.len(), p.msg), json!({"engine":"c05","target":t.0,"bytes":hex(b)}))
                        .sig("target", t.0)
                        .sig("loc", loc),
                ),
            )
        }
    }
}

struct Acc {
    classes: std::collections::BTreeSet<String>,
    viols: Vec<Violation>,
}

fn merge(acc: &mut Acc, tname: &str, outs: Vec<(String, Option<Violation>)>) {
    for (c, v) in outs {
        acc.classes.insert(format!("{tname}:{c}"));
        if let Some(v) = v {
            // keep one per (target, loc)
            if !acc.viols.iter().any(|x| x.sig == v.sig) {
                acc.viols.push(v);
            }
        }
    }
}

fn short_strings(acc: &mut Acc, maxlen: usize) {
    for t in TARGETS {
        for len in 0..=maxlen {
            let total: u64 = 1u64 << (8 * len);
            let chunks: Vec<u64> = (0..total).step_by(65536).collect();
            let outs: Vec<Vec<(String, Option<Violation>)>> = chunks
                .par_iter()
                .map(|start| {
                    let mut seen = std::collections::BTreeSet::new();
                    let mut res = vec![];
                    let end = (*start + 65536).min(total);
                    let mut buf = vec![0u8; len];
                    for x in *start..end {
                        for (i, b) in buf.iter_mut().enumerate() {
                            *b = (x >> (8 * i)) as u8;
                        }
                        let (c, v) = run_one(t, &buf, "short string");
                        if v.is_some() || seen.insert(c.clone()) {
                            res.push((c, v));
                        }
                    }
                    res
                })
                .collect();
            for o in outs {
                merge(acc, t.0, o);
            }
        }
    }
}

fn seed_sweeps(acc: &mut Acc, thorough: bool) -> Vec<Value> {
    let pair_vals: Vec<u8> = vec![0, 1, 0x3f, 0x40, 0x7f, 0x80, 0xc0, 0xff];
    let mut samples = vec![];
    for (tname, seed) in seeds() {
        let t = target_by_name(tname).unwrap();
        // the seed itself must be decoded (otherwise the sweep is vacuous)
        let (c, v) = run_one(t, &seed.bytes, "seed");
        samples.push(json!({"target": tname, "seed": seed.name, "len": seed.bytes.len(), "outcome": c, "bytes": hex(&seed.bytes[..seed.bytes.len().min(48)])}));
        merge(acc, tname, vec![(format!("seed:{c}"), v)]);
        // (ii) every offset x every byte value
        let offs: Vec<usize> = (0..seed.bytes.len()).collect();
        let outs: Vec<Vec<(String, Option<Violation>)>> = offs
            .par_iter()
            .map(|off| {
                let mut res = vec![];
                let mut seen = std::collections::BTreeSet::new();
                let mut b = seed.bytes.clone();
                for v in 0..=255u8 {
                    b[*off] = v;
                    let (c, viol) = run_one(t, &b, "single-octet mutation");
                    if viol.is_some() || seen.insert(c.clone()) {
                        res.push((c, viol));
                    }
                }
                // (iv) truncation at this offset, of the seed and of the seed with this octet at boundary values
                for v in [None, Some(0u8), Some(0xff)] {
                    let mut b = seed.bytes.clone();
                    if let Some(v) = v {
                        if *off > 0 {
                            b[*off - 1] = v;
                        }
                    }
                    b.truncate(*off);
                    let (c, viol) = run_one(t, &b, "truncation");
                    if viol.is_some() || seen.insert(c.clone()) {
                        res.push((c, viol));
                    }
                }
                res
            })
            .collect();
        for o in outs {
            merge(acc, tname, o);
        }
        // (iii) pairs of marked fields x boundary values (+ truncation right after the later field)
        let marks: Vec<usize> = seed.marks.iter().copied().filter(|m| *m < seed.bytes.len()).collect();
        let mut pairs = vec![];
        for i in 0..marks.len() {
            for j in (i + 1)..marks.len() {
                pairs.push((marks[i], marks[j]));
            }
        }
        let vals = if thorough { pair_vals.clone() } else { vec![0, 1, 0x40, 0x80, 0xc0, 0xff] };
        let outs: Vec<Vec<(String, Option<Violation>)>> = pairs
            .par_iter()
            .map(|(a, bb)| {
                let mut res = vec![];
                let mut seen = std::collections::BTreeSet::new();
                let mut b = seed.bytes.clone();
                for va in &vals {
                    for vb in &vals {
                        b[*a] = *va;
                        b[*bb] = *vb;
                        let (c, viol) = run_one(t, &b, "field-pair mutation");
                        if viol.is_some() || seen.insert(c.clone()) {
                            res.push((c, viol));
                        }
                    }
                }
                res
            })
            .collect();
        for o in outs {
            merge(acc, tname, o);
        }
    }
    samples
}

/// History part: after all the hostile inputs above every handler must still answer a valid request.
fn liveness(acc: &mut Acc) {
    for (tname, seed) in seeds() {
        let t = target_by_name(tname).unwrap();
        // run on every worker thread (each has its own DHCP pool)
        let outs: Vec<(String, Option<Violation>)> = (0..64usize).into_par_iter().map(|_| run_one(t, &seed.bytes, "liveness")).collect();
        for (c, v) in outs {
            if v.is_none() && (c.starts_with("reject") || c.contains("no-reply")) && tname == "dhcp" {
                acc.viols.push(Violation::new("liveness", format!("after the hostile inputs the DHCP handler no longer answers a valid {}: {c}", seed.name), json!({"engine":"c05","target":tname,"bytes":hex(&seed.bytes)})).sig("target", tname));
            }
            merge(acc, tname, vec![(format!("liveness:{c}"), v)]);
        }
    }
}

// ---------------------------------------------------------------------------
// Live service: hostile datagrams / upstream replies, then a valid query must be answered
// ---------------------------------------------------------------------------

use crate::enet::{BASE_YAML, Rig, RigSpec, UdpClient};
use crate::netrun::{self, CaseResult};

fn live_values(tier: &str) -> Vec<u8> {
    if tier == "thorough" { (0..=255).collect() } else { vec![0, 1, 2, 7, 8, 0x0c, 0x29, 0x3f, 0x40, 0x7f, 0x80, 0xc0, 0xc1, 0xff] }
}

pub fn cases(tier: &str) -> Vec<Value> {
    let mut out = vec![];
    for (tname, seed) in seeds() {
        if tname != "dns" {
            continue;
        }
        let kind = if seed.name == "dns-query-cookie" { "client-hostile" } else { "upstream-hostile" };
        // chunks of 8 offsets
        let mut off = 0;
        while off < seed.bytes.len() {
            out.push(json!({"engine":"enet","check":"c05","kind":kind,"seed":seed.name,"from":off,"to":(off + 8).min(seed.bytes.len()),"tier":tier}));
            off += 8;
        }
    }
    // back to back: a hostile datagram with a well-formed query queued right behind it (no chance
    // for the service to run in between): the query must still be answered.  The hostile ones
    // include the empty datagram and every one-octet datagram.
    for chunk in 0..8 {
        out.push(json!({"engine":"enet","check":"c05","kind":"back-to-back","chunk":chunk,"tier":tier}));
    }
    // well-formed upstream answers at the wrong TIME (late, or the connection closed instead)
    out.extend(crate::checks::episode::cases("c05", tier == "thorough"));
    // well-formed queries after a long silence: state with a lifetime (the cookie keys are replaced
    // after 24-36 h) must not leave the service unable to answer
    for hours in [0u64, 25, 37, 49, 110] {
        for edns in ["plain", "cookie", "none"] {
            for tr in ["udp", "tcp"] {
                out.push(json!({"engine":"enet","check":"c05","kind":"uptime","hours":hours,"edns":edns,"transport":tr}));
            }
        }
    }
    out
}

fn b2b_hostiles() -> Vec<Vec<u8>> {
    let mut v: Vec<Vec<u8>> = vec![vec![]];
    for b in 0..=255u8 {
        v.push(vec![b]);
    }
    let seed = seeds().into_iter().find(|(t, s)| *t == "dns" && s.name == "dns-query-cookie").map(|x| x.1.bytes).unwrap_or_default();
    for l in 2..seed.len().min(40) {
        v.push(seed[..l].to_vec());
    }
    v
}

fn run_b2b(case: &Value) -> CaseResult {
    let spec = RigSpec { listeners: vec!["::1".into()], n_upstreams: 1, yaml: BASE_YAML.into() };
    let mut rig = match Rig::start(&spec) {
        Ok(r) => r,
        Err(e) => return CaseResult::machinery(e),
    };
    let dst = rig.listen_addr(0);
    let cip: std::net::IpAddr = "::1".parse().unwrap();
    let all = b2b_hostiles();
    let chunk = case["chunk"].as_u64().unwrap_or(0) as usize;
    let mut res = CaseResult::ok("live:back-to-back");
    let mut n = 0u64;
    let mut served = 0usize;
    for (i, h) in all.iter().enumerate() {
        if i % 8 != chunk {
            continue;
        }
        for how_many in [1usize, 3] {
            n += 1;
            let hc = match UdpClient::new(cip) {
                Ok(c) => c,
                Err(e) => return CaseResult::machinery(e),
            };
            let mut vc = match UdpClient::new(cip) {
                Ok(c) => c,
                Err(e) => return CaseResult::machinery(e),
            };
            let q = rd::encode(&rd::query(0x4b00 + (n as u16 & 0xff), &rd::name(&format!("b2b{n}.example")), rd::T_A, 1, true, None), false);
            // no pump between these sends
            for _ in 0..how_many {
                let _ = hc.send(dst, h);
            }
            let _ = vc.send(dst, &q);
            // serve whatever reaches the upstream; the valid query must be answered
            let mut answered = false;
            for _ in 0..120 {
                rig.pump(4);
                rig.poll_upstreams();
                while served < rig.upstreams[0].udp_rx.len() {
                    let (qb, src) = rig.upstreams[0].udp_rx[served].clone();
                    served += 1;
                    if let Ok((oq, _)) = rd::decode(&qb) {
                        let rep = rd::Msg { id: oq.id, flags: 0x8180, question: oq.question.clone(), answer: vec![], authority: vec![], additional: vec![] };
                        let _ = rig.upstreams[0].udp_reply(src, &rd::encode(&rep, true));
                    }
                }
                vc.poll();
                if !vc.rx.is_empty() {
                    answered = true;
                    break;
                }
            }
            if !answered {
                let ps = panics::take_all();
                res.violations.push(
                    Violation::new(
                        "service-deaf",
                        format!("{how_many} hostile datagram(s) of {} octet(s) ({}) with a well-formed query queued right behind: the query was never answered{}", h.len(), hex(&h[..h.len().min(12)]), ps.first().map(|p| format!(" (service task panicked: {} at {})", p.msg, panics::short_loc(&p.loc))).unwrap_or_default()),
                        json!({"engine":"enet","check":"c05","kind":"back-to-back","chunk":chunk,"tier":case["tier"]}),
                    )
                    .sig("part", "live")
                    .sig("hostile_len", h.len().min(2)),
                );
                // the listener may be dead for good: later observations on this rig would only repeat it
                break;
            }
        }
        if !res.violations.is_empty() {
            break;
        }
    }
    let ps = rig.stop();
    if let Some(p) = ps.first() {
        res.violations.push(Violation::new("panic", format!("a live DNS service task panicked on back-to-back input: {} at {}", p.msg, panics::short_loc(&p.loc)), case.clone()).sig("loc", panics::short_loc(&p.loc)));
    }
    res.stats = json!({"live_inputs": n});
    res
}

fn run_episode(case: &Value) -> CaseResult {
    match crate::checks::episode::run(case) {
        Err(e) => CaseResult::machinery(format!("episode: {e}")),
        Ok(o) => {
            let mut res = CaseResult::ok(format!("episode:{}:{}:{}", case["c1"].as_str().unwrap_or(""), case["action"].as_str().unwrap_or(""), match o.q1.replies.first() { Some((_, m)) => format!("rcode{}", m.rcode()), None => "silent".into() }));
            res.violations = crate::checks::episode::judge_c05(case, &o);
            res.stats = crate::checks::episode::stats(&o);
            res
        }
    }
}

pub fn run_case(case: &Value) -> CaseResult {
    if case["kind"].as_str() == Some("episode") {
        return run_episode(case);
    }
    if case["kind"].as_str() == Some("uptime") {
        let mut res = crate::checks::c07::run_uptime(case);
        res.violations = res.violations.into_iter().map(|v| Violation::new("still-answers", v.what.clone(), case.clone()).sig("part", "uptime")).collect();
        return res;
    }
    if case["kind"].as_str() == Some("back-to-back") {
        return run_b2b(case);
    }
    let spec = RigSpec { listeners: vec!["::1".into()], n_upstreams: 1, yaml: BASE_YAML.into() };
    let mut rig = match Rig::start(&spec) {
        Ok(r) => r,
        Err(e) => return CaseResult::machinery(e),
    };
    let seed = seeds().into_iter().map(|x| x.1).find(|s| Some(s.name) == case["seed"].as_str()).expect("seed");
    let vals = live_values(case["tier"].as_str().unwrap_or("quick"));
    let (from, to) = (case["from"].as_u64().unwrap() as usize, case["to"].as_u64().unwrap() as usize);
    let dst = rig.listen_addr(0);
    let cip: std::net::IpAddr = "::1".parse().unwrap();
    let mut res = CaseResult::ok(format!("live:{}", case["kind"].as_str().unwrap_or("")));
    let mut n = 0u64;
    let mut served_udp = 0usize;
    let client_side = case["kind"].as_str() == Some("client-hostile");
    for off in from..to {
        for v in vals.iter().map(|v| Some(*v)).chain([None]) {
            let mut b = seed.bytes.clone();
            match v {
                Some(v) => b[off] = v,
                None => b.truncate(off),
            }
            n += 1;
            if client_side {
                // hostile datagram from a client
                if let Ok(c) = UdpClient::new(cip) {
                    let _ = c.send(dst, &b);
                }
                rig.pump(6);
                rig.poll_upstreams();
                // whatever was forwarded gets a valid answer so nothing lingers
                while served_udp < rig.upstreams[0].udp_rx.len() {
                    let (qb, src) = rig.upstreams[0].udp_rx[served_udp].clone();
                    served_udp += 1;
                    if let Ok((oq, _)) = rd::decode(&qb) {
                        let rep = rd::Msg { id: oq.id, flags: 0x8180, question: oq.question.clone(), answer: vec![], authority: vec![], additional: vec![] };
                        let _ = rig.upstreams[0].udp_reply(src, &rd::encode(&rep, true));
                    }
                }
                rig.pump(4);
            } else {
                // a valid client query whose upstream reply is hostile
                let q = rd::encode(&rd::query(n as u16, &rd::name(&format!("h{n}.example")), rd::T_A, 1, true, None), false);
                let c = match UdpClient::new(cip) {
                    Ok(c) => c,
                    Err(e) => return CaseResult::machinery(e),
                };
                let _ = c.send(dst, &q);
                let before = served_udp;
                let _ = rig.wait_until(|r| r.upstreams[0].udp_rx.len() > before, "forwarded query");
                while served_udp < rig.upstreams[0].udp_rx.len() {
                    let (qb, src) = rig.upstreams[0].udp_rx[served_udp].clone();
                    served_udp += 1;
                    // patch the id so that the reply is accepted as belonging to the query
                    let mut hb = b.clone();
                    if hb.len() >= 2 && off >= 2 {
                        hb[0] = qb[0];
                        hb[1] = qb[1];
                    }
                    let _ = rig.upstreams[0].udp_reply(src, &hb);
                }
                rig.pump(8);
                rig.poll_upstreams();
                // a TC / foreign id reply makes the forwarder retry over TCP: answer that properly
                for conn in rig.upstreams[0].conns.iter_mut() {
                    while let Some(f) = conn.frames_in.pop() {
                        if let Ok((oq, _)) = rd::decode(&f) {
                            let rep = rd::Msg { id: oq.id, flags: 0x8180, question: oq.question.clone(), answer: vec![], authority: vec![], additional: vec![] };
                            let _ = conn.send_frame(&rd::encode(&rep, true));
                        }
                    }
                }
                rig.pump(4);
            }
        }
    }
    // the service must still answer a well-formed query
    let q = json!({"name":"alive.example","type":1,"class":1,"edns":"plain","flags":"rd","transport":"udp"});
    let r = json!({"rcode":0,"an":[0],"ns":[],"ar":[],"compress":true,"opt":true});
    // drain whatever is pending upstream so that exchange() sees only its own query
    rig.poll_upstreams();
    let ex = crate::checks::c03::exchange(&mut rig, &q, &r, 0x7e7e, cip, 0);
    let ps = rig.stop();
    let mk = |oracle: &str, what: String| Violation::new(oracle, what, case.clone()).sig("target", "dns-live");
    if let Some(p) = ps.first() {
        let loc = panics::short_loc(&p.loc);
        res.violations.push(mk("panic", format!("a live DNS service task panicked on hostile {} input (seed {}, offsets {from}..{to}): {} at {loc}", if client_side { "client" } else { "upstream" }, seed.name, p.msg)).sig("loc", loc));
    }
    match ex {
        Ok(e) if e.client_reply.is_some() => {}
        Ok(_) => res.violations.push(mk("liveness", format!("after the hostile inputs (seed {}, offsets {from}..{to}) the service no longer answers a valid query", seed.name))),
        Err(e) => res.violations.push(mk("liveness", format!("after the hostile inputs (seed {}, offsets {from}..{to}) the service no longer answers a valid query: {e}", seed.name))),
    }
    res.stats = json!({"live_inputs": n});
    res
}

pub fn run(tier: &str, replay: Option<Value>) -> ! {
    if !crate::common::supervise::install_if_child("VERIF_C05_CHILD", HANG_SECS) {
        crate::common::supervise::supervise("C05", tier, "exploration", &replay, "VERIF_C05_CHILD", HANG_SECS, &|tag, b, how, hang| {
            let t = TARGETS[tag.min(TARGETS.len() - 1)];
            Violation::new("abort", format!("{} handler {how} on a {}-octet input", t.0, b.len()), json!({"engine":"c05","target":t.0,"bytes":hex(b)})).sig("target", t.0).sig("how", if hang { "hang" } else { "abort" })
        });
    }
    let mut rep = Report::new("C05", if replay.is_some() { "quick" } else { tier }, "exploration");
    if let Some(case) = replay {
        rep.replay_mode = true;
        let case = if case.get("case").is_some() { case["case"].clone() } else { case };
        if case["engine"].as_str() == Some("enet") {
            netrun::replay_one(&mut rep, &case, run_case);
            rep.finish();
        }
        match (case["target"].as_str().and_then(target_by_name), case["bytes"].as_str()) {
            (Some(t), Some(h)) => {
                panics::set_quiet(false);
                if let (_, Some(v)) = run_one(t, &unhex(h), "replay") {
                    rep.violation(v);
                }
            }
            _ => rep.machinery_error("replay case needs target and bytes"),
        }
        rep.finish();
    }
    let thorough = tier == "thorough";
    let mut acc = Acc { classes: Default::default(), viols: vec![] };
    short_strings(&mut acc, if thorough { 3 } else { 2 });
    let e1 = EVALS.load(Ordering::Relaxed);
    let samples = seed_sweeps(&mut acc, thorough);
    let e2 = EVALS.load(Ordering::Relaxed);
    liveness(&mut acc);
    let e3 = EVALS.load(Ordering::Relaxed);
    for v in acc.viols {
        rep.violation(v);
    }
    rep.worker_death_is_violation = true;
    let agg = netrun::run_sharded(&mut rep, "C05", tier, cases, 16);
    let live = agg.stats_sum.get("live_inputs").copied().unwrap_or(0.0) as u64;
    let e3 = e3 + live;
    acc.classes.extend(agg.classes.keys().cloned());
    rep.cov("live_service_inputs", live);
    rep.cov("evaluations", e3);
    rep.cov("distinct_nontrivial", acc.classes.iter().filter(|c| !c.contains(":reject")).count() as u64);
    rep.cov("rule", "5 targets (dhcp receive path incl. handle_pkt/log_options/to_array/frame build; dns parser + every accessor the listener and upstream-reply paths call; icmp6 parse; lldp from_wire + TLV logging; pktparser readers) x {all byte strings of length <=2 (thorough <=3); valid seeds x every offset x all 256 values; seeds x every truncation; seeds x all pairs of marked length/count/pointer/type fields x boundary values}; live DNS service: every offset of the query seed (as a client datagram) and of the reply seed (as the upstream's reply to a valid query) x byte values (quick 14, thorough 256) + truncations, each chunk followed by a valid query that must be answered; back to back: the empty datagram, every one-octet datagram and every prefix of the query seed, 1 or 3 copies, with a well-formed query queued right behind them before the service gets to run -- the query must be answered. distinct_nontrivial = distinct outcome classes that got past the decoder's rejection");
    rep.cov("exhaustive", true);
    rep.cov("parts", json!({"short_strings": e1, "seed_sweeps": e2 - e1, "liveness": e3 - e2}));
    rep.cov("outcome_classes", json!(acc.classes));
    rep.cov("samples", samples);
    rep.assume("the LLDP receive loop slices buffer[14..] inline; AF_PACKET never delivers fewer than 14 octets, so LLDP is exercised from offset 14 on");
    rep.assume("log statements are formatted (a trace-level logger is installed), as under RUST_LOG=trace");
    rep.finish()
}
