//! C04: every response is well-formed and respects the size limit.
//! Part 1 (here): the real `DNSPkt::serialise_with_size` for every limit x size delta.
//! Part 2 (E-NET, enet_checks.rs): the live service, UDP and TCP, advertised sizes x reply sizes.
use crate::common::panics;
use crate::common::report::{Report, Violation};
use crate::refdns::{self as rd, Msg, Rdata, Rr};
use erbium::dns::dnspkt;
use rayon::prelude::*;
use serde_json::{Value, json};

fn txt(owner: &rd::Name, len: usize, ttl: u32) -> Rr {
    Rr { name: owner.clone(), rtype: rd::T_TXT, class: 1, ttl, rdata: Rdata::Raw(vec![0x61; len]) }
}
fn a(owner: &rd::Name, last: u8) -> Rr {
    Rr { name: owner.clone(), rtype: rd::T_A, class: 1, ttl: 60, rdata: Rdata::Raw(vec![192, 0, 2, last]) }
}

/// (answer, authority, additional, edns?) with a pad slot (section, index) for a TXT record.
pub struct Family {
    pub name: &'static str,
    pub q: rd::Name,
    pub an: Vec<Rr>,
    pub ns: Vec<Rr>,
    pub ar: Vec<Rr>,
    pub edns: bool,
    pub pad_section: usize,
    pub pad_index: usize,
}

pub fn families() -> Vec<Family> {
    let q = rd::name("www.example.com");
    let ex = rd::name("example.com");
    let mut fams = vec![];
    // answers only, pad last
    fams.push(Family { name: "answers-only", q: q.clone(), an: (0..6).map(|i| a(&q, i)).collect(), ns: vec![], ar: vec![], edns: false, pad_section: 0, pad_index: 6 });
    // all three sections, pad in the middle of authority
    fams.push(Family {
        name: "three-sections",
        q: q.clone(),
        an: (0..3).map(|i| a(&q, i)).collect(),
        ns: vec![
            Rr { name: ex.clone(), rtype: rd::T_NS, class: 1, ttl: 300, rdata: Rdata::Name(rd::name("ns1.example.com")) },
            Rr { name: ex.clone(), rtype: rd::T_NS, class: 1, ttl: 300, rdata: Rdata::Name(rd::name("ns2.example.com")) },
        ],
        ar: vec![a(&rd::name("ns1.example.com"), 53), a(&rd::name("ns2.example.com"), 54)],
        edns: true,
        pad_section: 1,
        pad_index: 1,
    });
    // compressible chain, pad first
    fams.push(Family {
        name: "cname-chain",
        q: q.clone(),
        an: vec![
            Rr { name: q.clone(), rtype: rd::T_CNAME, class: 1, ttl: 5, rdata: Rdata::Name(rd::name("a.www.example.com")) },
            Rr { name: rd::name("a.www.example.com"), rtype: rd::T_CNAME, class: 1, ttl: 5, rdata: Rdata::Name(rd::name("b.a.www.example.com")) },
            Rr { name: rd::name("b.a.www.example.com"), rtype: rd::T_MX, class: 1, ttl: 5, rdata: Rdata::PrefName(1, rd::name("mx.example.com")) },
            Rr { name: ex.clone(), rtype: rd::T_SOA, class: 1, ttl: 5, rdata: Rdata::Soa(rd::name("ns1.example.com"), rd::name("root.example.com"), [1, 2, 3, 4, 5]) },
        ],
        ns: vec![],
        ar: vec![a(&rd::name("mx.example.com"), 25)],
        edns: true,
        pad_section: 0,
        pad_index: 0,
    });
    // one huge record only (the pad itself), with OPT
    fams.push(Family { name: "one-huge", q: q.clone(), an: vec![], ns: vec![], ar: vec![], edns: true, pad_section: 0, pad_index: 0 });
    // additional-heavy without OPT, pad in additional
    fams.push(Family { name: "additional-no-opt", q: q.clone(), an: vec![a(&q, 1)], ns: vec![], ar: (0..5).map(|i| a(&rd::name("x.example.com"), i)).collect(), edns: false, pad_section: 2, pad_index: 2 });
    // many small records
    fams.push(Family { name: "many-small", q: q.clone(), an: (0..30).map(|i| a(&q, i as u8)).collect(), ns: vec![], ar: vec![], edns: true, pad_section: 0, pad_index: 15 });
    fams
}

pub fn build(f: &Family, pad: Option<usize>) -> dnspkt::DNSPkt {
    let mut secs = [f.an.clone(), f.ns.clone(), f.ar.clone()];
    if let Some(l) = pad {
        // TXT rdata up to 65535; owner root to keep arithmetic simple
        let idx = f.pad_index.min(secs[f.pad_section].len());
        secs[f.pad_section].insert(idx, txt(&vec![], l, 7));
    }
    let mut p = crate::checks::c14::base_pkt(&f.q);
    p.answer = secs[0].iter().map(rd::rr_to_erbium).collect();
    p.nameserver = secs[1].iter().map(rd::rr_to_erbium).collect();
    p.additional = secs[2].iter().map(rd::rr_to_erbium).collect();
    if f.edns {
        p.edns_ver = Some(0);
        p.bufsize = 1232;
        p.edns = Some(dnspkt::EdnsData::new());
    }
    p
}

/// Oracle shared with the end-to-end part: `wire` is what was emitted under `limit`, `full` is the
/// complete message in reference form (OPT last in additional if any).
pub fn judge_limited(wire: &[u8], limit: usize, full: &Msg, full_size: usize) -> Result<&'static str, (String, String)> {
    judge_limited2(wire, limit, limit, full, full_size)
}

/// `limit` bounds the size; `fits_limit` (<= limit) is the size up to which the message must be
/// complete.  They differ for UDP clients advertising more than a datagram can carry: the reply
/// may not exceed what was advertised, but it need only be complete up to 65507 octets.
pub fn judge_limited2(wire: &[u8], limit: usize, fits_limit: usize, full: &Msg, full_size: usize) -> Result<&'static str, (String, String)> {
    if wire.len() > limit {
        return Err(("over-limit".into(), format!("{} octets emitted under a limit of {}", wire.len(), limit)));
    }
    let (m, _) = rd::decode(wire).map_err(|e| ("malformed".to_string(), format!("emitted message ({} octets, limit {limit}, full size {full_size}) is not well-formed: {e}", wire.len())))?;
    if m.id != full.id || m.question != full.question {
        return Err(("id-question".into(), "id/question differ from the full message".into()));
    }
    // non-OPT records must be a prefix of answer || authority || additional
    let want: Vec<(usize, &Rr)> = full.answer.iter().map(|r| (0, r)).chain(full.authority.iter().map(|r| (1, r))).chain(full.additional.iter().filter(|r| r.rtype != rd::T_OPT).map(|r| (2, r))).collect();
    let got: Vec<(usize, &Rr)> = m.answer.iter().map(|r| (0, r)).chain(m.authority.iter().map(|r| (1, r))).chain(m.additional.iter().filter(|r| r.rtype != rd::T_OPT).map(|r| (2, r))).collect();
    if got.len() > want.len() || got.iter().zip(want.iter()).any(|(g, w)| g != w) {
        return Err(("not-a-prefix".into(), format!("records present are not a prefix of the full record list ({} present, {} in full)", got.len(), want.len())));
    }
    let missing = want.len() - got.len();
    let opt_missing = full.opt().is_some() && m.opt().is_none();
    if missing > 0 && !m.tc() {
        return Err(("tc-clear-but-truncated".into(), format!("{missing} record(s) omitted but TC is clear")));
    }
    if missing == 0 && !opt_missing && m.tc() && !full.tc() {
        return Err(("tc-set-but-complete".into(), "nothing omitted but TC is set".into()));
    }
    if full_size <= fits_limit && (missing > 0 || opt_missing) {
        return Err(("fits-but-truncated".into(), format!("full message is {full_size} octets <= limit {fits_limit} but {missing} record(s) were omitted")));
    }
    Ok(if missing > 0 { "truncated" } else if opt_missing { "opt-dropped" } else { "complete" })
}

pub fn one(f: &Family, limit: usize, delta: i64) -> (String, Option<Violation>) {
    let case = json!({"engine":"c04","part":"function","family":f.name,"limit":limit,"delta":delta});
    let base = build(f, Some(0));
    let r = panics::catch(|| {
        let base_len = base.serialise_with_size(1 << 20).len() as i64;
        let target = limit as i64 + delta;
        let padlen = target - base_len;
        if !(0..=65300).contains(&padlen) {
            return None;
        }
        let p = build(f, Some(padlen as usize));
        // the unlimited encoding (serialise() itself stops at 65535 and would under-report)
        let full = p.serialise_with_size(1 << 20);
        Some((p.serialise_with_size(limit), full, p))
    });
    match r {
        Err(p) => ("panic".into(), Some(Violation::new("serialise-panic", format!("serialise_with_size({limit}) panicked: {} at {}", p.msg, panics::short_loc(&p.loc)), case).sig("loc", panics::short_loc(&p.loc)))),
        Ok(None) => ("skipped-unreachable-size".into(), None),
        Ok(Some((wire, full_wire, p))) => {
            if full_wire.len() as i64 != limit as i64 + delta && full_wire.len() <= 65535 {
                // compression made the size non-linear in the pad length: not a verdict, just a different delta
            }
            let full = rd::msg_from_erbium(&p);
            match judge_limited(&wire, limit, &full, full_wire.len()) {
                Ok(c) => (format!("{}:{}:{}", f.name, c, if full_wire.len() <= limit { "fits" } else { "over" }), None),
                Err((oracle, what)) => (format!("{}:violation:{oracle}", f.name), Some(Violation::new(&oracle, format!("family {} limit {limit} full size {}: {what}", f.name, full_wire.len()), case).sig("part", "function"))),
            }
        }
    }
}

pub fn function_part(rep: &mut Report, thorough: bool) -> (u64, std::collections::BTreeSet<String>) {
    let fams = families();
    let mut limits: Vec<usize> = if thorough { (512..=4096).collect() } else { (512..=1300).chain((1301..=4096).step_by(13)).collect() };
    limits.extend([8192, 16383, 16384, 16385, 32768, 65535]);
    let deltas: Vec<i64> = if thorough { (-20..=40).chain([1000, 60000]).collect() } else { (-6..=16).chain([1000]).collect() };
    let mut work = vec![];
    for (fi, _) in fams.iter().enumerate() {
        for l in &limits {
            for d in &deltas {
                work.push((fi, *l, *d));
            }
        }
    }
    let outs: Vec<(String, Option<Violation>)> = work.par_iter().map(|(fi, l, d)| one(&fams[*fi], *l, *d)).collect();
    let mut classes = std::collections::BTreeSet::new();
    let mut n = 0;
    for (c, v) in outs {
        if c != "skipped-unreachable-size" {
            n += 1;
        }
        classes.insert(c);
        if let Some(v) = v {
            rep.violation(v);
        }
    }
    // names first written around the 14-bit pointer boundary (offset 0x4000), then referred to again:
    // the response must still parse (a pointer can only reach offsets below 0x4000)
    {
        let mut pw = vec![];
        for target in 0x3fe8usize..=0x4018 {
            for follow in 0..5usize {
                for limit in [65535usize, 32768, 17000] {
                    pw.push((target, follow, limit));
                }
            }
        }
        let outs: Vec<Option<Violation>> = pw
            .par_iter()
            .map(|(target, follow, limit)| {
                let p = crate::checks::c14::boundary_pkt(*target, *follow);
                let case = json!({"engine":"c04","part":"function","family":"pointer-boundary","first_written_at":target,"follow":follow,"limit":limit});
                match panics::catch(|| p.serialise_with_size(*limit)) {
                    Err(pi) => Some(Violation::new("serialise-panic", format!("serialise_with_size({limit}) panicked for a name first written at {target:#x}: {} at {}", pi.msg, panics::short_loc(&pi.loc)), case).sig("loc", panics::short_loc(&pi.loc))),
                    Ok(wire) => match rd::decode(&wire) {
                        Err(e) => Some(Violation::new("malformed", format!("a {} octet response with a name first written at {target:#x} (follow-up {follow}, limit {limit}) is not well-formed: {e}", wire.len()), case)),
                        Ok(_) => None,
                    },
                }
            })
            .collect();
        n += outs.len() as u64;
        classes.insert("pointer-boundary".into());
        let mut first = true;
        for v in outs.into_iter().flatten() {
            if first || rep.violations.len() < 10 {
                rep.violation(v);
                first = false;
            }
        }
    }
    // serialise() itself is the TCP path's encoder: a message of exactly 65535 / 65536 / 65537 octets
    for total in [65534usize, 65535, 65536, 65537, 70000] {
        let f = &fams[3];
        let base = build(f, Some(0)).serialise().len();
        let p = build(f, Some((total - base).min(65535)));
        n += 1;
        let case = json!({"engine":"c04","part":"function","family":"tcp-max","total":total});
        // serialise() is what the TCP paths (out-queries, and any caller without an explicit limit) use:
        // it must never produce more than a 16 bit length prefix can frame
        match panics::catch(|| p.serialise()) {
            Err(_) => {}
            Ok(w) => {
                if w.len() > 65535 {
                    rep.violation(Violation::new("over-limit", format!("serialise() produced {} octets, more than any DNS transport can frame (65535)", w.len()), json!({"engine":"c04","part":"function","family":"tcp-max","total":total,"fn":"serialise"})).sig("part", "function").sig("fn", "serialise"));
                }
            }
        }
        match panics::catch(|| p.serialise_with_size(65535)) {
            Err(pi) => rep.violation(Violation::new("serialise-panic", format!("serialise_with_size(65535) panicked: {} at {}", pi.msg, panics::short_loc(&pi.loc)), case).sig("loc", panics::short_loc(&pi.loc))),
            Ok(w) => {
                let full = rd::msg_from_erbium(&p);
                let full_len = p.serialise_with_size(1 << 20).len();
                classes.insert(format!("tcp-max:{}", if full_len <= 65535 { "fits" } else { "over" }));
                if let Err((oracle, what)) = judge_limited(&w, 65535, &full, full_len) {
                    rep.violation(Violation::new(&oracle, format!("TCP-sized message ({full_len} octets): {what}"), case).sig("part", "function"));
                }
            }
        }
    }
    (n, classes)
}

// ---------------------------------------------------------------------------
// Part 2: the live service
// ---------------------------------------------------------------------------

use crate::enet::{BASE_YAML, Rig, RigSpec, TcpClient, UdpClient};
use crate::netrun::{self, CaseResult};

pub fn cases(tier: &str) -> Vec<Value> {
    let thorough = tier == "thorough";
    let mut out = crate::checks::episode::cases("c04", thorough);
    let mut adv: Vec<&str> = vec!["none", "size:0", "size:511", "size:512", "size:513", "size:1232", "size:4096", "size:65535"];
    if thorough {
        adv.extend(["size:600", "size:1024", "size:1500", "size:2048", "size:4095", "size:8192", "size:16384", "size:32768"]);
    }
    for a in &adv {
        for tr in ["udp", "tcp"] {
            out.push(json!({"engine":"enet","check":"c04","edns":a,"transport":tr,"thorough":thorough}));
        }
    }
    out
}

fn upstream_reply(oq: &Msg, pad: usize, shape: usize) -> Msg {
    let qn = oq.question[0].0.clone();
    let mut an = vec![a(&qn, 1), a(&qn, 2)];
    let mut ns = vec![];
    let mut ar = vec![];
    // the pad is a TXT record (several 255-octet strings are not needed: opaque rdata)
    let padrr = |l: usize| Rr { name: qn.clone(), rtype: rd::T_TXT, class: 1, ttl: 30, rdata: Rdata::Raw(vec![0x62; l]) };
    match shape {
        0 => an.push(padrr(pad)),
        1 => {
            ns.push(Rr { name: rd::name("example.com"), rtype: rd::T_NS, class: 1, ttl: 300, rdata: Rdata::Name(rd::name("ns1.example.com")) });
            ns.push(padrr(pad));
            ar.push(a(&rd::name("ns1.example.com"), 53));
        }
        _ => {
            ar.push(padrr(pad));
            ar.push(a(&rd::name("ns1.example.com"), 53));
            ar.push(a(&rd::name("ns2.example.com"), 54));
        }
    }
    Msg { id: oq.id, flags: 0x8180, question: oq.question.clone(), answer: an, authority: ns, additional: ar }
}

/// One exchange where the scripted upstream follows the protocol for large answers
/// (TC over UDP when the reply exceeds the forwarder's advertised 4096, then the full reply over TCP).
pub fn big_exchange(rig: &mut Rig, qb: &[u8], transport: &str, pad: usize, shape: usize) -> Result<(Option<Vec<u8>>, Msg, usize), String> {
    big_exchange_from(rig, qb, transport, pad, shape, "::1".parse().unwrap())
}

pub fn big_exchange_from(rig: &mut Rig, qb: &[u8], transport: &str, pad: usize, shape: usize, cip: std::net::IpAddr) -> Result<(Option<Vec<u8>>, Msg, usize), String> {
    let dst = rig.listen_addr(0);
    let mut uc = None;
    let mut tc = None;
    if transport == "tcp" {
        let mut c = TcpClient::connect(Some(cip), dst)?;
        c.conn.send_frame(qb)?;
        tc = Some(c);
    } else {
        let c = UdpClient::new(cip)?;
        c.send(dst, qb)?;
        uc = Some(c);
    }
    let mut served: Option<(Msg, usize)> = None;
    let mut seen_udp = rig.upstreams[0].udp_rx.len();
    let mut seen_tcp: Vec<usize> = rig.upstreams[0].conns.iter().map(|c| c.frames_in.len()).collect();
    let mut got: Option<Vec<u8>> = None;
    for _round in 0..400 {
        rig.pump(4);
        rig.poll_upstreams();
        // serve upstream side
        while seen_udp < rig.upstreams[0].udp_rx.len() {
            let (b, src) = rig.upstreams[0].udp_rx[seen_udp].clone();
            seen_udp += 1;
            let (oq, _) = rd::decode(&b).map_err(|e| format!("malformed upstream query: {e}"))?;
            let full = upstream_reply(&oq, pad, shape);
            let fb = rd::encode(&full, true);
            if fb.len() > 4096 {
                let tcm = Msg { id: oq.id, flags: 0x8380, question: oq.question.clone(), answer: vec![], authority: vec![], additional: vec![] };
                rig.upstreams[0].udp_reply(src, &rd::encode(&tcm, true))?;
            } else {
                served = Some((full, fb.len()));
                rig.upstreams[0].udp_reply(src, &fb)?;
            }
        }
        while seen_tcp.len() < rig.upstreams[0].conns.len() {
            seen_tcp.push(0);
        }
        for ci in 0..rig.upstreams[0].conns.len() {
            while seen_tcp[ci] < rig.upstreams[0].conns[ci].frames_in.len() {
                let b = rig.upstreams[0].conns[ci].frames_in[seen_tcp[ci]].clone();
                seen_tcp[ci] += 1;
                let (oq, _) = rd::decode(&b).map_err(|e| format!("malformed upstream TCP query: {e}"))?;
                let full = upstream_reply(&oq, pad, shape);
                let fb = rd::encode(&full, true);
                if fb.len() > 65535 {
                    return Err(format!("harness: upstream reply over 65535: {} octets for pad {pad} shape {shape}", fb.len()));
                }
                served = Some((full, fb.len()));
                rig.upstreams[0].conns[ci].send_frame(&fb)?;
            }
        }
        if let Some(c) = uc.as_mut() {
            c.poll();
            if let Some((b, _)) = c.rx.first() {
                got = Some(b.clone());
                break;
            }
        }
        if let Some(c) = tc.as_mut() {
            c.poll();
            if let Some(b) = c.conn.frames_in.first() {
                got = Some(b.clone());
                break;
            }
            if c.conn.eof {
                break;
            }
        }
    }
    let (full, fl) = served.ok_or("upstream never saw the query")?;
    Ok((got, full, fl))
}

fn run_episode(case: &Value) -> CaseResult {
    match crate::checks::episode::run(case) {
        Err(e) => CaseResult::machinery(format!("episode: {e}")),
        Ok(o) => {
            let mut res = CaseResult::ok(format!("episode:{}:{}:{}", case["c1"].as_str().unwrap_or(""), case["action"].as_str().unwrap_or(""), match o.q1.replies.first() { Some((_, m)) => format!("rcode{}", m.rcode()), None => "silent".into() }));
            res.violations = crate::checks::episode::judge_c04(case, &o);
            res.stats = crate::checks::episode::stats(&o);
            res
        }
    }
}

pub fn run_case(case: &Value) -> CaseResult {
    if case["kind"].as_str() == Some("episode") {
        return run_episode(case);
    }
    let edns = case["edns"].as_str().unwrap_or("none");
    let transport = case["transport"].as_str().unwrap_or("udp");
    let thorough = case["thorough"].as_bool().unwrap_or(false);
    let advertised: usize = edns.strip_prefix("size:").and_then(|s| s.parse().ok()).unwrap_or(0);
    let limit = if transport == "tcp" { 65535 } else { advertised.max(512) };
    let spec = RigSpec { listeners: vec!["::1".into()], n_upstreams: 1, yaml: BASE_YAML.into() };
    let mut res = CaseResult::ok("");
    let mut classes: std::collections::BTreeSet<String> = Default::default();
    let mut n = 0u64;
    // one rig per (shape): different pads use different query names so the cache never interferes
    for shape in 0..3usize {
        let mut rig = match Rig::start(&spec) {
            Ok(r) => r,
            Err(e) => return CaseResult::machinery(e),
        };
        let mut seq = 0u32;
        let mut ask = |rig: &mut Rig, pad: usize, tr: &str| -> Result<(Option<Vec<u8>>, Msg, usize, Msg), String> {
            seq += 1;
            let q = json!({"name": format!("n{seq}.pad.example"), "type": 16, "class": 1, "edns": edns, "flags": "rd", "transport": tr});
            let (qm, qb) = crate::checks::c03::build_query(&q, 0x3000 + seq as u16);
            let (got, full, fl) = big_exchange(rig, &qb, tr, pad, shape)?;
            Ok((got, full, fl, qm))
        };
        // calibration: complete TCP answer for a small pad gives the constant offset between the
        // upstream's encoding and the forwarder's own full encoding
        let cal = match ask(&mut rig, 10, "tcp") {
            Ok(x) => x,
            Err(e) => {
                let _ = rig.stop();
                return CaseResult::machinery(format!("calibration: {e}"));
            }
        };
        let Some(cal_bytes) = cal.0 else {
            let ps = rig.stop();
            res.violations.push(Violation::new("no-reply", format!("no reply to the calibration query over TCP{}", ps.first().map(|p| format!(" (panic: {} at {})", p.msg, panics::short_loc(&p.loc))).unwrap_or_default()), case.clone()).sig("part", "e2e"));
            return res;
        };
        let offset = cal_bytes.len() as i64 - cal.2 as i64;
        let mut pads: Vec<i64> = vec![];
        let base_pad_for = |target: i64| -> i64 { 10 + (target - (cal.2 as i64 + offset)) };
        let deltas: Vec<i64> = if thorough { (-20..=20).collect() } else { (-6..=8).collect() };
        if transport == "udp" && (shape == 0 || limit < 0x3f00) {
            for d in &deltas {
                pads.push(base_pad_for(limit as i64 + d));
            }
        }
        for big in [2048i64, 4000, 4200, 17000, 60000, 65000, 65400] {
            pads.push(base_pad_for(big));
        }
        // (shape 0 only: there every name is a pointer to the question, so sizes are linear in the pad
        // on both sides; in the other shapes names written past offset 0x3fff stop being
        // compression targets and the size estimate would be off by a few octets)
        if transport == "tcp" && shape == 0 {
            // around 65535 of the forwarder's own encoding
            for d in [-12i64, -11, -10, -4, -3, -2, -1, 0, 1, 2, 3, 4, 11, 12, 40] {
                pads.push(base_pad_for(65535 + d));
            }
        }
        for pad in pads {
            // the upstream's own message must stay a legal DNS message (<= 65535 octets; a few octets of
            // margin because later query names have more digits than the calibration's)
            if pad < 0 || cal.2 as i64 + (pad - 10) > 65529 {
                continue;
            }
            n += 1;
            let r = ask(&mut rig, pad as usize, transport);
            let sub = json!({"engine":"enet","check":"c04","edns":edns,"transport":transport,"shape":shape,"pad":pad,"thorough":thorough});
            match r {
                Err(e) => {
                    res.machinery = Some(e);
                    break;
                }
                Ok((None, _, _, _)) => {
                    // C04 speaks of the responses the server emits; a missing response is C07's
                    // subject (its big-answer family asks these very sizes) and only a class here
                    let _ = sub;
                    classes.insert(format!("{transport}:no-reply"));
                }
                Ok((Some(wire), up, up_len, qm)) => {
                    // the full message as the forwarder would send it unlimited
                    let mut full = up.clone();
                    full.id = qm.id;
                    full.question = qm.question.clone();
                    full.additional.push(rd::opt_rr(4096, 0, 0, false, vec![]));
                    let full_size = (up_len as i64 + offset) as usize;
                    // a UDP datagram carries at most 65507 octets (IPv4): above that a reply need not be complete
                    let fits_limit = if transport == "udp" { limit.min(65507) } else { limit };
                    match judge_limited2(&wire, limit, fits_limit, &full, full_size) {
                        Ok(c) => {
                            classes.insert(format!("{transport}:{c}:{}", if full_size <= limit { "fits" } else { "over" }));
                        }
                        Err((oracle, what)) => {
                            classes.insert(format!("violation:{oracle}"));
                            res.violations.push(Violation::new(&oracle, format!("{transport} client advertising {edns} (limit {limit}), full answer {full_size} octets: {what}"), sub).sig("part", "e2e").sig("transport", transport));
                        }
                    }
                    if transport == "tcp" {
                        // TCP length prefix = body length is implied by the frame splitter having produced this frame
                    }
                }
            }
        }
        let _ = rig.stop();
        if res.machinery.is_some() {
            break;
        }
    }
    res.class = format!("e2e:{transport}:{edns}");
    let mut st = serde_json::Map::new();
    st.insert("exchanges".into(), json!(n));
    for c in classes {
        st.insert(format!("class:{c}"), json!(1));
    }
    res.stats = Value::Object(st);
    res
}

pub fn run(tier: &str, replay: Option<Value>) -> ! {
    let mut rep = Report::new("C04", if replay.is_some() { "quick" } else { tier }, "exploration");
    if let Some(case) = replay {
        rep.replay_mode = true;
        let case = if case.get("case").is_some() { case["case"].clone() } else { case };
        if case["engine"].as_str() == Some("enet") {
            netrun::replay_one(&mut rep, &case, run_case);
        } else {
            let fams = families();
            if case["family"].as_str() == Some("pointer-boundary") {
                function_part(&mut rep, false);
                rep.violations.retain(|v| v.case["family"].as_str() == Some("pointer-boundary"));
            } else if let Some(f) = fams.iter().find(|f| Some(f.name) == case["family"].as_str()) {
                if let (_, Some(v)) = one(f, case["limit"].as_u64().unwrap_or(512) as usize, case["delta"].as_i64().unwrap_or(1)) {
                    rep.violation(v);
                }
            } else {
                function_part(&mut rep, false);
            }
        }
        rep.finish();
    }
    let (n, mut classes) = function_part(&mut rep, tier == "thorough");
    let agg = netrun::run_sharded(&mut rep, "C04", tier, cases, 16);
    let ex = agg.stats_sum.get("exchanges").copied().unwrap_or(0.0) as u64;
    for k in agg.stats_sum.keys() {
        if let Some(c) = k.strip_prefix("class:") {
            classes.insert(format!("e2e:{c}"));
        }
    }
    rep.cov("evaluations", n + ex);
    rep.cov("distinct_nontrivial", classes.len() as u64);
    rep.cov("rule", "function level: serialise_with_size(limit) for every limit 512..=4096 (quick: 512..=1300 all, then step 13) (+ 8192,16383,16384,16385,32768,65535) x 6 message families x every size delta around the limit, decoded by the independent strict decoder; names first written at every offset 0x3fe8..0x4018 (around the 14-bit pointer boundary) and referred to again, 5 follow-up shapes x 3 limits. end to end: live DnsService, clients advertising {no EDNS, 0, 511, 512, 513, 1232, 4096, 65535 (+8 more in thorough)} over UDP and TCP, upstream answers sized so that the forwarder's full answer is limit-20..limit+20 (quick -6..+8) and 2K/4K/17K/60K/65K and 65532..65535 over TCP, 3 answer shapes (pad record in answer/authority/additional); distinct = (part, transport, outcome, fits/over) classes");
    rep.cov("exhaustive", true);
    rep.cov("parts", json!({"function": n, "end_to_end_exchanges": ex}));
    rep.cov("classes", json!(classes));
    rep.cov("workers_in_private_netns", agg.isolated_workers as u64);
    rep.cov("samples", json!([{"family":"three-sections","limit":512,"delta":1},{"engine":"enet","edns":"size:1232","transport":"udp","shape":1,"pad":1100}]));
    rep.assume("OPT-only omission is don't-care; the upstream script follows the protocol (TC over UDP above 4096, then TCP)");
    rep.finish()
}

pub fn run_function_only(tier: &str, replay: Option<Value>) -> ! {
    // Used until the E-NET part is wired in; afterwards enet_checks::run_c04 calls function_part.
    let mut rep = Report::new("C04", if replay.is_some() { "quick" } else { tier }, "exploration");
    if let Some(case) = replay {
        rep.replay_mode = true;
        let case = if case.get("case").is_some() { case["case"].clone() } else { case };
        let fams = families();
        if let Some(f) = fams.iter().find(|f| Some(f.name) == case["family"].as_str()) {
            if let (_, Some(v)) = one(f, case["limit"].as_u64().unwrap_or(512) as usize, case["delta"].as_i64().unwrap_or(1)) {
                rep.violation(v);
            }
        } else {
            function_part(&mut rep, false);
        }
        rep.finish();
    }
    let (n, classes) = function_part(&mut rep, tier == "thorough");
    rep.cov("evaluations", n);
    rep.cov("distinct_nontrivial", classes.len() as u64);
    rep.cov("rule", "serialise_with_size(limit) for every limit (thorough: 512..=4096 all; quick: 512..=640 all then step 61) + {8192,16383,16384,16385,32768,65535} x 6 message families x every size delta (full size = limit+delta, delta -20..+40 thorough, -4..+14 quick, +1000, +60000), decoded by the independent strict decoder; distinct = (family, outcome, fits/over) classes");
    rep.cov("exhaustive", true);
    rep.cov("classes", json!(classes));
    rep.cov("samples", json!([{"family":"three-sections","limit":512,"delta":1},{"family":"one-huge","limit":65535,"delta":1000}]));
    rep.finish()
}

