//! C04: every response is well-formed and respects the size limit.
//! Part 1 (here): the real `DNSPkt::serialise_with_size` for every limit x size delta.
//! Part 2 (E-NET, enet_checks.rs): the live service, UDP and TCP, advertised sizes x reply sizes.
use crate::common::panics;
use crate::common::report::{Report, Violation};
use crate::refdns::{self as rd, Msg, Rdata, Rr};
use erbium::dns::dnspkt;
use rayon::prelude::*;
use serde_json::{Value, json};

fn txt(owner: &rd::Name, len: usize, ttl: u32) -> Rr {
    Rr { name: owner.clone(), rtype: rd::T_TXT, class: 1, ttl, rdata: Rdata::Raw(vec![0x61; len]) }
}
fn a(owner: &rd::Name, last: u8) -> Rr {
    Rr { name: owner.clone(), rtype: rd::T_A, class: 1, ttl: 60, rdata: Rdata::Raw(vec![192, 0, 2, last]) }
}

/// (answer, authority, additional, edns?) with a pad slot (section, index) for a TXT record.
pub struct Family {
    pub name: &'static str,
    pub q: rd::Name,
    pub an: Vec<Rr>,
    pub ns: Vec<Rr>,
    pub ar: Vec<Rr>,
    pub edns: bool,
    pub pad_section: usize,
    pub pad_index: usize,
}

pub fn families() -> Vec<Family> {
    let q = rd::name("www.example.com");
    let ex = rd::name("example.com");
    let mut fams = vec![];
    // answers only, pad last
    fams.push(Family { name: "answers-only", q: q.clone(), an: (0..6).map(|i| a(&q, i)).collect(), ns: vec![], ar: vec![], edns: false, pad_section: 0, pad_index: 6 });
    // all three sections, pad in the middle of authority
    fams.push(Family {
        name: "three-sections",
        q: q.clone(),
        an: (0..3).map(|i| a(&q, i)).collect(),
        ns: vec![
            Rr { name: ex.clone(), rtype: rd::T_NS, class: 1, ttl: 300, rdata: Rdata::Name(rd::name("ns1.example.com")) },
            Rr { name: ex.clone(), rtype: rd::T_NS, class: 1, ttl: 300, rdata: Rdata::Name(rd::name("ns2.example.com")) },
        ],
        ar: vec![a(&rd::name("ns1.example.com"), 53), a(&rd::name("ns2.example.com"), 54)],
        edns: true,
        pad_section: 1,
        pad_index: 1,
    });
    // compressible chain, pad first
    fams.push(Family {
        name: "cname-chain",
        q: q.clone(),
        an: vec![
            Rr { name: q.clone(), rtype: rd::T_CNAME, class: 1, ttl: 5, rdata: Rdata::Name(rd::name("a.www.example.com")) },
            Rr { name: rd::name("a.www.example.com"), rtype: rd::T_CNAME, class: 1, ttl: 5, rdata: Rdata::Name(rd::name("b.a.www.example.com")) },
            Rr { name: rd::name("b.a.www.example.com"), rtype: rd::T_MX, class: 1, ttl: 5, rdata: Rdata::PrefName(1, rd::name("mx.example.com")) },
            Rr { name: ex.clone(), rtype: rd::T_SOA, class: 1, ttl: 5, rdata: Rdata::Soa(rd::name("ns1.example.com"), rd::name("root.example.com"), [1, 2, 3, 4, 5]) },
        ],
        ns: vec![],
        ar: vec![a(&rd::name("mx.example.com"), 25)],
        edns: true,
        pad_section: 0,
        pad_index: 0,
    });
    // one huge record only (the pad itself), with OPT
    fams.push(Family { name: "one-huge", q: q.clone(), an: vec![], ns: vec![], ar: vec![], edns: true, pad_section: 0, pad_index: 0 });
    // additional-heavy without OPT, pad in additional
    fams.push(Family { name: "additional-no-opt", q: q.clone(), an: vec![a(&q, 1)], ns: vec![], ar: (0..5).map(|i| a(&rd::name("x.example.com"), i)).collect(), edns: false, pad_section: 2, pad_index: 2 });
    // many small records
    fams.push(Family { name: "many-small", q: q.clone(), an: (0..30).map(|i| a(&q, i as u8)).collect(), ns: vec![], ar: vec![], edns: true, pad_section: 0, pad_index: 15 });
    fams
}

pub fn build(f: &Family, pad: Option<usize>) -> dnspkt::DNSPkt {
    let mut secs = [f.an.clone(), f.ns.clone(), f.ar.clone()];
    if let Some(l) = pad {
        // TXT rdata up to 65535; owner root to keep arithmetic simple
        let idx = f.pad_index.min(secs[f.pad_section].len());
        secs[f.pad_section].insert(idx, txt(&vec![], l, 7));
    }
    let mut p = crate::checks::c14::base_pkt(&f.q);
    p.answer = secs[0].iter().map(rd::rr_to_erbium).collect();
    p.nameserver = secs[1].iter().map(rd::rr_to_erbium).collect();
    p.additional = secs[2].iter().map(rd::rr_to_erbium).collect();
    if f.edns {
        p.edns_ver = Some(0);
        p.bufsize = 1232;
        p.edns = Some(dnspkt::EdnsData::new());
    }
    p
}

/// Oracle shared with the end-to-end part: `wire` is what was emitted under `limit`, `full` is the
/// complete message in reference form (OPT last in additional if any).
pub fn judge_limited(wire: &[u8], limit: usize, full: &Msg, full_size: usize) -> Result<&'static str, (String, String)> {
    if wire.len() > limit {
        return Err(("over-limit".into(), format!("{} octets emitted under a limit of {}", wire.len(), limit)));
    }
    let (m, _) = rd::decode(wire).map_err(|e| ("malformed".to_string(), format!("emitted message ({} octets, limit {limit}, full size {full_size}) is not well-formed: {e}", wire.len())))?;
    if m.id != full.id || m.question != full.question {
        return Err(("id-question".into(), "id/question differ from the full message".into()));
    }
    // non-OPT records must be a prefix of answer || authority || additional
    let want: Vec<(usize, &Rr)> = full.answer.iter().map(|r| (0, r)).chain(full.authority.iter().map(|r| (1, r))).chain(full.additional.iter().filter(|r| r.rtype != rd::T_OPT).map(|r| (2, r))).collect();
    let got: Vec<(usize, &Rr)> = m.answer.iter().map(|r| (0, r)).chain(m.authority.iter().map(|r| (1, r))).chain(m.additional.iter().filter(|r| r.rtype != rd::T_OPT).map(|r| (2, r))).collect();
    if got.len() > want.len() || got.iter().zip(want.iter()).any(|(g, w)| g != w) {
        return Err(("not-a-prefix".into(), format!("records present are not a prefix of the full record list ({} present, {} in full)", got.len(), want.len())));
    }
    let missing = want.len() - got.len();
    let opt_missing = full.opt().is_some() && m.opt().is_none();
    if missing > 0 && !m.tc() {
        return Err(("tc-clear-but-truncated".into(), format!("{missing} record(s) omitted but TC is clear")));
    }
    if missing == 0 && !opt_missing && m.tc() && !full.tc() {
        return Err(("tc-set-but-complete".into(), "nothing omitted but TC is set".into()));
    }
    if full_size <= limit && (missing > 0 || opt_missing) {
        return Err(("fits-but-truncated".into(), format!("full message is {full_size} octets <= limit {limit} but {missing} record(s) were omitted")));
    }
    Ok(if missing > 0 { "truncated" } else if opt_missing { "opt-dropped" } else { "complete" })
}

pub fn one(f: &Family, limit: usize, delta: i64) -> (String, Option<Violation>) {
    let case = json!({"engine":"c04","part":"function","family":f.name,"limit":limit,"delta":delta});
    let base = build(f, Some(0));
    let r = panics::catch(|| {
        let base_len = base.serialise().len() as i64;
        let target = limit as i64 + delta;
        let padlen = target - base_len;
        if !(0..=65000).contains(&padlen) {
            return None;
        }
        let p = build(f, Some(padlen as usize));
        let full = p.serialise();
        Some((p.serialise_with_size(limit), full, p))
    });
    match r {
        Err(p) => ("panic".into(), Some(Violation::new("serialise-panic", format!("serialise_with_size({limit}) panicked: {} at {}", p.msg, panics::short_loc(&p.loc)), case).sig("loc", panics::short_loc(&p.loc)))),
        Ok(None) => ("skipped-unreachable-size".into(), None),
        Ok(Some((wire, full_wire, p))) => {
            if full_wire.len() as i64 != limit as i64 + delta && full_wire.len() <= 65535 {
                // compression made the size non-linear in the pad length: not a verdict, just a different delta
            }
            let full = rd::msg_from_erbium(&p);
            match judge_limited(&wire, limit, &full, full_wire.len()) {
                Ok(c) => (format!("{}:{}:{}", f.name, c, if full_wire.len() <= limit { "fits" } else { "over" }), None),
                Err((oracle, what)) => (format!("{}:violation:{oracle}", f.name), Some(Violation::new(&oracle, format!("family {} limit {limit} full size {}: {what}", f.name, full_wire.len()), case).sig("part", "function"))),
            }
        }
    }
}

pub fn function_part(rep: &mut Report, thorough: bool) -> (u64, std::collections::BTreeSet<String>) {
    let fams = families();
    let mut limits: Vec<usize> = if thorough { (512..=4096).collect() } else { (512..=640).chain((641..=4096).step_by(61)).collect() };
    limits.extend([8192, 16383, 16384, 16385, 32768, 65535]);
    let deltas: Vec<i64> = if thorough { (-20..=40).chain([1000, 60000]).collect() } else { (-4..=14).chain([1000]).collect() };
    let mut work = vec![];
    for (fi, _) in fams.iter().enumerate() {
        for l in &limits {
            for d in &deltas {
                work.push((fi, *l, *d));
            }
        }
    }
    let outs: Vec<(String, Option<Violation>)> = work.par_iter().map(|(fi, l, d)| one(&fams[*fi], *l, *d)).collect();
    let mut classes = std::collections::BTreeSet::new();
    let mut n = 0;
    for (c, v) in outs {
        if c != "skipped-unreachable-size" {
            n += 1;
        }
        classes.insert(c);
        if let Some(v) = v {
            rep.violation(v);
        }
    }
    // serialise() itself is the TCP path's encoder: a message of exactly 65535 / 65536 / 65537 octets
    for total in [65534usize, 65535, 65536, 65537, 70000] {
        let f = &fams[3];
        let base = build(f, Some(0)).serialise().len();
        let p = build(f, Some((total - base).min(65535)));
        n += 1;
        let case = json!({"engine":"c04","part":"function","family":"tcp-max","total":total});
        match panics::catch(|| p.serialise_with_size(65535)) {
            Err(pi) => rep.violation(Violation::new("serialise-panic", format!("serialise_with_size(65535) panicked: {} at {}", pi.msg, panics::short_loc(&pi.loc)), case).sig("loc", panics::short_loc(&pi.loc))),
            Ok(w) => {
                let full = rd::msg_from_erbium(&p);
                let full_len = p.serialise_with_size(1 << 20).len();
                classes.insert(format!("tcp-max:{}", if full_len <= 65535 { "fits" } else { "over" }));
                if let Err((oracle, what)) = judge_limited(&w, 65535, &full, full_len) {
                    rep.violation(Violation::new(&oracle, format!("TCP-sized message ({full_len} octets): {what}"), case).sig("part", "function"));
                }
            }
        }
    }
    (n, classes)
}

pub fn run_function_only(tier: &str, replay: Option<Value>) -> ! {
    // Used until the E-NET part is wired in; afterwards enet_checks::run_c04 calls function_part.
    let mut rep = Report::new("C04", if replay.is_some() { "quick" } else { tier }, "exploration");
    if let Some(case) = replay {
        rep.replay_mode = true;
        let case = if case.get("case").is_some() { case["case"].clone() } else { case };
        let fams = families();
        if let Some(f) = fams.iter().find(|f| Some(f.name) == case["family"].as_str()) {
            if let (_, Some(v)) = one(f, case["limit"].as_u64().unwrap_or(512) as usize, case["delta"].as_i64().unwrap_or(1)) {
                rep.violation(v);
            }
        } else {
            function_part(&mut rep, false);
        }
        rep.finish();
    }
    let (n, classes) = function_part(&mut rep, tier == "thorough");
    rep.cov("evaluations", n);
    rep.cov("distinct_nontrivial", classes.len() as u64);
    rep.cov("rule", "serialise_with_size(limit) for every limit (thorough: 512..=4096 all; quick: 512..=640 all then step 61) + {8192,16383,16384,16385,32768,65535} x 6 message families x every size delta (full size = limit+delta, delta -20..+40 thorough, -4..+14 quick, +1000, +60000), decoded by the independent strict decoder; distinct = (family, outcome, fits/over) classes");
    rep.cov("exhaustive", true);
    rep.cov("classes", json!(classes));
    rep.cov("samples", json!([{"family":"three-sections","limit":512,"delta":1},{"family":"one-huge","limit":65535,"delta":1000}]));
    rep.finish()
}

