//! Independent DNS wire codec written from RFC 1035 / 3597 / 6891.  Shares no code with erbium.
//! The decoder is *strict*: header counts must equal contents, no trailing octets, every
//! compression pointer must point strictly backwards to an offset < 0x4000 inside the message,
//! labels <= 63 octets (name length > 255 is recorded but not an error), RDLENGTH must equal what the typed RDATA consumed.
use std::collections::HashMap;

pub type Name = Vec<Vec<u8>>;

#[derive(Clone, Debug, PartialEq, Eq, PartialOrd, Ord)]
pub enum Rdata {
    Name(Name),                                   // NS CNAME PTR
    PrefName(u16, Name),                          // MX RT AFSDB
    TwoNames(Name, Name),                         // RP
    Soa(Name, Name, [u32; 5]),
    Naptr(u16, u16, Vec<u8>, Vec<u8>, Vec<u8>, Name),
    Opt(Vec<(u16, Vec<u8>)>),
    Raw(Vec<u8>),
}

#[derive(Clone, Debug, PartialEq, Eq, PartialOrd, Ord)]
pub struct Rr {
    pub name: Name,
    pub rtype: u16,
    pub class: u16,
    pub ttl: u32,
    pub rdata: Rdata,
}

#[derive(Clone, Debug, PartialEq, Eq)]
pub struct Msg {
    pub id: u16,
    pub flags: u16,
    pub question: Vec<(Name, u16, u16)>,
    pub answer: Vec<Rr>,
    pub authority: Vec<Rr>,
    pub additional: Vec<Rr>,
}

impl Msg {
    pub fn qr(&self) -> bool {
        self.flags & 0x8000 != 0
    }
    pub fn tc(&self) -> bool {
        self.flags & 0x0200 != 0
    }
    pub fn rd(&self) -> bool {
        self.flags & 0x0100 != 0
    }
    pub fn opt(&self) -> Option<&Rr> {
        self.additional.iter().find(|r| r.rtype == 41)
    }
    /// 12-bit response code (header low 4 bits + OPT extended bits).
    pub fn rcode(&self) -> u16 {
        let lo = self.flags & 0xf;
        match self.opt() {
            Some(o) => lo | (((o.ttl >> 24) as u16) << 4),
            None => lo,
        }
    }
    pub fn non_opt_additional(&self) -> Vec<Rr> {
        self.additional.iter().filter(|r| r.rtype != 41).cloned().collect()
    }
}

pub const T_A: u16 = 1;
pub const T_NS: u16 = 2;
pub const T_CNAME: u16 = 5;
pub const T_SOA: u16 = 6;
pub const T_PTR: u16 = 12;
pub const T_MX: u16 = 15;
pub const T_TXT: u16 = 16;
pub const T_RP: u16 = 17;
pub const T_AFSDB: u16 = 18;
pub const T_RT: u16 = 21;
pub const T_AAAA: u16 = 28;
pub const T_NAPTR: u16 = 35;
pub const T_OPT: u16 = 41;

#[derive(Default, Clone, Debug)]
pub struct DecodeStats {
    pub pointers: u32,
    pub max_pointer_target: usize,
    pub max_name_len: usize,
}

struct Dec<'a> {
    b: &'a [u8],
    o: usize,
    stats: DecodeStats,
}

impl<'a> Dec<'a> {
    fn u8(&mut self) -> Result<u8, String> {
        let v = *self.b.get(self.o).ok_or_else(|| format!("truncated at {}", self.o))?;
        self.o += 1;
        Ok(v)
    }
    fn u16(&mut self) -> Result<u16, String> {
        Ok(((self.u8()? as u16) << 8) | self.u8()? as u16)
    }
    fn u32(&mut self) -> Result<u32, String> {
        Ok(((self.u16()? as u32) << 16) | self.u16()? as u32)
    }
    fn bytes(&mut self, n: usize) -> Result<Vec<u8>, String> {
        if self.o + n > self.b.len() {
            return Err(format!("truncated: {} octets at {}", n, self.o));
        }
        let v = self.b[self.o..self.o + n].to_vec();
        self.o += n;
        Ok(v)
    }
    /// Strict name decoding.
    fn name(&mut self) -> Result<Name, String> {
        let mut labels: Name = vec![];
        let mut pos = self.o;
        let mut jumped = false;
        let mut total = 0usize;
        let mut hops = 0;
        loop {
            let l = *self.b.get(pos).ok_or_else(|| format!("name runs off the message at {pos}"))? as usize;
            if l == 0 {
                pos += 1;
                if !jumped {
                    self.o = pos;
                }
                total += 1;
                // RFC 1035 limits names to 255 octets; none of the properties demands that the
                // forwarder enforces it, so it is recorded, not judged.
                self.stats.max_name_len = self.stats.max_name_len.max(total);
                return Ok(labels);
            } else if l & 0xc0 == 0xc0 {
                let l2 = *self.b.get(pos + 1).ok_or("pointer truncated")? as usize;
                let target = ((l & 0x3f) << 8) | l2;
                if target >= pos {
                    return Err(format!("compression pointer at {pos} does not point backwards (target {target})"));
                }
                if target >= 0x4000 || target >= self.b.len() {
                    return Err(format!("compression pointer target {target} out of range"));
                }
                self.stats.pointers += 1;
                self.stats.max_pointer_target = self.stats.max_pointer_target.max(target);
                if !jumped {
                    self.o = pos + 2;
                }
                jumped = true;
                pos = target;
                hops += 1;
                if hops > 127 {
                    return Err("pointer loop".into());
                }
            } else if l & 0xc0 != 0 {
                return Err(format!("reserved label type {l:#x} at {pos}"));
            } else {
                if pos + 1 + l > self.b.len() {
                    return Err("label runs off the message".into());
                }
                labels.push(self.b[pos + 1..pos + 1 + l].to_vec());
                total += 1 + l;
                pos += 1 + l;
            }
        }
    }
    fn rr(&mut self) -> Result<Rr, String> {
        let name = self.name()?;
        let rtype = self.u16()?;
        let class = self.u16()?;
        let ttl = self.u32()?;
        let rdlen = self.u16()? as usize;
        let start = self.o;
        if start + rdlen > self.b.len() {
            return Err(format!("rdata ({rdlen}) runs off the message at {start}"));
        }
        let rdata = match rtype {
            T_NS | T_CNAME | T_PTR => Rdata::Name(self.name()?),
            T_MX | T_RT | T_AFSDB => Rdata::PrefName(self.u16()?, self.name()?),
            T_RP => Rdata::TwoNames(self.name()?, self.name()?),
            T_SOA => {
                let m = self.name()?;
                let r = self.name()?;
                Rdata::Soa(m, r, [self.u32()?, self.u32()?, self.u32()?, self.u32()?, self.u32()?])
            }
            T_NAPTR => {
                let order = self.u16()?;
                let pref = self.u16()?;
                let l = self.u8()? as usize;
                let flags = self.bytes(l)?;
                let l = self.u8()? as usize;
                let services = self.bytes(l)?;
                let l = self.u8()? as usize;
                let regexp = self.bytes(l)?;
                Rdata::Naptr(order, pref, flags, services, regexp, self.name()?)
            }
            T_OPT => {
                let mut opts = vec![];
                while self.o < start + rdlen {
                    let code = self.u16()?;
                    let l = self.u16()? as usize;
                    if self.o + l > start + rdlen {
                        return Err("EDNS option overruns OPT rdata".into());
                    }
                    opts.push((code, self.bytes(l)?));
                }
                Rdata::Opt(opts)
            }
            _ => Rdata::Raw(self.bytes(rdlen)?),
        };
        if self.o != start + rdlen {
            return Err(format!("type {rtype}: RDLENGTH {rdlen} but typed rdata consumed {}", self.o - start));
        }
        Ok(Rr { name, rtype, class, ttl, rdata })
    }
}

/// Strict decode. `allow_short_sections`: when TC is set accept fewer records than the counts? No:
/// the property demands counts == contents always, so this is always strict.
pub fn decode(b: &[u8]) -> Result<(Msg, DecodeStats), String> {
    let mut d = Dec { b, o: 0, stats: Default::default() };
    let id = d.u16()?;
    let flags = d.u16()?;
    let qd = d.u16()?;
    let an = d.u16()?;
    let ns = d.u16()?;
    let ar = d.u16()?;
    let mut question = vec![];
    for _ in 0..qd {
        let n = d.name()?;
        question.push((n, d.u16()?, d.u16()?));
    }
    let mut secs: Vec<Vec<Rr>> = vec![];
    for (i, cnt) in [an, ns, ar].iter().enumerate() {
        let mut v = vec![];
        for k in 0..*cnt {
            v.push(d.rr().map_err(|e| format!("section {i} record {k} of {cnt}: {e}"))?);
        }
        secs.push(v);
    }
    if d.o != b.len() {
        return Err(format!("{} trailing octet(s) after the last record (counts {qd}/{an}/{ns}/{ar})", b.len() - d.o));
    }
    let additional = secs.pop().unwrap();
    let authority = secs.pop().unwrap();
    let answer = secs.pop().unwrap();
    Ok((Msg { id, flags, question, answer, authority, additional }, d.stats))
}

// ---------------------------------------------------------------------------
// Encoder (used for scripted upstream replies and client queries)
// ---------------------------------------------------------------------------

pub struct Enc {
    pub v: Vec<u8>,
    compress: bool,
    dict: HashMap<Vec<Vec<u8>>, usize>,
}

impl Enc {
    pub fn new(compress: bool) -> Self {
        Enc { v: vec![], compress, dict: HashMap::new() }
    }
    fn u16(&mut self, x: u16) {
        self.v.extend_from_slice(&x.to_be_bytes());
    }
    fn u32(&mut self, x: u32) {
        self.v.extend_from_slice(&x.to_be_bytes());
    }
    pub fn name(&mut self, n: &Name) {
        for i in 0..n.len() {
            let suffix: Vec<Vec<u8>> = n[i..].to_vec();
            if self.compress {
                if let Some(off) = self.dict.get(&suffix) {
                    let p = 0xc000u16 | *off as u16;
                    self.u16(p);
                    return;
                }
                if self.v.len() < 0x4000 {
                    self.dict.insert(suffix, self.v.len());
                }
            }
            self.v.push(n[i].len() as u8);
            self.v.extend_from_slice(&n[i]);
        }
        self.v.push(0);
    }
    fn rr(&mut self, r: &Rr) {
        self.name(&r.name);
        self.u16(r.rtype);
        self.u16(r.class);
        self.u32(r.ttl);
        let lenpos = self.v.len();
        self.u16(0);
        match &r.rdata {
            Rdata::Name(n) => self.name(n),
            Rdata::PrefName(p, n) => {
                self.u16(*p);
                self.name(n)
            }
            Rdata::TwoNames(a, b) => {
                self.name(a);
                self.name(b)
            }
            Rdata::Soa(m, rn, nums) => {
                self.name(m);
                self.name(rn);
                for x in nums {
                    self.u32(*x);
                }
            }
            Rdata::Naptr(o, p, f, s, re, n) => {
                self.u16(*o);
                self.u16(*p);
                for x in [f, s, re] {
                    self.v.push(x.len() as u8);
                    self.v.extend_from_slice(x);
                }
                self.name(n)
            }
            Rdata::Opt(opts) => {
                for (c, d) in opts {
                    self.u16(*c);
                    self.u16(d.len() as u16);
                    self.v.extend_from_slice(d);
                }
            }
            Rdata::Raw(b) => self.v.extend_from_slice(b),
        }
        let l = (self.v.len() - lenpos - 2) as u16;
        self.v[lenpos..lenpos + 2].copy_from_slice(&l.to_be_bytes());
    }
}

pub fn encode(m: &Msg, compress: bool) -> Vec<u8> {
    let mut e = Enc::new(compress);
    e.u16(m.id);
    e.u16(m.flags);
    e.u16(m.question.len() as u16);
    e.u16(m.answer.len() as u16);
    e.u16(m.authority.len() as u16);
    e.u16(m.additional.len() as u16);
    for (n, t, c) in &m.question {
        e.name(n);
        e.u16(*t);
        e.u16(*c);
    }
    for r in m.answer.iter().chain(m.authority.iter()).chain(m.additional.iter()) {
        e.rr(r);
    }
    e.v
}

pub fn name(s: &str) -> Name {
    if s.is_empty() || s == "." {
        return vec![];
    }
    s.trim_end_matches('.').split('.').map(|l| l.as_bytes().to_vec()).collect()
}

pub fn name_str(n: &Name) -> String {
    if n.is_empty() {
        return ".".into();
    }
    n.iter().map(|l| l.iter().map(|b| if b.is_ascii_graphic() && *b != b'.' { (*b as char).to_string() } else { format!("\\{:03}", b) }).collect::<String>()).collect::<Vec<_>>().join(".")
}

pub fn opt_rr(bufsize: u16, ext_rcode: u8, version: u8, do_bit: bool, options: Vec<(u16, Vec<u8>)>) -> Rr {
    Rr { name: vec![], rtype: T_OPT, class: bufsize, ttl: ((ext_rcode as u32) << 24) | ((version as u32) << 16) | if do_bit { 0x8000 } else { 0 }, rdata: Rdata::Opt(options) }
}

pub fn query(id: u16, qname: &Name, qtype: u16, qclass: u16, rd: bool, opt: Option<Rr>) -> Msg {
    Msg { id, flags: if rd { 0x0100 } else { 0 }, question: vec![(qname.clone(), qtype, qclass)], answer: vec![], authority: vec![], additional: opt.into_iter().collect() }
}

// ---------------------------------------------------------------------------
// Bridging erbium's DNSPkt to the reference representation (for comparisons)
// ---------------------------------------------------------------------------

use erbium::dns::dnspkt;

pub fn dom(d: &dnspkt::Domain) -> Name {
    d.verif_labels()
}

pub fn to_domain(n: &Name) -> dnspkt::Domain {
    dnspkt::Domain::from(n.iter().map(|l| dnspkt::Label::from(l.clone())).collect::<Vec<_>>())
}

pub fn rr_from_erbium(r: &dnspkt::RR) -> Rr {
    use dnspkt::RData::*;
    let rdata = match &r.rdata {
        CName(d) | Ns(d) | Ptr(d) => Rdata::Name(dom(d)),
        Mx(p) | Rt(p) => Rdata::PrefName(p.pref, dom(&p.domain)),
        AfsDb(a) => Rdata::PrefName(a.subtype, dom(&a.hostname)),
        Rp(p) => Rdata::TwoNames(dom(&p.mbox), dom(&p.txt)),
        Soa(s) => Rdata::Soa(dom(&s.mname), dom(&s.rname), [s.serial, s.refresh, s.retry, s.expire, s.minimum]),
        NaPtr(n) => Rdata::Naptr(n.order, n.preference, n.flags.clone(), n.services.clone(), n.regexp.clone(), dom(&n.replacement)),
        Opt(o) => Rdata::Opt(o.verif_options().iter().map(|x| (x.code.0, x.data.clone())).collect()),
        Other(v) => Rdata::Raw(v.clone()),
    };
    Rr { name: dom(&r.domain), rtype: r.rrtype.0, class: r.class.0, ttl: r.ttl, rdata }
}

pub fn rr_to_erbium(r: &Rr) -> dnspkt::RR {
    use dnspkt::RData;
    let rdata = match (&r.rdata, r.rtype) {
        (Rdata::Name(n), T_NS) => RData::Ns(to_domain(n)),
        (Rdata::Name(n), T_CNAME) => RData::CName(to_domain(n)),
        (Rdata::Name(n), _) => RData::Ptr(to_domain(n)),
        (Rdata::PrefName(p, n), T_MX) => RData::Mx(dnspkt::PrefDomainData { pref: *p, domain: to_domain(n) }),
        (Rdata::PrefName(p, n), T_RT) => RData::Rt(dnspkt::PrefDomainData { pref: *p, domain: to_domain(n) }),
        (Rdata::PrefName(p, n), _) => RData::AfsDb(dnspkt::AFSDBData { subtype: *p, hostname: to_domain(n) }),
        (Rdata::TwoNames(a, b), _) => RData::Rp(dnspkt::RPData { mbox: to_domain(a), txt: to_domain(b) }),
        (Rdata::Soa(m, rn, x), _) => RData::Soa(dnspkt::SoaData { mname: to_domain(m), rname: to_domain(rn), serial: x[0], refresh: x[1], retry: x[2], expire: x[3], minimum: x[4] }),
        (Rdata::Naptr(o, p, f, s, re, n), _) => RData::NaPtr(dnspkt::NAPTRData { order: *o, preference: *p, flags: f.clone(), services: s.clone(), regexp: re.clone(), replacement: to_domain(n) }),
        (Rdata::Opt(opts), _) => {
            let mut e = dnspkt::EdnsData::new();
            for (c, d) in opts {
                e.set_opt(dnspkt::EdnsOption { code: dnspkt::EdnsCode(*c), data: d.clone() });
            }
            RData::Opt(e)
        }
        (Rdata::Raw(b), _) => RData::Other(b.clone()),
    };
    dnspkt::RR { domain: to_domain(&r.name), class: dnspkt::Class(r.class), rrtype: dnspkt::Type(r.rtype), ttl: r.ttl, rdata }
}

/// What an erbium DNSPkt *means* on the wire, in reference form (OPT re-materialised).
pub fn msg_from_erbium(p: &dnspkt::DNSPkt) -> Msg {
    let mut flags: u16 = 0;
    if p.qr {
        flags |= 0x8000;
    }
    flags |= ((p.opcode.0 as u16) & 0xf) << 11;
    if p.aa {
        flags |= 0x0400;
    }
    if p.tc {
        flags |= 0x0200;
    }
    if p.rd {
        flags |= 0x0100;
    }
    if p.ra {
        flags |= 0x0080;
    }
    if p.ad {
        flags |= 0x0020;
    }
    if p.cd {
        flags |= 0x0010;
    }
    flags |= p.rcode.0 & 0xf;
    let mut additional: Vec<Rr> = p.additional.iter().map(rr_from_erbium).collect();
    if let Some(e) = &p.edns {
        additional.push(opt_rr(p.bufsize, (p.rcode.0 >> 4) as u8, p.edns_ver.unwrap_or(0), p.edns_do, e.verif_options().iter().map(|x| (x.code.0, x.data.clone())).collect()));
    }
    Msg {
        id: p.qid,
        flags,
        question: vec![(dom(&p.question.qdomain), p.question.qtype.0, p.question.qclass.0)],
        answer: p.answer.iter().map(rr_from_erbium).collect(),
        authority: p.nameserver.iter().map(rr_from_erbium).collect(),
        additional,
    }
}
