//! E-CRASH: write-class libc calls made by libsqlite3.so are interposed by this executable.
//! Once armed, every such call is counted; when the count reaches KILL_AT the process `_exit`s
//! *before* performing the call (process kill: the page cache survives, the file is exactly the
//! prefix of the syscalls issued so far).  Unarmed, every wrapper is a transparent pass-through.
use std::sync::atomic::{AtomicBool, AtomicI64, Ordering};

pub static ARMED: AtomicBool = AtomicBool::new(false);
pub static COUNT: AtomicI64 = AtomicI64::new(0);
pub static KILL_AT: AtomicI64 = AtomicI64::new(-1);
/// fd the child reports on (never counted)
pub static REPORT_FD: AtomicI64 = AtomicI64::new(-1);

#[inline(always)]
fn point(kind: u8) {
    if ARMED.load(Ordering::Relaxed) {
        let n = COUNT.fetch_add(1, Ordering::SeqCst);
        let k = KILL_AT.load(Ordering::Relaxed);
        if k >= 0 && n == k {
            // die before the call; report which kind of call it was (raw syscall, uncounted)
            let fd = REPORT_FD.load(Ordering::Relaxed);
            if fd >= 0 {
                let msg = [b'K', b' ', kind, b'\n'];
                unsafe { libc::syscall(libc::SYS_write, fd as libc::c_int, msg.as_ptr(), msg.len()) };
            }
            unsafe { libc::_exit(99) };
        }
    }
}

#[unsafe(no_mangle)]
pub unsafe extern "C" fn pwrite64(fd: libc::c_int, buf: *const libc::c_void, n: libc::size_t, off: libc::off64_t) -> libc::ssize_t {
    point(b'p');
    unsafe { libc::syscall(libc::SYS_pwrite64, fd, buf, n, off) as libc::ssize_t }
}

#[unsafe(no_mangle)]
pub unsafe extern "C" fn pwrite(fd: libc::c_int, buf: *const libc::c_void, n: libc::size_t, off: libc::off_t) -> libc::ssize_t {
    point(b'p');
    unsafe { libc::syscall(libc::SYS_pwrite64, fd, buf, n, off) as libc::ssize_t }
}

#[unsafe(no_mangle)]
pub unsafe extern "C" fn write(fd: libc::c_int, buf: *const libc::c_void, n: libc::size_t) -> libc::ssize_t {
    // stdout/stderr and the report pipe are not part of the store
    if fd > 2 && fd as i64 != REPORT_FD.load(Ordering::Relaxed) {
        point(b'w');
    }
    unsafe { libc::syscall(libc::SYS_write, fd, buf, n) as libc::ssize_t }
}

#[unsafe(no_mangle)]
pub unsafe extern "C" fn fdatasync(fd: libc::c_int) -> libc::c_int {
    point(b'd');
    unsafe { libc::syscall(libc::SYS_fdatasync, fd) as libc::c_int }
}

#[unsafe(no_mangle)]
pub unsafe extern "C" fn fsync(fd: libc::c_int) -> libc::c_int {
    point(b's');
    unsafe { libc::syscall(libc::SYS_fsync, fd) as libc::c_int }
}

#[unsafe(no_mangle)]
pub unsafe extern "C" fn ftruncate64(fd: libc::c_int, len: libc::off64_t) -> libc::c_int {
    point(b't');
    unsafe { libc::syscall(libc::SYS_ftruncate, fd, len) as libc::c_int }
}

#[unsafe(no_mangle)]
pub unsafe extern "C" fn ftruncate(fd: libc::c_int, len: libc::off_t) -> libc::c_int {
    point(b't');
    unsafe { libc::syscall(libc::SYS_ftruncate, fd, len) as libc::c_int }
}

#[unsafe(no_mangle)]
pub unsafe extern "C" fn unlink(path: *const libc::c_char) -> libc::c_int {
    point(b'u');
    unsafe { libc::syscall(libc::SYS_unlink, path) as libc::c_int }
}

pub fn arm(kill_at: i64, report_fd: i64) {
    COUNT.store(0, Ordering::SeqCst);
    KILL_AT.store(kill_at, Ordering::SeqCst);
    REPORT_FD.store(report_fd, Ordering::SeqCst);
    ARMED.store(true, Ordering::SeqCst);
}

pub fn disarm() -> i64 {
    ARMED.store(false, Ordering::SeqCst);
    COUNT.load(Ordering::SeqCst)
}

/// Uncounted raw write for child -> parent reports.
pub fn report(fd: i64, line: &str) {
    let b = line.as_bytes();
    unsafe { libc::syscall(libc::SYS_write, fd as libc::c_int, b.as_ptr(), b.len()) };
}
